"""C05 — logdet and inverse quadratic forms equal the dense values or their quadrature.

tie      : correspondence.  coq/C05/Model.v (routing + per-class overrides + InvQuadLogdet.forward with
           linear_cg / lanczos_tridiag_to_diag / StochasticLQ) is evaluated inside Coq (vm_compute on PrimFloat)
           on the same operators, right-hand sides, settings and -- for the stochastic path -- on exactly the
           probe vectors the run drew (read back from the InvQuadLogdet autograd node); outputs (values, shapes,
           None / empty placeholders, raise-or-not) are diffed in Coq.
search   : the property's predicate evaluated directly on the implementation's outputs against an independent
           dense oracle (plain torch on the dense matrix assembled from the leaves; the Gauss-Lanczos
           quadrature value computed from the probes with torch.linalg.eigh).
"""
import json
import math
import os
import random
import sys
import time
import warnings

import torch

from . import common, opbuild
from . import c05_ops as ops

F64 = torch.float64
PROP = "C05"
SHARD = 60

# ------------------------------------------------------------------------------------------ settings

def lib_defaults():
    from linear_operator import settings as S
    return {
        "mcs": int(S.max_cholesky_size.value()), "log_prob": bool(S.fast_computations.log_prob.on()),
        "solves": bool(S.fast_computations.solves.on()), "crd": bool(S.fast_computations.covar_root_decomposition.on()),
        "nts": int(S.num_trace_samples.value()),
        "lq": int(S.max_lanczos_quadrature_iterations.value()), "cg": int(S.max_cg_iterations.value()),
        "cgtol": float(S.cg_tolerance.value()), "tbs": bool(S.terminate_cg_by_size.on()),
        "skip": bool(S.skip_logdet_forward.on()), "mps": int(S.max_preconditioner_size.value()),
        "minps": int(S.min_preconditioning_size.value()),
    }


class Ctxs:
    """enter the settings contexts of a case (only those that differ from the library defaults)"""

    def __init__(self, st, defaults):
        from linear_operator import settings as S
        self.cm = []
        d = defaults
        if st["mcs"] != d["mcs"]:
            self.cm.append(S.max_cholesky_size(st["mcs"]))
        if st["log_prob"] != d["log_prob"] or st["solves"] != d["solves"] or st.get("crd", d["crd"]) != d["crd"]:
            self.cm.append(S.fast_computations(covar_root_decomposition=st.get("crd", d["crd"]), log_prob=st["log_prob"],
                                               solves=st["solves"]))
        if st["nts"] != d["nts"]:
            self.cm.append(S.num_trace_samples(st["nts"]))
        if st["lq"] != d["lq"]:
            self.cm.append(S.max_lanczos_quadrature_iterations(st["lq"]))
        if st["cg"] != d["cg"]:
            self.cm.append(S.max_cg_iterations(st["cg"]))
        if st["skip"] != d["skip"]:
            self.cm.append(S.skip_logdet_forward(st["skip"]))
        if st["mps"] != d["mps"]:
            self.cm.append(S.max_preconditioner_size(st["mps"]))
        if st["minps"] != d["minps"]:
            self.cm.append(S.min_preconditioning_size(st["minps"]))

    def __enter__(self):
        for c in self.cm:
            c.__enter__()

    def __exit__(self, *a):
        for c in reversed(self.cm):
            c.__exit__(None, None, None)
        return False


# ------------------------------------------------------------------------------------------ running the implementation

def find_node(fn, depth=0):
    if fn is None or depth > 40:
        return None
    if hasattr(fn, "probe_vectors"):
        return fn
    for f, _ in fn.next_functions:
        r = find_node(f, depth + 1)
        if r is not None:
            return r
    return None


def added_diag_of(op):
    """the AddedDiagLinearOperator (exactly that class) under Block / Repeat wrappers, if any"""
    import linear_operator.operators as O
    while isinstance(op, (O.BlockDiagLinearOperator, O.BlockInterleavedLinearOperator, O.BatchRepeatLinearOperator)):
        op = op.base_linear_op
    return op if type(op) is O.AddedDiagLinearOperator else None


def tens(o):
    return None if o is None else o.detach().clone()


def cached_root_of(op, spec):
    """the entry the Cholesky shortcut of LinearOperator.inv_quad_logdet would re-use: a TriangularLinearOperator root in the
    operator's root_decomposition cache (read BEFORE the call; only for classes on the base-class path).  Returns the dense
    lower-triangular root, "upper" for an upper one (not modelled), or None."""
    if spec["k"] not in ops.GENERIC:
        return None
    import linear_operator.operators as O
    from linear_operator.utils.memoize import _is_in_cache_ignore_all_args
    try:
        if not _is_in_cache_ignore_all_args(op, "root_decomposition"):
            return None
        root = op.root_decomposition().root
    except Exception:
        return None
    if not isinstance(root, O.TriangularLinearOperator):
        return None
    if getattr(root, "upper", False):
        return "upper"
    return root.to_dense().detach().clone()


class CGRecorder:
    """records the probe columns handed to linear_cg (the first n_tridiag columns of its rhs) for operators whose
    result carries no autograd node (no floating-point leaf, e.g. sums of identities): the harness-process
    monkeypatch the design allows; where the autograd node exists both readings must coincide"""

    def __init__(self):
        import linear_operator.utils as U
        self.U = U
        self.orig = U.linear_cg
        self.probes = None

    def __enter__(self):
        orig = self.orig

        def wrapped(matmul_closure, rhs, *a, **kw):
            nt = kw.get("n_tridiag", a[0] if a else 0)
            if nt and self.probes is None:
                self.probes = rhs.detach()[..., :nt].clone()
            return orig(matmul_closure, rhs, *a, **kw)
        self.U.linear_cg = wrapped
        return self

    def __exit__(self, *a):
        self.U.linear_cg = self.orig
        return False


def run_impl(case, defaults):
    """returns obs dict: {"raise": .., "msg": ..} or {"iq": tensor/None, "ld": tensor/None, "probes", "pc"}"""
    spec = case["spec"]
    gmode = case.get("grad", "on")       # "on": leaves and rhs require grad; "off": nothing does; "no_grad": torch.no_grad()
    op = ops.build(spec, grad=(gmode == "on"))
    R = case["R"]
    Rg = None if R is None else (R.clone().requires_grad_(True) if gmode == "on" else R.clone())
    import contextlib
    import linear_operator as LO
    fn = case.get("functional", False)   # the functional forms linear_operator.inv_quad / inv_quad_logdet / logdet
    torch.manual_seed(case["tseed"])
    st = case["st"]
    croot = None
    with warnings.catch_warnings():
        warnings.simplefilter("ignore")
        with Ctxs(st, defaults), CGRecorder() as rec, (torch.no_grad() if gmode == "no_grad" else contextlib.nullcontext()):
            try:
                if case.get("warm"):
                    try:        # fill the root_decomposition cache first (C12: must be transparent); failures of
                        op.root_decomposition()      # root_decomposition itself are C06's subject
                    except Exception:
                        pass
                croot = cached_root_of(op, spec)
                if case["api"] == "iql":
                    iq, ld = (LO.inv_quad_logdet(op, Rg, logdet=case["logdet"], reduce_inv_quad=case["reduce"]) if fn else
                              op.inv_quad_logdet(Rg, logdet=case["logdet"], reduce_inv_quad=case["reduce"]))
                elif case["api"] == "logdet":
                    iq, ld = "absent", (LO.logdet(op) if fn and hasattr(LO, "logdet") else op.logdet())
                elif case["api"] == "torch.logdet":
                    iq, ld = "absent", torch.logdet(op)
                else:   # inv_quad
                    iq, ld = (LO.inv_quad(op, Rg, reduce_inv_quad=case["reduce"]) if fn else
                              op.inv_quad(Rg, reduce_inv_quad=case["reduce"])), "absent"
            except Exception as ex:
                return {"raise": type(ex).__name__, "msg": str(ex)[:160], "croot": croot}
    node = None
    for o in (ld, iq):
        if isinstance(o, torch.Tensor) and o.grad_fn is not None and node is None:
            node = find_node(o.grad_fn)
    probes = None if node is None else node.probe_vectors.detach().clone()
    if probes is not None and rec.probes is not None and not (
            probes.shape == rec.probes.shape and torch.equal(probes, rec.probes)):
        return {"raise": "HarnessInconsistency", "msg": "probe vectors of the autograd node differ from those handed to linear_cg"}
    if probes is None:
        probes = rec.probes
    obs = {"iq": iq if isinstance(iq, str) else tens(iq), "ld": ld if isinstance(ld, str) else tens(ld),
           "probes": probes, "pc": None, "croot": croot}
    ad = added_diag_of(op)
    if ad is not None:
        d = ad._diag_tensor._diagonal().detach().clone()
        if ad._piv_chol_self is not None and ad._q_cache is not None:
            L = ad._piv_chol_self.detach().clone()
            obs["pc"] = (L.shape[-1], L, d)
        elif probes is not None and st["mps"] > 0 and ad.size(-1) >= st["minps"]:
            # the call ran on a rebuilt copy (evaluate_kernel of a lazily evaluated base): the preconditioner cache is
            # not on this object; recompute the (deterministic) pivoted Cholesky factor the copy used
            with warnings.catch_warnings():
                warnings.simplefilter("ignore")
                with Ctxs(st, defaults):
                    try:
                        ev = ad.evaluate_kernel()
                        L = ev._linear_op.pivoted_cholesky(rank=st["mps"]).detach().clone()
                        # NaNs in the factor: the library warns and continues WITHOUT preconditioner (pc stays None)
                        obs["pc"] = None if torch.isnan(L).any() else (L.shape[-1], L, d)
                    except Exception:
                        obs["pc"] = (0, torch.zeros(*d.shape, 0, dtype=F64), d)
        else:
            obs["pc"] = (0, torch.zeros(*d.shape, 0, dtype=F64), d)
    return obs


# ------------------------------------------------------------------------------------------ independent oracle / predicate

def sym_fun(M, f):
    w, V = torch.linalg.eigh(M)
    return V @ torch.diag_embed(f(w)) @ V.mT


def quadrature_value(A, P, U):
    """log|P| + (n/m) sum_i u_i^T log(P^{-1/2} A P^{-1/2}) u_i, u_i = P^{-1/2} z_i / |P^{-1/2} z_i| (z_i = columns of U);
    A: (*b, n, n), P: (*b, n, n) or None, U: probes broadcastable to (*b, n, m)"""
    n = A.shape[-1]
    bs = A.shape[:-2]
    U = U.reshape(*U.shape[U.dim() - len(bs) - 2:]) if U.dim() > len(bs) + 2 else U
    U = U.expand(*bs, *U.shape[-2:])
    m = U.shape[-1]
    if P is None:
        At, W, ldp = A, U, torch.zeros(bs, dtype=F64)
    else:
        Pih = sym_fun(P, lambda w: w.rsqrt())
        At = Pih @ A @ Pih.mT
        At = 0.5 * (At + At.mT)
        W = Pih @ U
        ldp = torch.linalg.slogdet(P)[1]
    W = W / W.norm(dim=-2, keepdim=True)
    logA = sym_fun(At, torch.log)
    return ldp + (n / m) * (W * (logA @ W)).sum((-2, -1))


def is_guard(obs):
    """the explicit refusal of a right-hand side whose batch shape differs from the operator's (the documented type of
    inv_quad_rhs is `*batch N M` with the operator's batch; several classes broadcast, the others raise this guard)"""
    return obs.get("raise") == "RuntimeError" and "cannot be multiplied with right-hand-side" in obs.get("msg", "")


def full_rhs(case, batch):
    """the right-hand side expanded to the operator's batch shape (rhs kind "bmat": a batch shape with 1s that broadcasts)"""
    R = case["R"]
    if R is None or R.dim() == 1:
        return R
    return R.expand(*batch, *R.shape[-2:])


def expected_shapes(case, batch, t):
    if case["rhs"] == "none":
        iq = None
    elif case["rhs"] == "vec":
        iq = [[]] if case["reduce"] else [[], [1]]
    else:
        iq = [list(batch)] if case["reduce"] else [list(batch) + [t]]
    return iq, list(batch)


def chol_route(st, n):
    return (not st["log_prob"]) or n <= st["mcs"]


def root_validity(case, obs):
    """numerical discharge of the hypothesis `root_valid` of C05_cached_root_*: (is_valid, |L L^T - A|_max) for the lower
    triangular root found in the root_decomposition cache, or None when there is none"""
    L = obs.get("croot")
    if not isinstance(L, torch.Tensor):
        return None
    A = ops.dense(case["spec"])
    L = L.expand(*A.shape[:-2], *L.shape[-2:])
    err = (L @ L.mT - A).abs().max().item() if L.shape == A.shape else float("inf")
    low = bool((L.triu(1) == 0).all())
    return (low and err <= 1e-8 * max(1.0, A.abs().max().item()), err)


def predicate(case, obs):
    """None if the observed outputs satisfy C05 on this case, else (fail_kind, text)."""
    f = predicate0(case, obs)
    if f and chol_route(case["st"], ops.spec_size(spec_leaf(case["spec"]))) and case["api"] != "inv_quad":
        rv = root_validity(case, obs)
        if rv is not None and not rv[0]:
            f = (f[0], f[1] + " [the lower-triangular root in the operator's root_decomposition cache, which the Cholesky "
                 "shortcut re-uses, is NOT a root of the operator: max|L L^T - A| = %.3e]" % rv[1])
    return f


def predicate0(case, obs):
    spec, st = case["spec"], case["st"]
    A = ops.dense(spec)
    n = A.shape[-1]
    R = case["R"]
    if case["rhs"] == "xmat":       # a rhs with MORE batch dimensions than the operator (LinearOperator.inv_quad broadcasts)
        A = A.expand(*R.shape[:-2], n, n)
    batch = list(A.shape[:-2])
    if "raise" in obs:
        if (case["rhs"] == "none" and not case["logdet"] and obs["raise"] == "RuntimeError"
                and "must be specif" in obs["msg"]):
            return None          # documented: nothing was asked for
        if case["rhs"] in ("bmat", "xmat") and is_guard(obs):
            return None          # explicit refusal of a rhs batch shape different from the operator's
        return ("raise:" + obs["raise"], "raised %s: %s" % (obs["raise"], obs["msg"]))
    t = 0 if R is None else (1 if R.dim() == 1 else R.shape[-1])
    exp_iq_shapes, exp_ld_shape = expected_shapes(case, batch, t)
    iq, ld = obs["iq"], obs["ld"]
    leaf = ops.leaf_kind(spec)
    # ---- inverse quadratic term
    if R is not None and not isinstance(iq, str):
        if iq is None or iq.numel() == 0 and int(math.prod(batch)) != 0:
            return ("iq-missing", "inv_quad term missing although inv_quad_rhs was given")
        if list(iq.shape) not in exp_iq_shapes:
            return ("iq-shape", "inv_quad term has shape %s, documented %s" % (list(iq.shape), exp_iq_shapes))
        Rm = R.unsqueeze(-1) if R.dim() == 1 else full_rhs(case, batch)
        sol = torch.linalg.solve(A, Rm)
        exact = (Rm * sol).sum(-2)
        if case["reduce"]:
            exact = exact.sum(-1)
        exact = exact.reshape(iq.shape)
        # InvQuadLogdet (inv_quad_logdet with logdet=True above max_cholesky_size) solves by CG whatever fast_computations.solves
        # says; only InvQuad (logdet=False / stand-alone inv_quad) consults it
        sv_eff = st["solves"] or (case["api"] == "iql" and case["logdet"])
        cg_solve = (not chol_route(st, n)) and sv_eff and (
            leaf in ops.GENERIC or (leaf == "KPAD" and spec_leaf(spec)["dk"]["k"] == "diag"))
        lanczos_jitter = leaf in ("KPAD", "SumKron") and not (leaf == "KPAD" and spec_leaf(spec)["dk"]["k"] in ("const", "diag"))
        kron_cg = leaf == "Kron" and (not chol_route(st, n)) and st["solves"]
        if kron_cg:
            # KroneckerProductLinearOperator._solve solves factor by factor; each dense factor above max_cholesky_size
            # goes through linear_cg (tolerance-terminated): accurate to ~1e-7 on these sizes (measured <= 2e-7)
            bound = 1e-5
        elif cg_solve:
            # the CG solution: residual below cg_tolerance * |r| after >= min(10, n_iter) iterations; in exact
            # arithmetic CG is exact after n steps.  |r^T A^-1 r - r^T x| <= |A^-1 r| |r - A x|.
            bound = 1e-6 if (n <= 10 and st["cg"] >= n) else None
        elif lanczos_jitter and not all_small(spec_leaf(spec), st):
            bound = JITTER_TOL
        else:
            bound = 1e-8
        if bound is not None:
            err = (iq - exact).abs().max().item() if iq.numel() else 0.0
            sc = max(1.0, exact.abs().max().item() if exact.numel() else 1.0)
            if not (err <= bound * sc):
                return ("iq-value", "inv_quad term off by %.3e (scale %.3e): got %s, dense value %s"
                        % (err, sc, iq.reshape(-1)[:4].tolist(), exact.reshape(-1)[:4].tolist()))
        else:
            if not torch.isfinite(iq).all():
                return ("iq-value", "inv_quad term not finite")
            sol_n = sol.norm(dim=-2)
            r_n = Rm.norm(dim=-2)
            slack = (sol_n * r_n * max(st["cgtol"], 1e-6) * Rm.shape[-1]).sum(-1) if case["reduce"] else \
                (sol_n * r_n * max(st["cgtol"], 1e-6) * Rm.shape[-1])
            if ((iq - exact).abs() > slack.reshape(iq.shape) + 1e-8).any():
                return ("iq-value", "inv_quad term outside the CG tolerance bound")
    # ---- log-determinant
    if case["logdet"] and not isinstance(ld, str):
        if ld is None or ld.numel() == 0 and int(math.prod(batch)) != 0:
            return ("ld-missing", "logdet term missing although logdet was requested")
        if list(ld.shape) != exp_ld_shape:
            return ("ld-shape", "logdet has shape %s, documented %s" % (list(ld.shape), exp_ld_shape))
        if st["skip"] and obs["probes"] is not None:
            return None          # skip_logdet_forward: the forward value is documented to be skipped
        if obs["probes"] is None:
            sign, exact = torch.linalg.slogdet(A)
            exact = torch.where(sign < 0, torch.full_like(exact, float("nan")), exact)
            tl = JITTER_TOL if (leaf == "SumKron" and not all_small(spec_leaf(spec), st)) else 1e-8
            bad = ~(torch.isclose(ld, exact, rtol=tl, atol=tl, equal_nan=True))
            if bad.any():
                return ("ld-value", "deterministic path: logdet %s, dense value %s"
                        % (ld.reshape(-1)[:4].tolist(), exact.reshape(-1)[:4].tolist()))
        else:
            # stochastic Lanczos quadrature: exactly the Gauss quadrature of the probes drawn once the budget reaches n
            if min(st["lq"], st["cg"]) >= n:
                Ab, P = stoch_matrices(case, obs, A)
                q = quadrature_value(Ab, P, obs["probes"])
                q = wrap_stoch(case, q, batch)
                if q.shape != ld.shape or not torch.allclose(ld, q, rtol=1e-6, atol=1e-6):
                    return ("ld-quadrature", "stochastic path: logdet %s differs from the Gauss-Lanczos quadrature of "
                            "its own probes %s" % (ld.reshape(-1)[:4].tolist(), q.reshape(-1)[:4].tolist()))
            elif not torch.isfinite(ld).all():
                return ("ld-value", "stochastic path: logdet not finite")
    return None


JITTER_TOL = 2e-5


def all_small(leaf, st):
    """every Kronecker factor is at most max_cholesky_size: the factor eigendecompositions / roots are dense (exact).
    Otherwise they go through Lanczos with its 1e-6-level jitter: the structured solve is then only accurate to ~1e-6
    relative (measured 4e-7 .. 2e-6), which the library accepts; compared at JITTER_TOL."""
    fs = leaf["fs"] if leaf["k"] == "KPAD" else leaf["a"] + leaf["b"]
    return all(f.shape[-1] <= st["mcs"] for f in fs) or not st["log_prob"] and False


def spec_leaf(s):
    while s["k"] in ("Block", "Repeat"):
        s = s["base"]
    return s


def stoch_matrices(case, obs, A):
    """dense matrix of the operator InvQuadLogdet ran on (the innermost base operator) and its preconditioner"""
    leaf = spec_leaf(case["spec"])
    Ab = ops.dense(leaf)
    P = None
    if obs.get("pc") is not None and obs["pc"][0] > 0:
        _, L, d = obs["pc"]
        P = L @ L.mT + torch.diag_embed(d.expand(*L.shape[:-1]))
        P = P.expand(*Ab.shape)
    return Ab, P


def wrap_stoch(case, q, batch):
    """push the per-base-member quadrature values through the Block sum / Repeat tiling"""
    def go(s, v):
        if s["k"] == "Block":
            return go_base(s, v).sum(-1)
        if s["k"] == "Repeat":
            b = go_base(s, v)
            rep = list(s["rep"])
            pad = len(rep) - b.dim()
            if pad > 0:
                b = b.reshape(*([1] * pad), *b.shape)
            return b.repeat(*rep)
        return v

    def go_base(s, v):
        return go(s["base"], v)
    return go(case["spec"], q)


def wrappers(s):
    w = []
    while s["k"] in ("Block", "Repeat"):
        w.append(s["k"])
        s = s["base"]
    return w


def failure_key(case, fail):
    """structural attributes of a failing case (no seeds, no values); known findings match on subsets of these"""
    spec = case["spec"]
    leaf = spec_leaf(spec)
    w = wrappers(spec)
    n = ops.spec_size(leaf)
    return {"class": ">".join(w) if w else "Leaf", "has_block": "Block" in w, "has_repeat": "Repeat" in w,
            "kind": leaf["k"], "leaf": ops.describe(leaf).split(":")[0],
            "derive": leaf.get("how") if leaf["k"] == "Derived" else None,
            "opclass": "Cat" if (leaf["k"] == "Cat" or leaf.get("how") == "cat_rows") else leaf["k"],
            "route": "chol" if chol_route(case["st"], n) else "cg",
            "rhs": "mat" if case["rhs"] in ("bmat", "xmat") else case["rhs"], "rhs_broadcast": case["rhs"] in ("bmat", "xmat"),
            "logdet": bool(case["logdet"]), "api": case["api"],
            "batched": int(math.prod(ops.spec_batch(spec))) > 1, "fail": fail}


# ------------------------------------------------------------------------------------------ the grid

def base_of(kind, r, b, m):
    if kind == "Dense":
        return {"k": "Dense", "A": ops.spd(r, b, m, shift=0.5)}
    if kind == "Diag":
        return {"k": "Diag", "d": ops.pos(r, *b, m)}
    if kind == "CDiag":
        return {"k": "CDiag", "c": ops.pos(r, *b, 1), "n": m}
    if kind == "Chol":
        return {"k": "Chol", "T": ops.tri(r, b, m, False), "upper": False}
    if kind == "CholU":
        return {"k": "Chol", "T": ops.tri(r, b, m, True), "upper": True}
    if kind == "Kron":
        return {"k": "Kron", "fs": [ops.spd(r, b, 2), ops.spd(r, b, 2)]}
    if kind == "Ident":
        return {"k": "Ident", "n": m, "batch": b}
    if kind == "LRRAD":
        return {"k": "LRRAD", "U": ops.rnd(r, *b, m, 1), "d": ops.pos(r, *b, m), "cdiag": False}
    raise ValueError(kind)


MB_PREFIX = "MB "


def variants_mb(quick):
    """every class whose inv_quad / logdet code reshapes, reduces over or broadcasts batch dimensions, with >= 2 batch
    dimensions of DIFFERENT sizes and members that all differ: leaves, expanded / broadcast batches, Block* (also with a
    block dimension that is not the last batch dimension), SumBatch, Cat along a batch dimension, BatchRepeat with repeat
    patterns that mix repeated and non-repeated dimensions, and nestings"""
    V = []

    def add(name, f):
        V.append((MB_PREFIX + name, f))
    for b in ([2, 3], [3, 1, 2]):
        main = b == [2, 3]
        add("Dense n=3 b=%s" % b, lambda r, b=b: {"k": "Dense", "A": ops.spd(r, b, 3, shift=0.5)})
        add("Diag n=3 b=%s" % b, lambda r, b=b: {"k": "Diag", "d": ops.pos(r, *b, 3)})
        add("Chol n=3 b=%s" % b, lambda r, b=b: {"k": "Chol", "T": ops.tri(r, b, 3, False), "upper": False})
        add("Kron [2, 2] b=%s" % b, lambda r, b=b: {"k": "Kron", "fs": [ops.spd(r, b, 2), ops.spd(r, b, 2, shift=0.25)]})
        add("LRRAD n=4 r=2 b=%s" % b, lambda r, b=b: {"k": "LRRAD", "U": ops.rnd(r, *b, 4, 2), "d": ops.pos(r, *b, 4), "cdiag": False})
        if not main:
            continue
        add("Dense-low n=4 b=%s" % b, lambda r, b=b: {"k": "Dense", "A": ops.spd(r, b, 4, shift=0.25)})
        add("CDiag n=3 b=%s" % b, lambda r, b=b: {"k": "CDiag", "c": ops.pos(r, *b, 1), "n": 3})
        add("Ident n=3 b=%s" % b, lambda r, b=b: {"k": "Ident", "n": 3, "batch": b})
        add("Chol n=3 b=%s up" % b, lambda r, b=b: {"k": "Chol", "T": ops.tri(r, b, 3, True), "upper": True})
        add("Tri n=3 b=%s" % b, lambda r, b=b: {"k": "Tri", "T": ops.tri(r, b, 3, False), "upper": False})
        add("Kron-low [2, 3] b=%s" % b, lambda r, b=b: {"k": "Kron", "fs": [ops.spd(r, b, 2, shift=0.25), ops.spd(r, b, 3, shift=0.25)]})
        for dkk in ("const", "diag", "kron-const", "kron-diag"):
            def mk(r, b=b, dkk=dkk):
                fsz = [2, 2]
                fs = [ops.spd(r, b, m, shift=(0.25 if dkk in ("const", "kron-diag") else 1.0)) for m in fsz]
                if dkk == "const":
                    dk = {"k": "const", "c": ops.pos(r, *b, 1)}
                elif dkk == "diag":
                    dk = {"k": "diag", "d": ops.pos(r, *b, 4)}
                elif dkk == "kron-const":
                    dk = {"k": "kron", "consts": True, "ds": [ops.pos(r, *b, 1).expand(*b, m).clone() for m in fsz]}
                else:
                    dk = {"k": "kron", "consts": False, "ds": [ops.pos(r, *b, m) for m in fsz]}
                return {"k": "KPAD", "fs": fs, "dk": dk}
            add("KPAD [2, 2] %s b=%s" % (dkk, b), mk)
        add("LRRAD n=3 r=1 b=%s cd" % b, lambda r, b=b: {"k": "LRRAD", "U": ops.rnd(r, *b, 3, 1),
                                                          "d": ops.pos(r, *b, 1).expand(*b, 3).clone(), "cdiag": True})
        add("SumKron b=%s" % b, lambda r, b=b: {"k": "SumKron", "a": [ops.spd(r, b, 2), ops.spd(r, b, 2)],
                                                "b": [ops.spd(r, b, 2), ops.spd(r, b, 2)]})
        # SumBatchLinearOperator: sum over a batch dimension (the last, the middle, the first one)
        for bd in (-3, -4, -5):
            add("SumBatch n=3 b=%s s=4 bd=%d" % (b, bd), lambda r, b=b, bd=bd: {"k": "SumBatch", "A": ops.spd(r, b + [4], 3, shift=0.25), "bd": bd})
        # CatLinearOperator along a batch dimension (parts of different sizes)
        add("Cat n=3 b=[2, 1+2] dim=-3", lambda r: {"k": "Cat", "parts": [ops.spd(r, [2, 1], 3), ops.spd(r, [2, 2], 3)], "dim": -3})
        add("Cat n=3 b=[1+1, 3] dim=-4", lambda r: {"k": "Cat", "parts": [ops.spd(r, [1, 3], 3), ops.spd(r, [1, 3], 3)], "dim": -4})
        # expanded batches (LinearOperator.expand of an operator with a smaller / partly singleton batch shape)
        for xb in ([2, 1], [3], [1, 3]):
            add("Dense n=3 xb=%s->%s" % (xb, b), lambda r, b=b, xb=xb: {"k": "Dense", "A": ops.expand_full(ops.spd(r, xb, 3), b, 2), "xb": xb})
            add("Diag n=3 xb=%s->%s" % (xb, b), lambda r, b=b, xb=xb: {"k": "Diag", "d": ops.expand_full(ops.pos(r, *xb, 3), b, 1), "xb": xb})
        add("CDiag n=3 xb=[1, 3]->%s" % b, lambda r, b=b: {"k": "CDiag", "c": ops.expand_full(ops.pos(r, 1, 3, 1), b, 1), "n": 3, "xb": [1, 3]})
        add("CDiag n=3 xb=[2, 1]->%s" % b, lambda r, b=b: {"k": "CDiag", "c": ops.expand_full(ops.pos(r, 2, 1, 1), b, 1), "n": 3, "xb": [2, 1]})
        add("Ident n=3 xb=[3]->%s" % b, lambda r, b=b: {"k": "Ident", "n": 3, "batch": b, "xb": [3]})
        add("Ident n=3 xb=[2, 1]->%s" % b, lambda r, b=b: {"k": "Ident", "n": 3, "batch": b, "xb": [2, 1]})
        add("Chol n=3 xb=[2, 1]->%s" % b, lambda r, b=b: {"k": "Chol", "T": ops.expand_full(ops.tri(r, [2, 1], 3, False), b, 2), "upper": False, "xb": [2, 1]})
        # Kronecker factors whose batch shapes differ and broadcast
        for fxb in ([[2, 1], [3]], [[1, 3], [2, 3]], [[3], [2, 1]]):
            add("Kron [2, 2] fxb=%s->%s" % (fxb, b), lambda r, b=b, fxb=fxb: {
                "k": "Kron", "fs": [ops.expand_full(ops.spd(r, xb, 2, shift=0.5), b, 2) for xb in fxb], "fxb": fxb})
    # Block wrappers: outer batch of two different sizes
    for il in (False, True):
        for kind in ("Dense", "Diag", "Chol", "Kron", "LRRAD", "Ident"):
            if kind == "Diag" and not il:
                continue            # BlockDiagLinearOperator(DiagLinearOperator) is a DiagLinearOperator (C02)
            add("Block il=%d %s ob=[2, 3] k=2 m=3" % (il, kind),
                lambda r, il=il, kind=kind: {"k": "Block", "il": il, "base": base_of(kind, r, [2, 3, 2], 3)})
        for kind in ("Dense", "Chol"):
            add("Block il=%d %s ob=[3, 1] k=3 m=2" % (il, kind),
                lambda r, il=il, kind=kind: {"k": "Block", "il": il, "base": base_of(kind, r, [3, 1, 3], 2)})
        for bd in (-4, -5):         # block dimension not the last batch dimension: the constructor permutes the batch
            add("Block il=%d Dense ob=[2, 3] k=4 m=2 bd=%d" % (il, bd),
                lambda r, il=il, bd=bd: {"k": "Block", "il": il, "bd": bd, "base": base_of("Dense", r, [2, 3, 4], 2)})
    # BatchRepeat: base batch x repeat patterns mixing repeated and non-repeated dimensions (also left-padded)
    pats = (([2, 1], [1, 3]), ([2, 2], [2, 3]), ([3, 2], [2, 1]), ([2], [3, 1]), ([3], [2, 2]))
    for kind in ("Dense", "Diag", "CDiag", "Chol", "Kron", "Ident", "LRRAD"):
        for (bb, rep) in pats:
            add("Repeat %s bb=%s rep=%s" % (kind, bb, rep),
                lambda r, kind=kind, bb=bb, rep=rep: {"k": "Repeat", "base": base_of(kind, r, bb, 3), "rep": rep})
    for kind in ("Dense", "Diag"):
        add("Repeat %s bb=[2, 3, 1] rep=[1, 2, 4]" % kind,
            lambda r, kind=kind: {"k": "Repeat", "base": base_of(kind, r, [2, 3, 1], 2), "rep": [1, 2, 4]})
    add("Repeat(Block(Dense)) ob=[2, 1] rep=[1, 3]", lambda r: {"k": "Repeat", "rep": [1, 3], "base":
        {"k": "Block", "il": False, "base": base_of("Dense", r, [2, 1, 2], 2)}})
    add("Repeat(BlockI(Chol)) ob=[2, 2] rep=[2, 3]", lambda r: {"k": "Repeat", "rep": [2, 3], "base":
        {"k": "Block", "il": True, "base": base_of("Chol", r, [2, 2, 2], 2)}})
    add("Block(Repeat(Dense)) bb=[2, 1, 2] rep=[1, 3, 1]", lambda r: {"k": "Block", "il": False, "base":
        {"k": "Repeat", "rep": [1, 3, 1], "base": base_of("Dense", r, [2, 1, 2], 2)}})
    add("BlockI(Repeat(Diag)) bb=[2, 1] rep=[3, 2]", lambda r: {"k": "Block", "il": True, "base":
        {"k": "Repeat", "rep": [3, 2], "base": base_of("Diag", r, [2, 1], 3)}})
    return V


GR_PREFIX = "GR "


def variants_grad(quick):
    """small operators (n = 4, 6, 9) for the requires_grad dimension of the stochastic path: the forward value must not depend on
    whether any tensor requires grad / torch.no_grad() is active"""
    V = []
    for n in (4, 6, 9):
        for b in ([], [2]):
            V.append((GR_PREFIX + "Dense n=%d b=%s" % (n, b), lambda r, n=n, b=b: {"k": "Dense", "A": ops.spd(r, b, n, shift=0.25)}))
    # sizes at which a tolerance-terminated CG solve is visibly inexact (beyond linear_cg's 10 mandatory iterations): the
    # stand-alone entry points must take the Cholesky solve there whenever their OWN selector says so
    def spread(r, n, b):       # eigenvalues log-spaced in [0.05, 5] (kappa = 100): CG needs ~n iterations
        Q = torch.linalg.qr(ops.rnd(r, *b, n, n))[0]
        lam = torch.logspace(math.log10(0.05), math.log10(5.0), n, dtype=F64)
        A = Q @ torch.diag_embed(lam.expand(*b, n)) @ Q.mT
        return 0.5 * (A + A.mT)
    for (n, b) in ((16, []), (24, []), (16, [2])):
        V.append((GR_PREFIX + "SA Dense-spread n=%d b=%s" % (n, b), lambda r, n=n, b=b: {"k": "Dense", "A": spread(r, n, b), "ill": True}))
    return V


# the stand-alone entry points under every combination of the three fast_computations flags, above / below max_cholesky_size
SA_TABLE = [("SA crd=%d lp=%d sv=%d %s" % (crd, lp, sv, "mcs0" if above else "mcs-def"),
             dict({"crd": bool(crd), "log_prob": bool(lp), "solves": bool(sv), "nts": 2}, **({"mcs": 0} if above else {})))
            for crd in (1, 0) for lp in (1, 0) for sv in (1, 0) for above in (True, False)]

HET_PREFIX = "HET "
PC_PREFIX = "PC "


def het_member(r, n, kd):
    """members with DIFFERENT Krylov dimensions: generic (n distinct eigenvalues), c I + v v^T (2), c I + V V^T with two
    columns (3), c I (1)"""
    I = torch.eye(n, dtype=F64)
    if kd == "gen":
        return ops.spd(r, [], n, shift=0.25)
    if kd == "lr1":
        v = ops.rnd(r, n, 1)
        return ops.pos(r, 1).item() * I + v @ v.mT
    if kd == "lr2":
        v = ops.rnd(r, n, 2)
        return ops.pos(r, 1).item() * I + v @ v.mT
    if kd == "cI":
        return ops.pos(r, 1).item() * I
    raise ValueError(kd)


def variants_het(quick):
    """the stochastic path on batches whose members exhaust their Krylov spaces at different iterations (the Lanczos
    bookkeeping of linear_cg is shared by all columns of all members)"""
    V = []
    for n in (5, 8):
        for kinds in (["gen", "lr1"], ["lr1", "gen"], ["gen", "lr2", "cI"], ["lr2", "lr1"], ["cI", "gen"]):
            V.append((HET_PREFIX + "Dense n=%d members=%s" % (n, "+".join(kinds)),
                      lambda r, n=n, kinds=kinds: {"k": "Dense", "A": torch.stack([het_member(r, n, kd) for kd in kinds])}))
    V.append((HET_PREFIX + "Dense n=5 b=[2, 2] members=gen+lr1+cI+gen",
              lambda r: {"k": "Dense", "A": torch.stack([het_member(r, 5, kd) for kd in ("gen", "lr1", "cI", "gen")]).reshape(2, 2, 5, 5)}))
    V.append((HET_PREFIX + "Repeat Dense n=5 members=lr1+gen rep=[2]",
              lambda r: {"k": "Repeat", "rep": [2], "base": {"k": "Dense", "A": torch.stack([het_member(r, 5, kd) for kd in ("lr1", "gen")])}}))
    return V


def variants_cache(quick):
    """operators that ARRIVE with pre-filled caches from a derivation (cat_rows with 1, 2, 3 new rows and sizeable cross
    blocks, add_low_rank, add_jitter / add_diagonal after a cached root, a plain cached root): the Cholesky shortcut of
    inv_quad_logdet re-uses a cached triangular root"""
    V = []

    def pd(mk):
        def f(r):
            for _ in range(30):
                sp = mk(r)
                w = torch.linalg.eigvalsh(ops.dense(sp))
                if w.min() > 0.2 and (w.max() / w.min()).max() < 45:
                    return sp
            raise RuntimeError("no PD draw")
        return f
    n = 4
    for b in ([], [2]):
        for warm in (False, True):
            for k in (1, 2, 3):
                V.append((PC_PREFIX + "cat_rows k=%d n=%d b=%s warm=%d" % (k, n, b, warm),
                          pd(lambda r, b=b, k=k, warm=warm: {"k": "Derived", "how": "cat_rows", "warm": warm,
                                                             "A": ops.spd(r, b, n), "B": ops.rnd(r, *b, k, n) * 0.5,
                                                             "D": ops.spd(r, b, k, shift=2.0)})))
            for k in (1, 2):
                V.append((PC_PREFIX + "add_low_rank k=%d n=%d b=%s warm=%d" % (k, n, b, warm),
                          pd(lambda r, b=b, k=k, warm=warm: {"k": "Derived", "how": "add_low_rank", "warm": warm,
                                                             "A": ops.spd(r, b, n, shift=0.5), "V": ops.rnd(r, *b, n, k)})))
        V.append((PC_PREFIX + "add_jitter n=%d b=%s warm=1" % (n, b),
                  pd(lambda r, b=b: {"k": "Derived", "how": "add_jitter", "warm": True, "A": ops.spd(r, b, n, shift=0.25), "j": 0.5})))
        V.append((PC_PREFIX + "add_diagonal n=%d b=%s warm=1" % (n, b),
                  pd(lambda r, b=b: {"k": "Derived", "how": "add_diagonal", "warm": True, "A": ops.spd(r, b, n, shift=0.25),
                                     "d": ops.pos(r, *b, n)})))
        V.append((PC_PREFIX + "cached root n=%d b=%s" % (n, b),
                  pd(lambda r, b=b: {"k": "Derived", "how": "none", "warm": True, "A": ops.spd(r, b, n, shift=0.25)})))
    return V


def chol_dense(T, up):
    return T.mT @ T if up else T @ T.mT


def variants_ori(quick):
    """BOTH Cholesky orientations (A = L L^T, A = R^T R) through every way a batch expansion can happen: explicit
    .expand(), implicit expansion as a factor of a Kronecker product / a summand next to a batched operand, inside Block*
    (also expanded), under BatchRepeat; names start with the MB prefix (same cells: both routes, reduce on / off, broadcast
    rhs, inv_quad entry point) plus a rhs with MORE batch dimensions than the operator through inv_quad"""
    V = []

    def add(name, f):
        V.append((MB_PREFIX + "ORI " + name, f))
    for up in (False, True):
        u = "up" if up else "lo"
        add("Chol n=3 b=[] %s" % u, lambda r, up=up: {"k": "Chol", "T": ops.tri(r, [], 3, up), "upper": up})
        for xb, full in (([], [3]), ([2, 1], [2, 3]), ([3], [2, 3]), ([1, 3], [2, 3])):
            add("Chol n=3 %s xb=%s->%s" % (u, xb, full), lambda r, up=up, xb=xb, full=full: {
                "k": "Chol", "T": ops.expand_full(ops.tri(r, xb, 3, up), full, 2), "upper": up, "xb": xb})
        # factor of a Kronecker product whose other factor is batched (KroneckerProductLinearOperator.__init__ expands)
        for (cb, db, first) in (([], [2], True), ([], [2, 3], False), ([3], [2, 1], True)):
            def mk(r, up=up, cb=cb, db=db, first=first):
                full = list(torch.broadcast_shapes(torch.Size(cb), torch.Size(db)))
                T = ops.expand_full(ops.tri(r, cb, 2, up), full, 2)
                Dn = ops.expand_full(ops.spd(r, db, 2, shift=0.5), full, 2)
                fs, fk, fT, fxb = [chol_dense(T, up), Dn], ["chol-up" if up else "chol-lo", "dense"], [T, None], [cb, db]
                if not first:
                    fs, fk, fT, fxb = fs[::-1], fk[::-1], fT[::-1], fxb[::-1]
                return {"k": "Kron", "fs": fs, "fk": fk, "fT": fT, "fxb": fxb}
            add("Kron chol-%s b=%s x dense b=%s first=%d" % (u, cb, db, first), mk)
        # summand next to a batched dense operator (SumLinearOperator expands)
        for (cb, db) in (([], [2]), ([3], [2, 3])):
            add("Sum chol-%s b=%s + dense b=%s" % (u, cb, db), lambda r, up=up, cb=cb, db=db: {
                "k": "SumCD", "T": ops.tri(r, cb, 3, up), "upper": up, "A": ops.spd(r, db, 3, shift=0.25)})
    # Block* over upper-orientation Chol blocks (direct and expanded), BatchRepeat of them
    for il in (False, True):
        add("Block il=%d CholU ob=[2] k=2 m=2" % il, lambda r, il=il: {"k": "Block", "il": il, "base": base_of("CholU", r, [2, 2], 2)})
        add("Block il=%d CholU xb=[2]->[3, 2] m=2" % il, lambda r, il=il: {"k": "Block", "il": il, "base": {
            "k": "Chol", "T": ops.expand_full(ops.tri(r, [2], 2, True), [3, 2], 2), "upper": True, "xb": [2]}})
    for (bb, rep) in (([2, 1], [1, 3]), ([2], [3, 1]), ([2, 2], [2, 3])):
        add("Repeat CholU bb=%s rep=%s" % (bb, rep), lambda r, bb=bb, rep=rep: {"k": "Repeat", "base": base_of("CholU", r, bb, 3), "rep": rep})
    add("Repeat CholU xb=[1, 2]->[3, 2] rep=[2, 1]", lambda r: {"k": "Repeat", "rep": [2, 1], "base": {
        "k": "Chol", "T": ops.expand_full(ops.tri(r, [1, 2], 3, True), [3, 2], 2), "upper": True, "xb": [1, 2]}})
    return V


def variants(quick):
    """deterministic list of (name, builder(rng) -> spec); the seed only picks values"""
    V = []

    def add(name, f):
        V.append((name, f))
    B0, B2, B21 = [], [2], [2, 1]
    sizes = [1, 2, 3, 5, 8] if quick else [1, 2, 3, 4, 5, 6, 8, 12]
    for n in sizes:
        for b in ([B0, B2] if quick else [B0, B2, [1], B21]):
            add("Dense n=%d b=%s" % (n, b), lambda r, n=n, b=b: {"k": "Dense", "A": ops.spd(r, b, n)})
            # spectrum reaching below 1 (logs of both signs; eigenvalues the clamps / masks could touch)
            add("Dense-low n=%d b=%s" % (n, b), lambda r, n=n, b=b: {"k": "Dense", "A": ops.spd(r, b, n, shift=0.25)})
    # sizes above the default Lanczos budget (max_lanczos_quadrature_iterations = 20): partial quadrature, CG stops by tolerance
    for n in ([16, 24] if quick else [16, 24, 32]):
        for b in ([B0] if quick else [B0, B2]):
            add("Dense-big n=%d b=%s" % (n, b), lambda r, n=n, b=b: {"k": "Dense", "A": ops.spd(r, b, n, shift=0.5)})
            add("Dense-big-low n=%d b=%s" % (n, b), lambda r, n=n, b=b: {"k": "Dense", "A": ops.spd(r, b, n, shift=0.25)})
    # two batch dimensions for the classes whose reductions run over "-1" / "-2" of a batched result
    B12 = [1, 2]
    add("Dense n=3 b=[1, 2]", lambda r: {"k": "Dense", "A": ops.spd(r, B12, 3, shift=0.5)})
    add("Dense n=2 b=[2, 1]", lambda r: {"k": "Dense", "A": ops.spd(r, B21, 2)})
    add("Chol n=3 b=[1, 2]", lambda r: {"k": "Chol", "T": ops.tri(r, B12, 3, False), "upper": False})
    add("Chol n=2 b=[2, 1] up", lambda r: {"k": "Chol", "T": ops.tri(r, B21, 2, True), "upper": True})
    add("Kron [2, 2] b=[1, 2]", lambda r: {"k": "Kron", "fs": [ops.spd(r, B12, 2), ops.spd(r, B12, 2, shift=0.25)]})
    add("LRRAD n=4 r=2 b=[2, 1]", lambda r: {"k": "LRRAD", "U": ops.rnd(r, *B21, 4, 2), "d": ops.pos(r, *B21, 4), "cdiag": False})
    add("KPAD [2, 2] const b=[1, 2]", lambda r: {"k": "KPAD", "fs": [ops.spd(r, B12, 2), ops.spd(r, B12, 2)],
                                                 "dk": {"k": "const", "c": ops.pos(r, *B12, 1)}})
    for n in [1, 3, 4]:
        for b in [B0, B2, B21]:
            add("Diag n=%d b=%s" % (n, b), lambda r, n=n, b=b: {"k": "Diag", "d": ops.pos(r, *b, n)})
            add("CDiag n=%d b=%s" % (n, b), lambda r, n=n, b=b: {"k": "CDiag", "c": ops.pos(r, *b, 1), "n": n})
            add("Ident n=%d b=%s" % (n, b), lambda r, n=n, b=b: {"k": "Ident", "n": n, "batch": b})
    for n in [1, 3, 5]:
        for b in [B0, B2]:
            for up in (False, True):
                add("Chol n=%d b=%s up=%d" % (n, b, up),
                    lambda r, n=n, b=b, up=up: {"k": "Chol", "T": ops.tri(r, b, n, up), "upper": up})
                for neg in (0, 1, 2):
                    if neg > n:
                        continue
                    add("Tri n=%d b=%s up=%d neg=%d" % (n, b, up, neg),
                        lambda r, n=n, b=b, up=up, neg=neg: {"k": "Tri", "T": ops.tri(r, b, n, up, neg), "upper": up})
    for fsz in ([2, 2], [2, 3], [3, 1, 2], [2, 2, 2]):
        for b in [B0, B2]:
            add("Kron %s b=%s" % (fsz, b),
                lambda r, fsz=fsz, b=b: {"k": "Kron", "fs": [ops.spd(r, b, m) for m in fsz]})
            add("Kron-low %s b=%s" % (fsz, b),
                lambda r, fsz=fsz, b=b: {"k": "Kron", "fs": [ops.spd(r, b, m, shift=0.25) for m in fsz]})
            for dkk in ("const", "diag", "kron-const", "kron-diag"):
                if 1 in fsz:
                    continue     # diagonalization() of a 1x1 factor goes through lanczos_tridiag on n=1 (C09's subject)
                def mk(r, fsz=fsz, b=b, dkk=dkk):
                    fs = [ops.spd(r, b, m, shift=(0.25 if dkk in ("const", "kron-diag") else 1.0)) for m in fsz]
                    N = int(math.prod(fsz))
                    if dkk == "const":
                        dk = {"k": "const", "c": ops.pos(r, *b, 1)}
                    elif dkk == "diag":
                        dk = {"k": "diag", "d": ops.pos(r, *b, N)}
                    elif dkk == "kron-const":
                        dk = {"k": "kron", "consts": True,
                              "ds": [ops.pos(r, *b, 1).expand(*b, m).clone() for m in fsz]}
                    else:
                        dk = {"k": "kron", "consts": False, "ds": [ops.pos(r, *b, m) for m in fsz]}
                    return {"k": "KPAD", "fs": fs, "dk": dk}
                add("KPAD %s %s b=%s" % (fsz, dkk, b), mk)
    for (n, rk) in ((4, 2), (5, 1), (3, 3)):
        for b in [B0, B2]:
            for cd in (False, True):
                def mk(r, n=n, rk=rk, b=b, cd=cd):
                    d = ops.pos(r, *b, 1).expand(*b, n).clone() if cd else ops.pos(r, *b, n)
                    return {"k": "LRRAD", "U": ops.rnd(r, *b, n, rk), "d": d, "cdiag": cd}
                add("LRRAD n=%d r=%d b=%s cd=%d" % (n, rk, b, cd), mk)
    for b in [B0, B2]:
        add("SumKron b=%s" % b, lambda r, b=b: {"k": "SumKron", "a": [ops.spd(r, b, 2), ops.spd(r, b, 3)],
                                                "b": [ops.spd(r, b, 2), ops.spd(r, b, 3)]})
    # wrappers
    for il in (False, True):
        for kind in ("Dense", "Diag", "Chol", "Kron", "LRRAD"):
            for (ob, kk, m) in (([], 2, 3), ([2], 3, 2), ([], 1, 3)):
                def mkb(r, il=il, kind=kind, ob=ob, kk=kk, m=m):
                    base = base_of(kind, r, ob + [kk], m)
                    if kind == "Diag" and not il:
                        # BlockDiagLinearOperator(DiagLinearOperator) IS a DiagLinearOperator (constructor rewrite, C02)
                        return {"k": "Diag", "d": base["d"].reshape(*ob, kk * m), "via": "BlockDiag"}
                    return {"k": "Block", "il": il, "base": base}
                add("Block il=%d %s ob=%s k=%d m=%d" % (il, kind, ob, kk, m), mkb)
    for kind in ("Dense", "Diag", "Chol", "Kron", "Ident"):
        for (bb, rep) in (([], [3]), ([2], [2, 1]), ([2], [3]), ([2], [2, 2]), ([1, 2], [2, 1])):
            add("Repeat %s bb=%s rep=%s" % (kind, bb, rep),
                lambda r, kind=kind, bb=bb, rep=rep: {"k": "Repeat", "base": base_of(kind, r, bb, 3), "rep": rep})
    add("Repeat(Block(Dense))", lambda r: {"k": "Repeat", "rep": [2], "base":
                                           {"k": "Block", "il": False, "base": base_of("Dense", r, [2], 2)}})
    add("Block(Repeat(Dense))", lambda r: {"k": "Block", "il": False, "base":
                                           {"k": "Repeat", "rep": [3, 1], "base": base_of("Dense", r, [2], 2)}})
    # classes without an override (base-class path), built by the shared OpExpr builder (integer data)
    for cls in ("Toeplitz", "Root", "Sum", "PsdSum", "ConstantMul", "Mul", "SumBatch", "AddedDiag", "Dense"):
        for b in [B0, B2]:
            for m in ((3, 5) if quick else (2, 3, 5, 6)):
                def mk(r, cls=cls, b=b, m=m):
                    for _ in range(20):
                        e = opbuild.gen(r, cls, batch=b, m=m, psd=True, depth=2)
                        A = opbuild.dense(e, F64)
                        if A.shape[-1] != A.shape[-2] or A.shape[-1] > 12:
                            continue
                        if '"cls": "Chol"' in json.dumps(e) and '"upper": true' in json.dumps(e):
                            continue     # CholLinearOperator(upper=True) does not act as its to_dense() (C01 finding)
                        try:             # constructor restrictions (e.g. AddedDiag over a diagonal base) are not C05's subject
                            opbuild.build(e, F64)
                        except Exception:
                            continue
                        As = 0.5 * (A + A.mT)
                        w = torch.linalg.eigvalsh(As)
                        if (A - A.mT).abs().max() == 0 and w.min() > 0.3 and (w.max() / w.min()).max() < 50:
                            return {"k": "OB", "e": e}
                    return {"k": "Dense", "A": ops.spd(r, b, m)}
                add("OB %s b=%s m=%d" % (cls, b, m), mk)
    return V + variants_mb(quick) + variants_ori(quick) + variants_het(quick) + variants_cache(quick) + variants_grad(quick)


def profiles(n, quick, leaf):
    """settings profiles (name, overrides); deterministic"""
    P = [("default", {}),
         ("mcs0", {"mcs": 0}),
         ("mcs0-logprob-off", {"mcs": 0, "log_prob": False}),
         ("mcs0-solves-off", {"mcs": 0, "solves": False}),
         ("mcs0-nts1", {"mcs": 0, "nts": 1}),
         ("mcs0-nts3-lq-short", {"mcs": 0, "nts": 3, "lq": max(1, n - 2)}),
         ("mcs0-lq=n", {"mcs": 0, "nts": 2, "lq": n}),
         ("mcs0-skip", {"mcs": 0, "skip": True}),
         ("mcs=n", {"mcs": n}),
         ("mcs=n-1", {"mcs": max(0, n - 1)}),
         ("mcs0-cg=n+2", {"mcs": 0, "cg": n + 2, "lq": min(20, n + 2), "nts": 2}),
         ]
    if leaf == "OB:AddedDiag":
        P += [("mcs0-precond", {"mcs": 0, "minps": 1, "mps": 2, "nts": 3}),
              ("mcs0-precond-big", {"mcs": 0, "minps": 1, "mps": 15, "nts": 2}),
              ("mcs0-precond-off", {"mcs": 0, "minps": 1, "mps": 0, "nts": 2})]
    return P


def gen_cases(ctx):
    rng = random.Random(ctx.seed)
    quick = ctx.quick
    defaults = lib_defaults()
    cases = []
    flag_combos = [(rhs, ld, red) for rhs in ("none", "mat", "vec", "bmat") for ld in (True, False) for red in (True, False)]
    vi = 0
    for name, mk in variants(quick):
        spec = mk(rng)
        n = ops.spec_size(spec)
        batch = ops.spec_batch(spec)
        leaf = spec_leaf(spec)
        leafd = ops.describe(leaf)
        leafd = "OB:AddedDiag" if leafd.startswith("OB:AddedDiag") else leafd
        profs = profiles(ops.spec_size(leaf), quick, leafd)
        cells = []
        for pi, (pname, ov) in enumerate(profs):
            for fi, (rhs, ld, red) in enumerate(flag_combos):
                if rhs == "vec" and batch:
                    continue        # a 1-D rhs is only documented for non-batch operators
                if rhs == "none" and not red:
                    continue        # reduce flag is irrelevant without a rhs (one representative)
                if rhs == "bmat" and (max(batch + [1]) == 1 or leaf["k"] == "Ident"):
                    continue        # nothing to broadcast; IdentityLinearOperator's result follows the rhs batch shape
                                    # (outside the documented `*batch N M`, not demanded by C05)
                if rhs == "bmat" and pname not in (("default", "mcs0", "mcs0-logprob-off", "mcs=n")
                                                   if name.startswith(MB_PREFIX) else ("default", "mcs0")):
                    continue        # a broadcast rhs meets the routing only: both routes (+ the two other Cholesky conditions)
                cells.append((pi, pname, ov, fi, rhs, ld, red))
        if quick:
            # two core cells (default / mcs0 with a matrix rhs and logdet) plus a rotating slice of the full
            # (profile x flags) table: every cell of the table is visited several times across the variants
            core = [c for c in cells if c[0] <= 1 and c[4] == "mat" and c[5] and c[6] == (vi % 2 == 0)]
            rot = [cells[(vi * 7 + j * 37) % len(cells)] for j in range(3)]
            if name.startswith(MB_PREFIX):
                # >= 2 batch dimensions: both routes x reduce on / off with a full rhs, a broadcast rhs on both routes
                core = [c for c in cells if c[0] <= 1 and c[4] == "mat" and c[5]]
                core += [c for c in cells if c[0] <= 1 and c[4] == "bmat" and c[5] == ((vi + c[0]) % 2 == 0)
                         and c[6] == ((vi // 2 + c[0]) % 2 == 0)]
                rot = rot[:2]
            if name.startswith(HET_PREFIX):
                # the stochastic path with 10 / 1 / 2 / 3 probes, budgets >= n and one below n
                want = ("mcs0", "mcs0-nts1", "mcs0-lq=n", "mcs0-cg=n+2", "mcs0-nts3-lq-short")
                core = [c for c in cells if c[1] in want and c[5] and c[4] == ("mat" if (vi + c[0]) % 2 else "none")
                        and (c[4] == "none" or c[6] == ((vi + c[0]) % 4 < 2))]
                rot = rot[:2]
            if name.startswith(GR_PREFIX) and "SA " not in name:
                want = ("mcs0", "mcs0-nts1", "mcs0-lq=n", "mcs0-cg=n+2")
                core = [c for c in cells if c[1] in want and c[5] and (c[4] == "none" or (c[4] == "mat" and c[6]))]
                rot = rot[:1]
            if name.startswith(PC_PREFIX):
                # every route (Cholesky by size, by the log_prob flag, at the boundary; CG) with and without rhs
                want = ("default", "mcs0", "mcs0-logprob-off", "mcs=n", "mcs=n-1")
                core = [c for c in cells if c[1] in want and c[4] == "mat" and c[5] and c[6] == ((vi + c[0]) % 2 == 0)]
                core += [c for c in cells if c[1] in ("default", "mcs=n") and c[4] == "none" and c[5]]
                core += [c for c in cells if c[1] == "default" and c[4] == "mat" and not c[5] and c[6] == (vi % 2 == 1)]
                rot = rot[:2]
            if leafd == "OB:AddedDiag":
                rot += [c for c in cells if c[1].startswith("mcs0-precond") and c[4] != "vec" and (c[3] + vi) % 3 == 0]
            chosen = []
            for c in core + rot:
                if c not in chosen:
                    chosen.append(c)
        else:
            chosen = cells
        for (pi, pname, ov, fi, rhs, ld, red) in chosen:
            st = dict(defaults)
            st.update(ov)
            t = rng.choice([1, 2, 3])
            if rhs == "none":
                R = None
            elif rhs == "vec":
                R = ops.rnd(rng, n)
            elif rhs == "bmat":
                # the operator's batch shape with one non-singleton dimension (rotating) set to 1 - and, every other
                # time when there are several, all of them
                big = [i for i, x in enumerate(batch) if x > 1]
                rb = list(batch)
                if len(big) > 1 and (vi + fi + pi) % 3 == 0:
                    rb = [1] * len(batch)
                else:
                    rb[big[(vi + fi + pi) % len(big)]] = 1
                R = ops.rnd(rng, *rb, n, t)
            else:
                R = ops.rnd(rng, *batch, n, t)
            gmodes = ("on", "off", "no_grad") if name.startswith(GR_PREFIX) and pname != "default" and "SA " not in name else \
                (("on", "on", "off", "on", "no_grad")[(vi + pi + fi) % 5],)
            for gi, gm in enumerate(gmodes):
                cases.append({"name": name, "prof": pname, "spec": spec, "st": st, "rhs": rhs, "R": R,
                              "logdet": ld, "reduce": red, "api": "iql", "tseed": rng.getrandbits(31),
                              "warm": (pname == "default" and fi % 5 == 0), "grad": gm,
                              "functional": (vi + fi + gi) % 7 == 0})
        # the other public entry points (Triangular operators are not symmetric: only their override applies)
        apis = ("logdet", "torch.logdet") if leaf["k"] == "Tri" else ("logdet", "torch.logdet", "inv_quad")
        api_cells = [(api, pname, ov, red) for api in apis
                     for pname, ov in (("default", {}), ("mcs0", {"mcs": 0, "nts": 2}))
                     for red in ((True, False) if api == "inv_quad" else (True,))]
        if quick:
            pick = [api_cells[(vi + j * 3) % len(api_cells)] for j in range(2)]
            if name.startswith(PC_PREFIX):      # every entry point on the route that re-uses the cached root
                pick += [c for c in api_cells if c[1] == "default" and c not in pick and (c[0] != "inv_quad" or c[3] == (vi % 2 == 0))]
            api_cells = pick
        if quick and name.startswith(MB_PREFIX) and "inv_quad" in apis and leaf["k"] != "Ident" and max(batch + [1]) > 1:
            # LinearOperator.inv_quad documents broadcasting of the rhs batch: one broadcast call per multi-batch variant
            api_cells.append(("inv_quad-b", "default" if vi % 2 else "mcs0", {} if vi % 2 else {"mcs": 0, "nts": 2}, vi % 4 < 2))
        sa_apis = [a for a in apis for _ in (0, 1)]          # (api, functional form?)
        sa_all = [(api, fnl, nm, ov, red) for (nm, ov) in SA_TABLE for ai, api in enumerate(apis) for fnl in (False, True)
                  for red in ((True, False) if api == "inv_quad" else (True,))]
        sa_pick = [sa_all[(vi * 13 + j * 7) % len(sa_all)] for j in range(1 if quick else 12)]   # rotating slice of the table
        if name.startswith(GR_PREFIX):
            sa_pick = [c for c in sa_all if c[4] and not c[1]]      # the whole flag table on the small operators
            if "SA " in name:
                sa_pick = [c for c in sa_all if c[0] == "inv_quad" and (c[4] or c[1])]
        for (api, fnl, nm, ov, red) in sa_pick:
            st = dict(defaults)
            st.update(ov)
            for gm in (("on", "off", "no_grad") if name.startswith(GR_PREFIX) and "SA " not in name and api != "inv_quad" and ov.get("mcs") == 0
                       else (("on", "off", "no_grad")[(vi + len(cases)) % 3],)):
                cases.append({"name": name, "prof": nm, "spec": spec, "st": st,
                              "rhs": "mat" if api == "inv_quad" else "none",
                              "R": ops.rnd(rng, *batch, n, 2) if api == "inv_quad" else None,
                              "logdet": api != "inv_quad", "reduce": red, "api": api, "tseed": rng.getrandbits(31),
                              "warm": False, "grad": gm, "functional": fnl})
        if name.startswith(MB_PREFIX) and "inv_quad" in apis and leaf["k"] != "Ident" and (not quick or "ORI" in name or vi % 3 == 0):
            api_cells.append(("inv_quad-x", "default" if vi % 2 == 0 else "mcs0", {} if vi % 2 == 0 else {"mcs": 0, "nts": 2}, vi % 4 >= 2))
            if "ORI" in name:      # both reduce settings and both routes for the orientation family
                api_cells.append(("inv_quad-x", "mcs0" if vi % 2 == 0 else "default", {"mcs": 0, "nts": 2} if vi % 2 == 0 else {}, vi % 4 < 2))
                api_cells += [c for c in (("inv_quad", "default", {}, True), ("inv_quad", "default", {}, False)) if c not in api_cells]
        for api, pname, ov, red in api_cells:
            if api == "inv_quad-x":
                st = dict(defaults)
                st.update(ov)
                cases.append({"name": name, "prof": pname, "spec": spec, "st": st, "rhs": "xmat",
                              "R": ops.rnd(rng, 3, *batch, n, 2), "logdet": False, "reduce": red, "api": "inv_quad",
                              "tseed": rng.getrandbits(31), "warm": False})
                continue
            st = dict(defaults)
            st.update(ov)
            bc = api == "inv_quad-b" or (not quick and api == "inv_quad" and max(batch + [1]) > 1 and not red
                                         and leaf["k"] != "Ident")
            api = "inv_quad" if api == "inv_quad-b" else api
            if bc:
                big = [i for i, x in enumerate(batch) if x > 1]
                rb = list(batch)
                rb[big[vi % len(big)]] = 1
                R = ops.rnd(rng, *rb, n, 2)
            else:
                R = ops.rnd(rng, *batch, n, 2) if api == "inv_quad" else None
            cases.append({"name": name, "prof": pname, "spec": spec, "st": st,
                          "rhs": ("bmat" if bc else "mat") if api == "inv_quad" else "none", "R": R,
                          "logdet": api != "inv_quad", "reduce": red, "api": api,
                          "tseed": rng.getrandbits(31), "warm": False})
        vi += 1
    return cases, defaults


# ------------------------------------------------------------------------------------------ Coq case files

def settings_lit(st):
    b = lambda x: "true" if x else "false"
    return "(MkSet %s %s %s %s %s %s %s %s %s %s %s %s %s %s)" % (
        ops.nat(st["mcs"]), b(st["log_prob"]), b(st["solves"]), ops.nat(st["nts"]), ops.nat(st["lq"]), ops.nat(st["cg"]),
        ops.fl(st["cgtol"]), b(st["tbs"]), b(st["skip"]), ops.nat(st["mps"]), ops.nat(st["minps"]),
        ops.fl(1e-10), ops.fl(1e-6), ops.fl(1e-7))


def case_lit(case, obs):
    spec = case["spec"]
    batch = ops.spec_batch(spec)
    pc = obs.get("pc") if "raise" not in obs else None
    if pc is None and "raise" in obs and ops.describe(spec_leaf(spec)).startswith("OB:AddedDiag"):
        pc = None
    stochastic = "raise" not in obs and obs.get("probes") is not None
    if "raise" in obs:
        o = "ObsRaise"
    else:
        iq, ld = obs["iq"], obs["ld"]
        o = "(ObsOk %s %s)" % ("ONone" if isinstance(iq, str) else ops.out_lit(iq),
                               "ONone" if isinstance(ld, str) else ops.out_lit(ld))
    tol_iq, tol_ld = case["tol"]
    api = {"iql": 0, "logdet": 1, "torch.logdet": 1, "inv_quad": 2}[case["api"]]
    return "(MkCase %s %s %s %s %s %s %s %s %s %s)" % (
        ops.nat(api), settings_lit(case["st"]), ops.bop_lit(spec, pc, obs.get("croot")), ops.rhs_lit(full_rhs(case, batch), case["rhs"] == "vec", batch),
        "true" if case["logdet"] else "false", "true" if case["reduce"] else "false",
        ops.probes_lit(obs.get("probes") if stochastic else None), ops.fl(tol_iq), ops.fl(tol_ld), o)


def shard_src(items):
    body = ";\n ".join(items)
    return ("From Coq Require Import PrimFloat.\n"
            "From mathcomp Require Import ssreflect ssrfun ssrbool eqtype ssrnat seq.\n"
            "Require Import C05.ModelBase C05.ModelCG C05.Model C05.Check.\n"
            "Open Scope float_scope.\n"
            "Definition cases : seq case := [::\n %s].\n"
            "Eval vm_compute in (bad_cases cases 0).\n" % body)


def parse_bad(out):
    import re
    m = re.search(r"=\s*\[::(.*?)\]\s*:\s*seq nat", out, re.S)
    if not m:
        return None
    body = m.group(1).strip()
    if not body:
        return []
    return [int(re.sub(r"%\w+", "", x).strip().strip("()")) for x in body.split(";")]


def model_comparable(case, obs):
    """which observed outputs are compared with the model for this case, and with what tolerance"""
    if case["api"] == "inv_quad" and case["spec"]["k"] in ("Block", "Repeat"):
        return None          # LinearOperator.inv_quad through the wrappers' _solve: direct predicate only
    st = case["st"]
    n = ops.spec_size(spec_leaf(case["spec"]))
    if case["rhs"] == "bmat" and is_guard(obs):
        return None          # a refused broadcast rhs: nothing to compare (the model expands the rhs, by meaning)
    if case["rhs"] == "xmat":
        return None          # output batch larger than the operator's: direct predicate only
    if spec_leaf(case["spec"]).get("ill") and not (chol_route(st, n) or not (st["solves"] or (case["api"] == "iql" and case["logdet"]))):
        return None          # kappa = 100 on the CG route: float trajectories of model and implementation need not agree
    if isinstance(obs.get("croot"), str):
        return None          # an UPPER triangular cached root (not modelled; does not occur in the grid)
    if "raise" in obs:
        return (1e-9, 1e-9)
    tol_iq, tol_ld = 1e-9, 1e-9
    leaf = spec_leaf(case["spec"])
    sv_eff = st["solves"] or (case["api"] == "iql" and case["logdet"])
    cg_solve = (not chol_route(st, n)) and sv_eff and (
        leaf["k"] in ops.GENERIC or (leaf["k"] == "KPAD" and leaf["dk"]["k"] == "diag"))
    if cg_solve and case["rhs"] != "none":
        tol_iq = 1e-7
    if leaf["k"] == "Kron" and (not chol_route(st, n)) and st["solves"] and case["rhs"] != "none":
        tol_iq = 1e-5
    if leaf["k"] == "SumKron" and not all_small(leaf, st):
        tol_iq, tol_ld = JITTER_TOL, JITTER_TOL
    if leaf["k"] == "KPAD" and leaf["dk"]["k"] == "kron" and not all_small(leaf, st):
        tol_iq = JITTER_TOL
    if obs.get("probes") is not None:
        tol_ld = 1e-7
    return (tol_iq, tol_ld)


def replay_of(case, obs, extra=None):
    rp = {"case": {k: ops.to_json(v) for k, v in case.items() if k != "tol"},
          "observed": {k: ops.to_json(v) for k, v in obs.items()}}
    if extra:
        rp.update(extra)
    return rp


# ------------------------------------------------------------------------------------------ run

def run_shards(ctx, shards, timeout=900, workers=None):
    """common.run_shards with a bounded number of concurrent shard compilers (quick: 3, thorough: 12 as common.run_shards;
    C05_SHARD_WORKERS overrides)"""
    from concurrent.futures import ThreadPoolExecutor
    workers = workers or int(os.environ.get("C05_SHARD_WORKERS", "3" if ctx.quick else "12"))
    paths = []
    for name, src in shards:
        p = os.path.join(ctx.gen, "cases_%s.v" % name)
        open(p, "w").write(src)
        paths.append((name, p))

    def one(np):
        name, p = np
        return name, common.coqc_file(ctx.prop, p, timeout=timeout)
    res = {}
    with ThreadPoolExecutor(max_workers=workers) as ex:
        for name, r in ex.map(one, paths):
            res[name] = r
    for name, p in paths:
        for fn in [p[:-2] + ext for ext in (".vo", ".vok", ".vos", ".glob")] + [
                os.path.join(os.path.dirname(p), "." + os.path.basename(p)[:-2] + ".aux")]:
            try:
                os.remove(fn)
            except OSError:
                pass
    return res


def run(ctx):
    torch.set_num_threads(1)
    t0 = time.time()
    cases, defaults = gen_cases(ctx)

    def search(info):
        found = 0
        for case in cases:
            obs = run_impl(case, defaults)
            f = predicate(case, obs)
            if f:
                if ctx.violation(replay_of(case, obs, {"kind": "property-failure", "what": f[1]}),
                                 key=failure_key(case, f[0])):
                    found += 1
                    if found >= 3:
                        break
        return found > 0

    ok = common.proof_stage(ctx, search)
    results = []
    direct = 0
    stoch = 0
    for case in cases:
        obs = run_impl(case, defaults)
        f = predicate(case, obs)
        results.append((case, obs, f))
        if "raise" not in obs and obs.get("probes") is not None:
            stoch += 1
        if f and ok:
            direct += 1
            ctx.violation(replay_of(case, obs, {"kind": "property-failure", "what": f[1]}), key=failure_key(case, f[0]))
    t_impl = time.time() - t0
    # correspondence shards
    items = []
    for idx, (case, obs, f) in enumerate(results):
        tol = model_comparable(case, obs)
        if tol is None:
            continue
        case["tol"] = tol
        items.append((idx, case_lit(case, obs)))
    shards = []
    for i in range(0, len(items), SHARD):
        shards.append(("c05_%d" % (i // SHARD), shard_src([x[1] for x in items[i:i + SHARD]])))
    for fn in os.listdir(ctx.gen):          # stale shards of an earlier (larger) run
        if fn.startswith("cases_c05_") and fn.endswith(".v"):
            os.remove(os.path.join(ctx.gen, fn))
    mism = []
    if ok:
        res = run_shards(ctx, shards, timeout=1200)
        for si, (name, _) in enumerate(shards):
            rc, out = res[name]
            bad = parse_bad(out) if rc == 0 else None
            if bad is None:
                ctx.violation({"kind": "shard-failed", "shard": name, "out": out[-800:]}, no_input=True)
                continue
            mism += [items[si * SHARD + b][0] for b in bad]
        for m in mism:
            case, obs, f = results[m]
            if f:
                continue        # already reported (or matched a known finding) by the direct predicate
            ctx.violation(replay_of(case, obs, {"kind": "model-implementation-disagreement",
                                                "correspondence": "coq/C05/Check.v check_case"}), no_input=True)
    keyset = set()
    dist = {}
    for case, obs, f in results:
        leafd = ops.describe(case["spec"])
        dist[leafd.split(" ")[0]] = dist.get(leafd.split(" ")[0], 0) + 1
        if "raise" in obs:
            continue
        keyset.add((case["name"], case["prof"], case["rhs"], case["logdet"], case["reduce"], case["api"], case.get("grad", "on"),
                    bool(case.get("functional"))))
    ctx.coverage.update({
        "trusted_base": common.COQ_TRUSTED + [
            "coq/C05/Model.v, ModelCG.v are hand transcriptions (tied by correspondence only, no translator)",
            "torch primitives modelled by their mathematical meaning: linalg.cholesky, solve_triangular, cholesky_solve, "
            "linalg.eigh (executed by cyclic Jacobi in Check.v), log (atanh series in Check.v), elementwise ops, sums; "
            "structured solves (Kronecker / SumKronecker / KroneckerProductAddedDiag _solve, the Woodbury/QR preconditioner "
            "closure) are modelled as A^-1 r (subject of C04 / C10); the pivoted Cholesky factor of the preconditioner and "
            "the probe vectors are read back from the run (inputs of the model)",
            "IEEE rounding is covered by the comparison tolerance only (1e-9 deterministic paths, 1e-7 CG / quadrature); "
            "theorems are exact-arithmetic over F : rcfType",
            "correspondence harness harness/c05.py, c05_ops.py (builders, literal writer, comparator coq/C05/Check.v) and the "
            "dense float64 oracle (torch.linalg.solve / slogdet / eigh on the matrix assembled from the leaves)"],
        "evaluations": len(results), "coq_cases": len(items), "stochastic_path_cases": stoch,
        "distinct_nontrivial": len(keyset),
        "rule": "one evaluation = one call of inv_quad_logdet / logdet / torch.logdet / inv_quad on a freshly built operator; "
                "non-trivial = returned without raising; distinct by (constructor variant incl. size and batch shape, settings "
                "profile, rhs kind, logdet, reduce, entry point)",
        "mismatches": len(mism), "direct_property_failures": direct,
        "input_distribution": dist,
        "samples": [sample_of(results[len(results) // 3]), sample_of(results[-1])],
        "impl_seconds": round(t_impl, 1),
    })
    ctx.assumptions = ["operators are symmetric positive definite (triangular operators: nonzero diagonal) and well conditioned "
                       "(kappa < 50) so that float64 CG trajectories of model and implementation agree",
                       "inv_quad_rhs has the operator's batch shape (broadcast right-hand sides are covered by C04)",
                       "float64, CPU"]


def sample_of(r):
    case, obs, f = r
    return {"variant": case["name"], "profile": case["prof"], "rhs": case["rhs"], "logdet": case["logdet"],
            "reduce": case["reduce"], "api": case["api"],
            "observed": ("raise " + obs["raise"]) if "raise" in obs else
            {"iq": None if not isinstance(obs["iq"], torch.Tensor) else obs["iq"].reshape(-1)[:3].tolist(),
             "ld": None if not isinstance(obs["ld"], torch.Tensor) else obs["ld"].reshape(-1)[:3].tolist(),
             "stochastic": obs.get("probes") is not None}}


def replay(rp):
    """re-run one recorded case on the implementation (predicate against the dense oracle) and in Coq (the model)"""
    torch.set_num_threads(1)
    if "case" not in rp:
        print("replay file names a broken obligation / shard, not an input:", json.dumps(rp)[:600])
        return 1
    case = {k: ops.from_json(v) for k, v in rp["case"].items()}
    defaults = lib_defaults()
    obs = run_impl(case, defaults)
    f = predicate(case, obs)
    print("case:", case["name"], case["prof"], "rhs=%s logdet=%s reduce=%s api=%s" % (case["rhs"], case["logdet"], case["reduce"], case["api"]))
    print("observed:", {k: (v if not isinstance(v, torch.Tensor) else v.reshape(-1)[:6].tolist()) for k, v in obs.items() if k != "pc"})
    print("property failure:" if f else "property holds on this case", f or "")
    tol = model_comparable(case, obs)
    if tol is not None:
        case["tol"] = tol
        src = shard_src([case_lit(case, obs)]).replace("Eval vm_compute in (bad_cases cases 0).",
                                                       "Eval vm_compute in (map run_case cases, bad_cases cases 0).")
        rc, out = common.build_prop(PROP)
        path = os.path.join(common.COQ, PROP, "gen", "cases_replay_%d.v" % os.getpid())
        os.makedirs(os.path.dirname(path), exist_ok=True)
        open(path, "w").write(src)
        rc, out = common.coqc_file(PROP, path, timeout=600)
        print("model (Coq, PrimFloat):", out.strip()[-1500:])
        for ext in (".v", ".vo", ".vok", ".vos", ".glob"):
            try:
                os.remove(path[:-2] + ext)
            except OSError:
                pass
        try:
            os.remove(os.path.join(os.path.dirname(path), "." + os.path.basename(path)[:-2] + ".aux"))
        except OSError:
            pass
    return 1 if f else 0
