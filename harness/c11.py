"""C11 — MINRES solves all shifted systems; contour quadrature gives the matrix root.

proof    : coq/C11/Property.v (theorems about the Gallina transcription coq/C11/Model.v of minres.py,
           contour_integral_quad.py, _sqrt_inv_matmul.py)
tie      : correspondence — the buffer-level model runs on PrimFloat inside coqc (vm_compute) on the same
           inputs as the real minres (budgets max_iter = 1..K), contour_integral_quad (with the shifts /
           weights the implementation computed) and SqrtInvMatmul.forward
search   : the property predicates evaluated directly on the implementation for every generated system with
           a dense float64 oracle (harness/c11_pred.py)
"""
import json
import os
import random
import re
import time

import torch

from . import common
from . import c11_sys as S
from . import c11_pred as P
from . import c11_grid as G

PROP = "C11"
F64 = torch.float64


def regenerate():
    """Nothing of coq/C11 is generated from the source text (the tie is the correspondence)."""
    os.makedirs(os.path.join(common.COQ, PROP, "gen"), exist_ok=True)
    return {}


# ------------------------------------------------------------------------------------------ literals

def fl(x):
    return common.flit(x)


def seq_lit(items):
    return "[:: " + "; ".join(items) + "]" if items else "[::]"


def nat_seq(xs):
    return seq_lit(["%d" % int(x) for x in xs])


def vec_lit(v):
    return seq_lit([fl(x) for x in v])


def tab_lit(t2):
    """2-D tensor -> list of rows"""
    return seq_lit([vec_lit(r) for r in t2.tolist()])


def cols_lit(t):
    """tensor (B, n, c) -> list of B*c columns (batch-major), each of n floats"""
    B, n, c = t.shape
    return tab_lit(t.permute(0, 2, 1).reshape(B * c, n))


def qcn_lit(t):
    """(Q, C, n) -> Q x C x n"""
    return seq_lit([tab_lit(t[q]) for q in range(t.shape[0])])


def mats_lit(t):
    """(B, n, n) -> list of B matrices (rows)"""
    return seq_lit([tab_lit(t[b]) for b in range(t.shape[0])])


def opt(x, f=str):
    return "None" if x is None else "(Some %s)" % f(x)


ZERO_THR = 1e-10      # the literal of minres.py line 50


def f32(x):
    return float(torch.tensor(x, dtype=torch.float32))


def settings_lit(st, spec):
    thr = f32(ZERO_THR) if spec.get("dtype") == "float32" else ZERO_THR
    return "(@MkSettings float %d %s %s)" % (st["max_cg"], fl(st["tol"]), fl(thr))


def minres_sys_defs(spec, T, name):
    """Definitions of the big tensors of one system (shared by all budgets of the system)."""
    batch = tuple(spec["batch"])
    n, c = spec["n"], len(spec["cols"])
    B = S.prod(batch)
    K = S.cast(T["K"], spec).to(F64).reshape(B, n, n)
    d = ["Definition %s_K : seq (mat float) := %s." % (name, mats_lit(K)),
         "Definition %s_rhs : cols float := %s." % (name, cols_lit(S.full_cols(S.cast(T["rhs"], spec), spec).reshape(B, n, c)))]
    if T["P"] is not None:
        d.append("Definition %s_P : seq (mat float) := %s." % (name, mats_lit(S.cast(T["P"], spec).to(F64).reshape(B, n, n))))
    if T["shifts"] is not None:
        Tc = dict(T)
        Tc["shifts"] = S.cast(T["shifts"], spec)
        shape, Q, st = S.shifts_table(Tc, spec)
        # Q x C table: the shift of flat column b*c + j is st[q, b]
        tab = st.reshape(Q, B, 1).expand(Q, B, c).reshape(Q, B * c)
        d.append("Definition %s_shifts : seq nat * qc float := (%s, %s)." % (name, nat_seq(shape), tab_lit(tab)))
    return d


def minres_case_lit(spec, T, obs, name, level, tol, max_iter):
    n, c = spec["n"], len(spec["cols"])
    batch = tuple(spec["batch"])
    dt32 = spec.get("dtype") == "float32"
    eps = spec.get("eps")
    eps = 1e-25 if eps is None else eps
    if dt32:
        eps = f32(eps)
    mm = "(dense_mm %d %s_K)" % (c, name)
    pk = spec.get("pre", "none")
    if pk == "none":
        pre = "None"
    elif pk in ("alias", "clone"):
        pre = "(Some (fun X : cols float => X))"
    else:
        pre = "(Some (dense_mm %d %s_P))" % (c, name)
    sh = "None" if T["shifts"] is None else "(Some %s_shifts)" % name
    v = spec.get("value")
    if v is not None and dt32:
        v = f32(v)
    args = "(@MkArgs float %s %s %d %s %s_rhs %s %s %s %s)" % (
        mm, pre, n, common.coq_bool(bool(spec.get("rhs_vec"))), name, fl(eps), sh, opt(v, fl),
        opt(max_iter, lambda m: "%d" % m))
    out = obs["out"]
    _, Q, _ = S.shifts_table(T, spec)
    vals = S.to_qcn(out, spec, Q)
    if vals is None:
        vals_l, level = "[::]", 0
    else:
        vals_l = qcn_lit(vals) if level > 0 else "[::]"
    return "CM (MkM %s %s %s %d %d %s %s %s %s)" % (
        settings_lit(obs["settings"], spec), args, nat_seq(batch), c, level, fl(tol), nat_seq(out.shape), vals_l,
        opt(obs["iters"] if level > 0 else None, lambda k: "%d" % k))


HEADER = ("From Coq Require Import PrimFloat.\n"
          "From mathcomp Require Import ssreflect ssrfun ssrbool eqtype ssrnat seq.\n"
          "Require Import C11.Model C11.Check.\n")


def shard_src(defs, cases):
    return (HEADER + "\n".join(defs) + "\nDefinition cases : seq case := " + seq_lit(["\n " + c for c in cases])
            + ".\nEval vm_compute in (bad_cases cases 0).\n")


def parse_seq_nat(out):
    m = re.search(r"=\s*\[::\s*(.*?)\]\s*:\s*seq nat", out, re.S)
    if not m:
        return None
    body = m.group(1).strip()
    if not body:
        return []
    return [int(x.strip()) for x in body.split(";")]


REASON = {1: "output shape", 2: "number of loop bodies (matmul_closure calls)", 3: "solution values",
          4: "buffer model vs buffer-free model (internal)", 5: "no_shift_solves values", 6: "sqrt_inv_matmul_res values",
          7: "inv_quad_res values"}


# ------------------------------------------------------------------------------------------ minres: run + predicates

def fail_class(kind):
    return {"shape": "shape", "generic-shape": "shape", "zero-col": "zero-col", "raises": "raises"}.get(kind, "values")


def minres_key(spec, kind, extra=None):
    k = minres_key0(spec, kind)
    k.update(extra or {})
    return k


def minres_key0(spec, kind):
    return {"check": "minres", "fail": fail_class(kind), "detail": kind, "illcond": float(spec["kappa"]) >= 1e3,
            "mm": spec.get("mm", "callable"),
            "pre": spec.get("pre", "none"), "shifts": spec["shifts"]["kind"], "batch": len(spec["batch"]),
            "vec": bool(spec.get("rhs_vec")), "value": spec.get("value") is not None,
            "dtype": spec.get("dtype", "float64"), "fam": spec["fam"], "order": spec["shifts"].get("order")}


def minres_direct(spec, T, obs, mi):
    """the property predicates on one observed call.  Returns a list of (kind, description)."""
    fails = []
    if obs["err"] is not None:
        return [("raises", "minres raised " + obs["err"])]
    out = obs["out"]
    exp = P.expected_shape(spec, T)
    if list(out.shape) != exp:
        return [("shape", "output shape %s, expected %s" % (list(out.shape), exp))]
    _, Q, _ = S.shifts_table(T, spec)
    x = S.to_qcn(out, spec, Q)
    zc = P.zero_cols(spec)
    if zc and bool((x[:, zc, :] != 0).any()):
        fails.append(("zero-col", "a column with ||b|| < 1e-10 did not give exactly 0"))
    live = [j for j in range(x.shape[1]) if j not in zc]
    if not live:
        return fails
    st = obs["settings"]
    its = obs["iters"] if obs["iters"] is not None else G.n_iters(spec, mi, st["max_cg"])
    otol = G.oracle_tol(spec, its) if (spec.get("eps") or 0) < 1e-20 else None
    if otol is not None:
        xo = P.iterate_oracle(T, spec, its)
        e = float(P.rel_err_cols(x[:, live], xo[:, live]).max())
        if not e <= otol:
            fails.append(("iterate", "iterate after %d loop bodies differs from the minimal-residual iterate over the Krylov space by %.3g (rel.)" % (its, e)))
    cap = G.n_iters(spec, mi, st["max_cg"])
    exit_kind = "cap" if its >= cap else "test"
    bound = G.residual_bound(spec, mi, st, exit_kind)
    if bound is not None:
        rq = S.residuals(T, spec, x)[:, live].amax(-1)         # one value per shift index: EVERY shift must be solved
        r = float(rq.max())
        if not r <= bound:
            how = ("the iteration cap n+3" if exit_kind == "cap" else "the convergence test") + " after %d bodies" % its
            if obs["iters"] is None:
                how = "an unobserved number of bodies (tensor closure), at most %d" % cap
                exit_kind = "unobserved"
            fails.append(("residual", "relative residual %.3g of the shifted system with shift index %d of %d exceeds %.3g "
                                      "(minres_tolerance %.1g; the loop ended by %s)"
                          % (r, int(rq.argmax()), int(rq.numel()), bound, st["tol"], how),
                          {"exit": exit_kind}))
    return fails


def minres_scaling(spec, T, obs):
    """minres(4 b) == 4 minres(b) bit for bit (power of two: every operation scales exactly); minres(3 b) ~ 3 minres(b)"""
    if obs["err"] is not None or spec.get("mm") == "alias" or spec.get("pre") == "alias":
        return []
    o4 = S.run_minres(spec, T, max_iter=None, rhs_scale=4.0)
    if o4["err"] is not None or o4["out"].shape != obs["out"].shape:
        return [("scaling", "minres(4 b) raised or changed shape")]
    a, b = o4["out"], obs["out"] * 4.0
    same = bool(((a == b) | (a.isnan() & b.isnan())).all())
    if not same:
        sc = float(b.abs().max())
        d = float((a - b).abs().max())
        if not d <= 1e-9 * sc:
            return [("scaling", "minres(4 b) differs from 4 minres(b) by %.3g (scale %.3g)" % (d, sc))]
    return []


def run_minres_systems(ctx, systems):
    cases, fails = [], []
    cnt = {"impl_calls": 0, "pred_evals": 0, "systems": 0, "level1": 0}
    defs = []
    for si, (spec, budgets) in enumerate(systems):
        T = S.build(spec)
        name = "m%d" % si
        sdefs = minres_sys_defs(spec, T, name)
        cnt["systems"] += 1
        triaged = False
        for mi in budgets:
            obs = S.run_minres(spec, T, max_iter=mi)
            cnt["impl_calls"] += 1
            fl_ = minres_direct(spec, T, obs, mi)
            if mi is None:
                fl_ += minres_scaling(spec, T, obs)
                cnt["impl_calls"] += 1
            cnt["pred_evals"] += 1
            for f in fl_:
                fails.append({"spec": spec, "max_iter": mi, "kind": f[0], "what": f[1], "extra": f[2] if len(f) > 2 else None})
            if obs["err"] is not None:
                continue
            level, tol = G.policy(spec, mi, obs["settings"]["max_cg"])
            if level:
                cnt["level1"] += 1
            cases.append({"sys": si, "name": name, "spec": spec, "mi": mi, "level": level, "tol": tol,
                          "lit": minres_case_lit(spec, T, obs, name, level, tol, mi), "defs": sdefs,
                          "direct_failed": bool(fl_), "kind": "minres"})
    return cases, fails, cnt


def report_fails(ctx, fails, limit_per_key=1):
    seen = {}
    for f in fails:
        if f.get("check") == "ciq":
            key = f["key"]
        else:
            key = minres_key(f["spec"], f["kind"], f.get("extra"))
        # one report per structural signature AND predicate: a known finding on one predicate must not use up the slot of
        # a different failing predicate of the same cell
        sig = json.dumps({k: key[k] for k in key if k not in ("fam",)}, sort_keys=True)
        seen[sig] = seen.get(sig, 0) + 1
        if seen[sig] > limit_per_key:
            continue
        rp = {"kind": "property-failure", "what": f["what"], "case": {k: v for k, v in f.items() if k not in ("what",)}}
        ctx.violation(rp, key=key)


def make_shards(cases, per=60):
    """group cases by system so that the big tensors are defined once per shard"""
    shards, cur, cur_defs, seen = [], [], [], set()
    for c in cases:
        if len(cur) >= per and c["name"] not in seen:
            shards.append((cur_defs, cur))
            cur, cur_defs, seen = [], [], set()
        if c["name"] not in seen:
            seen.add(c["name"])
            cur_defs += c["defs"]
        cur.append(c)
    if cur:
        shards.append((cur_defs, cur))
    return shards


def structural_sig(c):
    s = c["spec"]
    if c["kind"] != "minres":
        return json.dumps(c.get("sig"), sort_keys=True)
    return json.dumps([s["shifts"], s["batch"], s["cols"], bool(s.get("rhs_vec")), s.get("value"), s.get("pre"), s.get("mm"),
                       s["fam"], s["n"], s.get("dtype"), s.get("eps"), s.get("set_tol"), s.get("set_max_cg"), c["mi"], c["level"]],
                      sort_keys=True)


def run(ctx):
    torch.set_num_threads(1)
    regenerate()
    t0 = time.time()
    systems = G.minres_systems(ctx.quick, ctx.seed)

    def on_fail(info):
        # a proof obligation of coq/C11 no longer compiles: search the implementation with the direct predicates
        sysw = G.minres_systems(False, ctx.seed)
        _, fails, _ = run_minres_systems(ctx, sysw)
        qc, qf, _ = run_ciq_cases(ctx, False)
        fails += qf
        n0 = ctx.violations
        report_fails(ctx, fails)
        return ctx.violations > n0
    ok = common.proof_stage(ctx, on_fail)
    cases, fails, cnt = run_minres_systems(ctx, systems)
    qcases, qfails, qcnt = run_ciq_cases(ctx, ctx.quick)
    cases += qcases
    fails += qfails
    t1 = time.time()
    report_fails(ctx, fails)
    mism = []
    if ok:
        groups = make_shards(cases)
        shards = [("c11_%d" % k, shard_src(d, [c["lit"] for c in cs])) for k, (d, cs) in enumerate(groups)]
        res = run_shards_limited(ctx, shards)
        for k, (d, cs) in enumerate(groups):
            rc, out = res["c11_%d" % k]
            bad = parse_seq_nat(out) if rc == 0 else None
            if bad is None:
                ctx.violation({"kind": "shard-failed", "shard": "c11_%d" % k, "out": out[-600:]}, no_input=True)
                continue
            for b in bad:
                mism.append((cs[b // 16], b % 16))
        nrep = 0
        for c, code in mism:
            if c["direct_failed"]:
                continue        # already triaged: the property fails on the implementation for this very call
            nrep += 1
            if nrep <= 5:
                ctx.violation({"kind": "model-implementation-disagreement", "reason": REASON.get(code, code),
                               "case": {"spec": c["spec"], "max_iter": c.get("mi")},
                               "note": "every property predicate holds on the implementation for this call (dense oracle); "
                                       "the transcription coq/C11/Model.v no longer describes the code"}, no_input=True)
    t2 = time.time()
    sigs = {structural_sig(c) for c in cases if c["level"] >= 1 and c["spec"].get("n", 2) >= 2}
    samples = [{"spec": c["spec"], "max_iter": c.get("mi"), "level": c["level"]} for c in (cases[len(cases) // 3], cases[-1])] if cases else []
    ctx.coverage.update({
        "trusted_base": common.COQ_TRUSTED + [
            "hand transcription coq/C11/Model.v of minres.py / contour_integral_quad.py / _sqrt_inv_matmul.py (tied to /repo only by the correspondence, not by a translator)",
            "torch primitives modelled by their mathematical meaning (elementwise ops, sum, norm, mean, matmul with sequential summation, broadcasting/expand/view/cat/split as index maps); IEEE rounding not modelled in the theorems (exact real-closed-field arithmetic), only in the PrimFloat execution",
            "scipy.special.ellipk/ellipj, torch.linalg.eigvalsh and the 20-step Lanczos estimate inside contour_integral_quad: NOT modelled - the shifts/weights the implementation computed are inputs of the model",
            "correspondence harness harness/c11*.py (builders, broadcasting of rhs/shifts to flat columns, comparators coq/C11/Check.v, tolerances)",
            "dense oracle in triage: torch.linalg solve/eigh/cholesky/lstsq on dense float64 tensors"],
        "evaluations": len(cases), "distinct_nontrivial": len(sigs),
        "rule": "one evaluation = one call of the implementation (minres at one budget / contour_integral_quad / SqrtInvMatmul / sampling) "
                "replayed by the Gallina model under vm_compute; distinct_nontrivial counts distinct structural signatures "
                "(shift layout, batch, rhs columns, value, preconditioner, closure kind, family, size, dtype, settings, budget) among the "
                "cases whose values are compared (level 1) and n >= 2",
        "samples": samples, "mismatches": len(mism), "direct_property_failures": len(fails),
        "minres": cnt, "ciq": qcnt, "impl_s": round(t1 - t0, 1), "coq_s": round(t2 - t1, 1),
    })
    ctx.assumptions = [
        "closures (matmul_closure, preconditioner) are pure functions returning fresh tensors, linear where a theorem says so; "
        "closures that return their argument are exercised by the correspondence only (known findings)",
        "Paige-Saunders is proved in exact arithmetic only as far as: orthonormal Lanczos vectors, residual norm = scale term, minimal "
        "residual over the Krylov space (symmetric matrix, no preconditioner, no Lanczos breakdown during the first k bodies, hence k < n) "
        "and the exact-breakdown step; that this minimal residual is SMALL (convergence of the iterates to the shifted solutions) and the "
        "accuracy of the elliptic quadrature are NOT proved (DESIGN section 6): exact solves and the scalar rule enter the CIQ theorems as "
        "explicit hypotheses and are checked numerically on the implementation (support only)",
        "float64 trajectories are compared with the model only within the policy of DESIGN 2.4 (<= 6 loop bodies on every family, "
        "<= 8 for kappa <= 1e2, whole runs for kappa <= 10 or <= 4 distinct eigenvalues)"]


def run_shards_limited(ctx, shards, workers=3, timeout=900):
    """like common.run_shards but with at most `workers` coqc processes (shared machine)"""
    from concurrent.futures import ThreadPoolExecutor
    paths = []
    for name, src in shards:
        p = os.path.join(ctx.gen, "cases_%s.v" % name)
        with open(p, "w") as f:
            f.write(src)
        paths.append((name, p))

    def one(np_):
        name, p = np_
        return name, common.coqc_file(ctx.prop, p, timeout=timeout)
    res = {}
    with ThreadPoolExecutor(max_workers=workers) as ex:
        for name, r in ex.map(one, paths):
            res[name] = r
    for name, p in paths:
        for ext in (".vo", ".vok", ".vos", ".glob"):
            try:
                os.remove(p[:-2] + ext)
            except OSError:
                pass
        try:
            os.remove(os.path.join(os.path.dirname(p), "." + os.path.basename(p)[:-2] + ".aux"))
        except OSError:
            pass
    return res


# ------------------------------------------------------------------------------------------ contour integral quadrature

def op_adds_batch(spec):
    """the operator's batch shape enlarges the broadcast batch shape of the data (rhs / lhs)"""
    if spec.get("data_batch") is None:
        return False
    lb = tuple(spec["lhs_batch"]) if spec.get("lhs_batch") is not None else tuple(spec["data_batch"])
    db = torch.broadcast_shapes(tuple(spec["data_batch"]), lb)
    ob = tuple(spec["batch"])
    return tuple(torch.broadcast_shapes(ob, db)) != tuple(db) or tuple(torch.broadcast_shapes(ob, lb)) != lb


def ciq_key(spec, kind):
    return {"check": "ciq", "call": spec["call"], "op": spec["op"], "fail": fail_class(kind), "detail": kind,
            "illcond": float(spec["kappa"]) >= 1e3, "batch": len(spec["batch"]), "lhs": bool(spec.get("lhs")),
            "inverse": bool(spec.get("inverse")), "vec": bool(spec.get("rhs_vec")), "fam": spec["fam"],
            "rel": spec.get("rel"), "op_adds_batch": op_adds_batch(spec), "precond": bool(spec.get("precond")),
            "rhs0": spec.get("rhs0"), "ns": (None if spec.get("ns") is None else
                                             ("lt" if spec["ns"] < spec["n"] else ("eq" if spec["ns"] == spec["n"] else "gt")))}


def to_cols(x, B, n, t):
    """(*batch, n, t) -> (B, n, t) float64"""
    return x.to(F64).reshape(B, n, t)


def ciq_settings_lit(st):
    return "(@MkSettings float %d %s %s)" % (st["max_cg"], fl(st["tol"]), fl(ZERO_THR))


class ShapeFail(Exception):
    pass


def run_ciq_one(spec):
    """run the implementation for one spec; returns (fails, case literal + defs or None, tol setting)"""
    from linear_operator import settings
    from linear_operator.utils.contour_integral_quad import contour_integral_quad
    op, K, rhs, lhs = S.build_op(spec)
    n, t = spec["n"], spec["t"]
    batch = tuple(torch.broadcast_shapes(K.shape[:-2], rhs.shape[:-2], *([lhs.shape[:-2]] if lhs is not None else [])))
    B = S.prod(batch)
    Kb = K.expand(*batch, n, n)
    name = "q%d" % spec["cell"]
    fails, lit, defs = [], None, []
    with S.settings_ctx(spec):
        st = S.read_settings()
        tol = st["tol"]
        try:
            if spec["call"] == "direct":
                out = contour_integral_quad(op, rhs, inverse=spec["inverse"])
                fails = P.ciq_direct_pred(spec, K, rhs, out, tol, st["nq"])
                if spec["model"] and not any(k == "shape" for k, _ in fails):
                    solves, weights, no_shift, shifts = out
                    Nq = solves.shape[0]
                    defs = ["Definition %s_K : seq (mat float) := %s." % (name, mats_lit(Kb.reshape(B, n, n)))]
                    lit = "CQ (MkQ %s %s_K %d %d %d %s %s %s %s %s %s %s None)" % (
                        ciq_settings_lit(st), name, n, t, B, cols_lit(to_cols(rhs.expand(*batch, n, t), B, n, t)),
                        common.coq_bool(spec["inverse"]), tab_lit(shifts.to(F64).reshape(Nq + 1, B)), fl(1e-25), fl(1e-9),
                        qcn_lit(solves.to(F64).reshape(Nq, B, n, t).permute(0, 1, 3, 2).reshape(Nq, B * t, n)),
                        cols_lit(to_cols(no_shift, B, n, t)))
            elif spec["call"] == "sim":
                vec = bool(spec.get("rhs_vec"))
                rarg = rhs.reshape(n) if vec else rhs           # 1-D rhs (built without batch dimensions, t = 1)
                with S.CiqRecorder() as rec:
                    out = op.sqrt_inv_matmul(rarg, lhs) if lhs is not None else op.sqrt_inv_matmul(rarg)
                ncalls = len(rec.calls)
                if vec:
                    # a 1-D rhs gives a result without the column dimension: (*batch, n) / (*batch, o)
                    r0 = out[0] if lhs is not None else out
                    exp = list(batch) + [lhs.shape[-2] if lhs is not None else n]
                    if list(r0.shape) != exp:
                        raise ShapeFail("sqrt_inv_matmul with a 1-D rhs returned shape %s, expected %s" % (list(r0.shape), exp))
                    out = (r0.unsqueeze(-1), out[1]) if lhs is not None else r0.unsqueeze(-1)
                twice = None
                if lhs is None:
                    twice = op.sqrt_inv_matmul(out)
                fails = P.sim_pred(spec, K, rhs, lhs, out, twice, tol, st["nq"])
                if spec.get("generic"):
                    # the class-specific override against the generic base-class path (contour quadrature) on a Dense
                    # copy of the same matrix, called with the very same arguments
                    from linear_operator.operators import DenseLinearOperator
                    gen = None
                    try:
                        dop = DenseLinearOperator(K.clone())
                        gen = dop.sqrt_inv_matmul(rarg, lhs) if lhs is not None else dop.sqrt_inv_matmul(rarg)
                        if vec:
                            gen = (gen[0].unsqueeze(-1), gen[1]) if lhs is not None else gen.unsqueeze(-1)
                    except Exception:       # the generic path does not support this layout: nothing to compare with
                        gen = None
                    if gen is not None:
                        fails += P.generic_pred(out, gen, lhs is not None, tol, spec, st["nq"])
                if spec["model"] and ncalls == 1 and not any(k == "shape" for k, _ in fails):
                    c = rec.calls[0]
                    Nq = c["weights"].shape[0]
                    o = lhs.shape[-2] if lhs is not None else 0
                    res = out[0] if lhs is not None else out
                    iq = out[1].to(F64).reshape(B, o) if lhs is not None else torch.zeros(B, 1, dtype=F64)
                    rows = (o if lhs is not None else n)
                    defs = ["Definition %s_K : seq (mat float) := %s." % (name, mats_lit(Kb.reshape(B, n, n)))]
                    lhs_l = "None"
                    if lhs is not None:
                        lb = lhs.expand(*batch, o, n).to(F64).reshape(B, o, n)
                        lhs_l = "(Some (%d, %s))" % (o, seq_lit([tab_lit(lb[b]) for b in range(B)]))
                    lit = "CF (MkF %s %s_K %d %d %d %s %s %s %s %s %s %s %s)" % (
                        ciq_settings_lit(st), name, n, t, B, cols_lit(to_cols(rhs.expand(*batch, n, t), B, n, t)), lhs_l,
                        tab_lit(c["shifts"].to(F64).reshape(Nq + 1, B)), tab_lit(c["weights"].to(F64).reshape(Nq, B)),
                        fl(1e-25), fl(1e-9), cols_lit(res.to(F64).reshape(B, rows, t)), tab_lit(iq))
            else:
                ns = int(spec.get("ns", n))
                if spec.get("base") == "orth":
                    # generic base samples: random orthonormal rows (ns >= n) / columns (ns < n), the same for every batch member
                    gb = torch.Generator().manual_seed(int(spec["vseed"]) + 17)
                    q = S.rand_orth(max(n, ns), gb)
                    base = (q[:n, :ns] if ns >= n else q[:n, :ns]).expand(*batch, n, ns).clone()
                else:
                    assert ns == n
                    base = torch.eye(n, dtype=F64).expand(*batch, n, ns).clone()
                with settings.ciq_samples(True), S.CiqRecorder() as rec, S.RandnPatch(base):
                    samples = op.zero_mean_mvn_samples(ns)
                fails = P.sample_pred(spec, Kb, samples, tol, st["nq"], base=base)
                if spec["model"] and ns == n and spec.get("base") != "orth" and len(rec.calls) == 1 and not fails:
                    c = rec.calls[0]
                    Nq = c["weights"].shape[0]
                    Bp = ns * B
                    Kp = Kb.reshape(1, B, n, n).expand(ns, B, n, n).reshape(Bp, n, n)
                    defs = ["Definition %s_K : seq (mat float) := %s." % (name, mats_lit(Kp))]
                    lit = "CS (MkS %s %s_K %d %d %s %s %s %s %s %s)" % (
                        ciq_settings_lit(st), name, n, Bp, cols_lit(c["rhs"].to(F64).reshape(Bp, n, 1)),
                        tab_lit(c["shifts"].to(F64).reshape(Nq + 1, Bp)), tab_lit(c["weights"].to(F64).reshape(Nq, Bp)),
                        fl(1e-25), fl(1e-9), cols_lit(samples.to(F64).reshape(Bp, n, 1)))
        except ShapeFail as ex:
            fails = [("shape", str(ex))]
            lit = None
        except Exception as ex:  # noqa
            import traceback
            fails = [("raises", "%s raised %s: %s" % (spec["call"], type(ex).__name__, str(ex)[:160]))]
            lit = None
    return fails, lit, defs


def run_ciq_cases(ctx, quick):
    specs = G.ciq_specs(quick, ctx.seed)
    cases, fails = [], []
    cnt = {"specs": len(specs), "model_cases": 0, "pred_evals": 0, "by_call": {}}
    for spec in specs:
        fl_, lit, defs = run_ciq_one(spec)
        cnt["pred_evals"] += 1
        cnt["by_call"][spec["call"]] = cnt["by_call"].get(spec["call"], 0) + 1
        for kind, what in fl_:
            fails.append({"check": "ciq", "spec": spec, "kind": kind, "what": what, "key": ciq_key(spec, kind)})
        if lit is not None:
            cnt["model_cases"] += 1
            cases.append({"name": "q%d" % spec["cell"], "spec": spec, "level": 1, "tol": 1e-9, "lit": lit, "defs": defs,
                          "direct_failed": bool(fl_), "kind": "ciq",
                          "sig": [spec["op"], spec["call"], spec["batch"], spec["t"], spec.get("lhs"), spec.get("inverse"),
                                  spec["n"], spec["fam"], spec.get("set_nq"), spec.get("set_tol"), spec.get("rhs_batch"),
                                  bool(spec.get("rhs_vec")), spec.get("data_batch"), spec.get("lhs_batch"), spec.get("rhs0"),
                                  spec.get("precond"), spec.get("ns")]})
    return cases, fails, cnt


def replay(rp):
    torch.set_num_threads(1)
    c = rp.get("case") or (rp.get("replay") or {}).get("case") or {}
    spec = c.get("spec")
    if spec and c.get("check") == "ciq":
        fl_, _, _ = run_ciq_one(spec)
        print("spec:", json.dumps(spec))
        for kind, what in fl_:
            print("property failure [%s]: %s" % (kind, what))
        if not fl_:
            print("every property predicate holds on this call")
        return 1 if fl_ else 0
    if not spec:
        print(json.dumps(rp, indent=1)[:2000])
        return 1
    T = S.build(spec)
    mi = c.get("max_iter")
    obs = S.run_minres(spec, T, max_iter=mi)
    fl_ = minres_direct(spec, T, obs, mi)
    print("spec:", json.dumps(spec))
    print("max_iter:", mi, "loop bodies:", obs["iters"], "error:", obs["err"])
    for f in fl_:
        print("property failure [%s]: %s" % (f[0], f[1]))
    if not fl_:
        print("every property predicate holds on this call")
    return 1 if fl_ else 0
