"""C03 — index language: kinds, generators, covering arrays, JSON <-> python index conversion.

An index tuple is stored JSON-ably as a list of items
  {"k":"int","v":i} | {"k":"slice","a":x,"b":y,"s":z} (None allowed) | {"k":"ell"} |
  {"k":"t","shape":[..],"data":[..]}  (LongTensor, shape [] = 0-d) | {"k":"list","data":[..]}
plus a flag "bare" (the single item is passed without a tuple).

KINDS are *structural*: the label of an item is recomputed from its value and the size of the dimension it
lands on by `classify`, so known-finding keys never depend on the seed.
"""
import itertools

import torch

KINDS = ["int_pos", "int_m1", "int_neg", "full", "ab", "b", "a", "neg", "step", "long", "stopn",
         "ell", "t0", "t1", "list", "t2"]
INT_KINDS = ("int_pos", "int_m1", "int_neg", "t0")
SLICE_KINDS = ("full", "ab", "b", "a", "neg", "step", "long", "stopn")
TENSOR_KINDS = ("t1", "list", "t2")


# ------------------------------------------------------------------------------------------ items

def I(v):
    return {"k": "int", "v": int(v)}


def S(a=None, b=None, s=None):
    return {"k": "slice", "a": a, "b": b, "s": s}


ELL = {"k": "ell"}


def TT(shape, data):
    return {"k": "t", "shape": list(shape), "data": [int(x) for x in data]}


def L(data):
    return {"k": "list", "data": [int(x) for x in data]}


def to_py(items, bare=False):
    out = []
    for it in items:
        k = it["k"]
        if k == "int":
            out.append(it["v"])
        elif k == "slice":
            out.append(slice(it["a"], it["b"], it["s"]))
        elif k == "ell":
            out.append(Ellipsis)
        elif k == "t":
            out.append(torch.tensor(it["data"], dtype=torch.long).reshape(it["shape"]))
        elif k == "list":
            out.append(list(it["data"]))
        else:
            raise ValueError(k)
    if bare and len(out) == 1:
        return out[0]
    return tuple(out)


def show(items, bare=False):
    def one(it):
        k = it["k"]
        if k == "int":
            return str(it["v"])
        if k == "slice":
            f = lambda x: "" if x is None else str(x)
            return f(it["a"]) + ":" + f(it["b"]) + ("" if it["s"] is None else ":" + str(it["s"]))
        if k == "ell":
            return "..."
        if k == "t":
            return "T%s%s" % (tuple(it["shape"]), it["data"])
        return "L%s" % it["data"]
    return ("" if not bare else "bare ") + "[" + ", ".join(one(i) for i in items) + "]"


def classify(it, n):
    """structural kind of an item that lands on a dimension of size n"""
    k = it["k"]
    if k == "ell":
        return "ell"
    if k == "list":
        return "list"
    if k == "t":
        r = len(it["shape"])
        return "t0" if r == 0 else ("t1" if r == 1 else "t2")
    if k == "int":
        v = it["v"]
        return "int_pos" if v >= 0 else ("int_m1" if v == -1 else "int_neg")
    a, b, s = it["a"], it["b"], it["s"]
    if s is not None and s != 1:
        return "step"
    if a is None and b is None:
        return "full"
    if (a is not None and (a < -n or a > n)) or (b is not None and (b < -n or b > n)):
        return "long"
    if (a is not None and a < 0) or (b is not None and b < 0):
        return "neg"
    if b is not None and b == n:
        return "stopn"
    if a is None:
        return "b"
    if b is None:
        return "a"
    return "ab"


def align(items, ndim):
    """dimension (0..ndim-1) each non-ellipsis item lands on (None for the ellipsis)"""
    n_real = sum(1 for it in items if it["k"] != "ell")
    dims, d = [], 0
    for it in items:
        if it["k"] == "ell":
            dims.append(None)
            d += ndim - n_real
        else:
            dims.append(d)
            d += 1
    return dims


def pattern(items, shape):
    """structural description: per item (kind, role) with role in {b,r,c} (batch / row / col)"""
    nd = len(shape)
    out = []
    for it, d in zip(items, align(items, nd)):
        if d is None:
            out.append("ell")
            continue
        role = "c" if d == nd - 1 else ("r" if d == nd - 2 else "b")
        out.append("%s@%s" % (classify(it, shape[d]), role))
    return out


# ------------------------------------------------------------------------------------------ value generation

def gen_slice(rng, kind, n):
    """a slice of the given kind selecting >= 1 element of a dimension of size n (falls back towards
    simpler kinds when n is too small; the caller re-classifies)"""
    if kind == "full":
        return S()
    if kind == "ab":
        a = rng.randrange(n)
        hi = n - 1 if a + 1 <= n - 1 else n
        return S(a, rng.randint(a + 1, hi))
    if kind == "unit":
        a = rng.randrange(n)
        return S(a, a + 1)
    if kind == "b":
        return S(None, rng.randint(1, max(1, n - 1)))
    if kind == "a":
        return S(rng.randint(1, n - 1) if n >= 2 else 0, None)
    if kind == "stopn":
        return S(rng.randrange(n), n)
    if kind == "neg":
        form = rng.randrange(5)
        if form == 0 or n == 1:
            return S(-rng.randint(1, n), None)
        if form == 1:
            return S(None, -rng.randint(1, n - 1))
        if form == 2:
            k = rng.randint(2, n)
            return S(-k, -rng.randint(1, k - 1))
        if form == 3:
            j = rng.randint(1, n - 1)
            return S(rng.randrange(n - j), -j)
        k = rng.randint(1, n)
        return S(-k, rng.randint(n - k + 1, n))
    if kind == "step":
        s = rng.choice([2, 3])
        form = rng.randrange(4)
        if form == 0:
            return S(None, None, s)
        if form == 1:
            return S(rng.randrange(n), None, s)
        if form == 2:
            a = rng.randrange(n)
            return S(a, rng.randint(a + 1, n), s)
        return S(-rng.randint(1, n), None, s)
    if kind == "long":
        form = rng.randrange(4)
        if form == 0:
            return S(0, n + rng.randint(1, 5))
        if form == 1:
            return S(-n - rng.randint(1, 3), None)
        if form == 2:
            return S(rng.randrange(n), n + 2)
        return S(-n - 2, n + 4)
    raise ValueError(kind)


def gen_item(rng, kind, n, tshape, neg=False):
    """tshape: dict with the tensor geometry of the tuple: 'L' (1-d length), 'B' (rank-2 broadcast shape);
    neg: tensor entries may be negative (used only to validate the SPEC against torch)"""
    ent = (lambda: rng.randrange(-n, n)) if neg else (lambda: rng.randrange(n))
    if kind == "int_pos":
        return I(rng.randrange(n))
    if kind == "int_m1":
        return I(-1)
    if kind == "int_neg":
        return I(rng.choice([-n, rng.randint(-n, -2)]) if n >= 2 else -1)
    if kind in SLICE_KINDS or kind == "unit":
        return gen_slice(rng, kind, n)
    if kind == "ell":
        return ELL
    if kind == "t0":
        return TT([], [rng.randrange(n)])
    if kind in ("t1", "list"):
        ln = tshape["L"] if rng.random() < 0.8 else 1
        data = [ent() for _ in range(ln)]
        return TT([ln], data) if kind == "t1" else L(data)
    if kind == "t2":
        p, q = tshape["B"]
        shp = rng.choice([(p, 1), (1, q), (p, q)])
        return TT(shp, [ent() for _ in range(shp[0] * shp[1])])
    raise ValueError(kind)


def valid_kinds(kinds, ndim, strict=True):
    """is the kind tuple (one kind per dimension slot, 'ell' = that dimension is covered by the ellipsis)
    inside the property's quantifier?  strict=False: anything torch itself accepts on a dense tensor."""
    if sum(1 for k in kinds if k == "ell") > 1:
        return False
    if strict and "t2" in kinds:
        tpos = [i for i, k in enumerate(kinds) if k in TENSOR_KINDS]
        if len(tpos) < 2 or not any(i >= ndim - 2 for i in tpos):
            return False
    return True


def derive_col(rng, row_item, mode, n):
    """the column item of the 'row == col' families: an exact copy of the row item ("eq"), or a near copy that differs in
    one field ("near": stop / step / start changed so that the index objects are unequal but look alike)"""
    it = dict(row_item)
    if mode == "eq" or it["k"] != "slice":
        return it
    which = rng.randrange(3)
    if which == 0:
        it["s"] = (it["s"] or 1) + 1
    elif which == 1 and (it["b"] is not None) and it["b"] not in (0, -1):
        it["b"] = it["b"] - 1 if it["b"] > 1 or it["b"] < -1 else None
    else:
        a = it["a"] if it["a"] is not None else 0
        it["a"] = a + 1 if a + 1 < n and a + 1 != 0 else a
    return it


def instantiate(rng, kinds, shape, form=0, negative_tensor_entries=False, eq_mode=None):
    """kinds: one kind per dimension of `shape`.  form: 0 as is; 1 drop trailing full slices;
    2 insert an ellipsis that consumes no dimension; 3 replace a run of >= 2 full slices by an ellipsis;
    4 bare (single item without tuple).  Returns (items, bare)."""
    nd = len(shape)
    has_t2 = "t2" in kinds
    if has_t2:
        B = (rng.choice([2, 3]), rng.choice([2, 3]))
        tshape = {"B": B, "L": B[1]}
    else:
        tshape = {"L": rng.choice([1, 2, 2, 3, 4]), "B": None}
    if eq_mode:
        # row == col families: the row item is generated for the smaller of the two matrix dimensions, so that its copy
        # selects at least one element of the column dimension as well
        shape = list(shape)
        shape[-2] = min(shape[-2], shape[-1])
    items = [gen_item(rng, k, shape[d], tshape, negative_tensor_entries) for d, k in enumerate(kinds)]
    if eq_mode:
        items[-1] = derive_col(rng, items[-2], eq_mode, shape[-1])
    bare = False
    is_full = lambda it: it["k"] == "slice" and it["a"] is None and it["b"] is None and it["s"] is None
    if form == 1 and "ell" not in kinds:
        while len(items) > 1 and is_full(items[-1]):
            items.pop()
    elif form == 2 and "ell" not in kinds:
        pos = rng.randrange(nd + 1)
        items = items[:pos] + [ELL] + items[pos:]
    elif form == 3 and "ell" not in kinds:
        runs, i = [], 0
        while i < nd:
            if is_full(items[i]):
                j = i
                while j < nd and is_full(items[j]):
                    j += 1
                if j - i >= 2:
                    runs.append((i, j))
                i = j
            else:
                i += 1
        if runs:
            i, j = runs[rng.randrange(len(runs))]
            items = items[:i] + [ELL] + items[j:]
    elif form == 4 and "ell" not in kinds:
        while len(items) > 1 and is_full(items[-1]):
            items.pop()
        bare = len(items) == 1
    return items, bare


# ------------------------------------------------------------------------------------------ covering arrays

_CA_CACHE = {}


def covering_array(ndim, kinds=KINDS):
    """deterministic greedy strength-2 covering array over (slot, kind): every pair of slots and every pair
    of kinds that can occur together in a valid tuple occurs in some row.  ndim == 2: all valid tuples."""
    key = (ndim, tuple(kinds))
    if key in _CA_CACHE:
        return _CA_CACHE[key]
    if ndim == 1:
        rows = [(k,) for k in kinds if valid_kinds((k,), 1)]
        _CA_CACHE[key] = rows
        return rows
    if ndim == 2:
        rows = [t for t in itertools.product(kinds, repeat=2) if valid_kinds(t, 2)]
        _CA_CACHE[key] = rows
        return rows
    K = len(kinds)
    pairs = set()
    for (p, q) in itertools.combinations(range(ndim), 2):
        for a in range(K):
            for b in range(K):
                pairs.add((p, a, q, b))
    # remove pairs that no valid tuple can contain
    def completable(p, a, q, b):
        base = ["full"] * ndim
        base[p], base[q] = kinds[a], kinds[b]
        if valid_kinds(base, ndim):
            return True
        if "t2" in (kinds[a], kinds[b]):
            for r in range(ndim):
                if r in (p, q):
                    continue
                t = list(base)
                t[r] = "t1"
                if valid_kinds(t, ndim):
                    return True
        return False
    pairs = {x for x in pairs if completable(*x)}
    rows = []
    # deterministic pseudo-random stream (independent of the run seed: the grid must not depend on it)
    state = [12345]

    def rnd(n):
        state[0] = (state[0] * 1103515245 + 12345) % (2 ** 31)
        return (state[0] >> 8) % n
    while pairs:
        best, best_gain = None, -1
        p0 = min(pairs)
        for _ in range(40):
            row = [kinds[rnd(K)] for _ in range(ndim)]
            row[p0[0]], row[p0[2]] = kinds[p0[1]], kinds[p0[3]]
            if not valid_kinds(row, ndim):
                # try to repair: turn other slots into t1 (for t2 validity) or full (for a second ellipsis)
                for r in range(ndim):
                    if r in (p0[0], p0[2]):
                        continue
                    if row[r] == "ell" and sum(1 for k in row if k == "ell") > 1:
                        row[r] = "full"
                if not valid_kinds(row, ndim):
                    for r in range(ndim - 1, -1, -1):
                        if r in (p0[0], p0[2]):
                            continue
                        row[r] = "t1"
                        if valid_kinds(row, ndim):
                            break
                if not valid_kinds(row, ndim):
                    continue
            gain = 0
            for (p, q) in itertools.combinations(range(ndim), 2):
                if (p, kinds.index(row[p]), q, kinds.index(row[q])) in pairs:
                    gain += 1
            if gain > best_gain:
                best, best_gain = tuple(row), gain
        if best is None or best_gain <= 0:
            pairs.discard(p0)
            continue
        rows.append(best)
        for (p, q) in itertools.combinations(range(ndim), 2):
            pairs.discard((p, kinds.index(best[p]), q, kinds.index(best[q])))
    _CA_CACHE[key] = rows
    return rows


def all_tuples(ndim, kinds=KINDS):
    return [t for t in itertools.product(kinds, repeat=ndim) if valid_kinds(t, ndim)]
