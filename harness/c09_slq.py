"""C09: StochasticLQ.to_dense, the stochastic trace / log-determinant consumer of lanczos_tridiag.

For every cell the real pipeline is run on the library:  lanczos_tridiag(A, init_vecs = the probes) ->
lanczos_tridiag_to_diag(T) -> StochasticLQ.to_dense(matrix_shape, evals, evecs, funcs)  with ONE call for the whole
list of functions (the documented usage), and
  * the direct predicate compares every returned entry with  n / P * sum_j q_j^T f_i(A) q_j  (q_j the normalised probe,
    f_i(A) from an independent dense float64 eigendecomposition): exact when the Krylov space is the whole space
    (theorems C09_slq_to_dense + C09_slq_quadrature) and, for polynomials of degree <= 2m - 1, for every m (Gauss
    quadrature), which is what the truncated cells use;
  * the Coq model (Model.slq_to_dense on PrimFloat) recomputes the list from the (evals, evecs) the implementation
    produced, for the functions that exist on PrimFloat (x, x^2, x^3, 1/x).
"""
import torch

from . import c09_sys as S

F64 = torch.float64

# code -> (python closure, dense function on eigenvalues, polynomial degree or None)
FUNCS = {
    0: (lambda x: x, lambda lam: lam, 1),
    1: (lambda x: x * x, lambda lam: lam * lam, 2),
    2: (lambda x: x * x * x, lambda lam: lam * lam * lam, 3),
    3: (lambda x: x.reciprocal(), lambda lam: 1.0 / lam, None),
    4: (lambda x: x.log(), lambda lam: lam.log(), None),          # not available on PrimFloat: predicate only
}


def grid(quick):
    cells = []
    sizes = [4, 6, 9] if quick else [3, 4, 6, 9, 16]
    for n in sizes:
        for bi, batch in enumerate([[], [2], [3, 1]] if quick else [[], [2], [1], [3, 1], [2, 2]]):
            for pi, nprobe in enumerate([1, 2, 4] if quick else [1, 2, 3, 4, 8]):
                for fi, (funcs, full_only) in enumerate([([0, 1, 2], False), ([0, 1, 3], True), ([4, 3, 0], True), ([1], False),
                                                          ([3, 4], True), ([2, 0], False)]):
                    if quick and (n + bi + pi + fi) % 3 == 0:
                        continue
                    for budget in ([n] if full_only else [n, max(2, n // 2)]):
                        cells.append({"api": "slq", "n": n, "batch": batch, "nprobe": nprobe, "funcs": funcs, "max_iter": budget,
                                      "fam": ["uniform", "kappa10"][(n + fi) % 2], "dtype": "f64"})
    return cells


def build(c):
    sp = {"n": c["n"], "batch": c["batch"], "nvec": c["nprobe"], "fam": c["fam"], "vseed": c["vseed"], "start": "random"}
    return S.build(sp)


def run(c, d):
    """('ok', results (list of float64 tensors), evals, evecs, q, t) or ('err', name, message)"""
    from linear_operator.utils.lanczos import lanczos_tridiag, lanczos_tridiag_to_diag
    from linear_operator.utils.stochastic_lq import StochasticLQ
    A, Z = d["A"], d["init"]
    try:
        q, t = lanczos_tridiag(lambda x: A.matmul(x), c["max_iter"], dtype=A.dtype, device=A.device, matrix_shape=A.shape[-2:],
                               batch_shape=A.shape[:-2], init_vecs=Z)
        if c["nprobe"] == 1:
            q, t = q.unsqueeze(0), t.unsqueeze(0)
        evals, evecs = lanczos_tridiag_to_diag(t.clone())
        ev_in, V_in = evals.clone(), evecs.clone()
        res = StochasticLQ(max_iter=c["max_iter"], num_random_probes=c["nprobe"]).to_dense(
            A.shape[-2:], evals, evecs, [FUNCS[k][0] for k in c["funcs"]])
    except Exception as ex:  # noqa
        return ("err", type(ex).__name__, str(ex)[:200])
    return ("ok", res, ev_in, V_in, q, t)


def expected(c, d):
    """n / P * sum_j q_j^T f_i(A_b) q_j per function i and batch member b (float64, dense eigh)"""
    n, P = c["n"], c["nprobe"]
    B = S.prod(c["batch"])
    A = d["A"].reshape(B, n, n)
    Z = d["init"].reshape(B, n, P)
    out, scale = [], []
    for k in c["funcs"]:
        row, srow = [], []
        for b in range(B):
            lam, U = torch.linalg.eigh(A[b])
            fl = FUNCS[k][1](lam)
            tot = 0.0
            for j in range(P):
                q0 = Z[b, :, j] / Z[b, :, j].norm()
                w = U.T @ q0
                tot += float((w * w * fl).sum())
            row.append(n / float(P) * tot)
            srow.append(n * float(fl.abs().max()))
        out.append(row)
        scale.append(srow)
    return out, scale


def judge(c, d, r):
    fails, info = [], {}
    if r[0] == "err":
        return [{"fail": "raises", "error": "%s: %s" % (r[1], r[2])}], info
    res, evals = r[1], r[2]
    m = int(evals.shape[-1])
    info["m"] = m
    B = S.prod(c["batch"])
    if not isinstance(res, (list, tuple)) or len(res) != len(c["funcs"]):
        return [{"fail": "slq-length", "got": len(res) if hasattr(res, "__len__") else None}], info
    for i, x in enumerate(res):
        if list(x.shape) != list(c["batch"]):
            fails.append({"fail": "slq-shape", "i": i, "shape": list(x.shape), "expected": list(c["batch"])})
    if fails:
        return fails, info
    exp, scale = expected(c, d)
    worst = 0.0
    for i, k in enumerate(c["funcs"]):
        deg = FUNCS[k][2]
        if m < c["n"] and (deg is None or deg > 2 * m - 1):
            continue                      # truncated quadrature is only exact for polynomials of degree <= 2m - 1
        got = res[i].to(F64).reshape(B)
        for b in range(B):
            err = abs(float(got[b]) - exp[i][b])
            tl = 1e-8 * scale[i][b]
            worst = max(worst, err / tl)
            if not (err <= tl):
                fails.append({"fail": "slq-trace-term", "i": i, "func": k, "b": b, "got": float(got[b]), "expected": exp[i][b],
                              "tolerance": tl})
    info["worst"] = worst
    return fails, info


def lits(c, r, flit, fmat_lit, seq_lit):
    """one MkQCase per batch member, for the functions that exist on PrimFloat"""
    if r[0] != "ok":
        return []
    keep = [i for i, k in enumerate(c["funcs"]) if k < 4]
    if not keep:
        return []
    res, evals, evecs = r[1], r[2].to(F64), r[3].to(F64)
    P, m = evals.shape[0], evals.shape[-1]
    B = S.prod(c["batch"])
    if any(x.numel() != B for x in res):
        return []
    ev = evals.reshape(P, B, m)
    V = evecs.reshape(P, B, m, m)
    out = []
    for b in range(B):
        out.append("MkQCase %d %d %s %s %s %s %s" % (
            c["n"], m, seq_lit([seq_lit([flit(x) for x in ev[j, b].tolist()]) for j in range(P)]),
            seq_lit([fmat_lit(V[j, b]) for j in range(P)]), seq_lit(["%d" % c["funcs"][i] for i in keep]),
            seq_lit([flit(float(res[i].to(F64).reshape(B)[b])) for i in keep]), flit(1e-9)))
    return out
