"""C01 - transcription pins (informational, never a VIOLATION).

coq/C01/Model.v is a HAND transcription of the anchored code (there is no translator).  To tell a maintainer when the
transcription needs to be re-read, the hash of every transcribed function (AST without docstrings, so comments and
formatting do not count) of the tree Model.v was written against is stored in harness/c01_pins.json.  `drift(repo)` lists
the functions whose code differs on the tree under test.  A behavioural change is detected by the correspondence and
the direct predicate (harness/c01.py); this list only says WHERE the source moved.

  /venv/bin/python -m harness.c01_pins --update      rewrite the pins from $VERIF_REPO (default /repo)
"""
import ast
import hashlib
import json
import os
import re
import sys

PINS = os.path.join(os.path.dirname(os.path.abspath(__file__)), "c01_pins.json")
PROPS = os.path.join(os.path.dirname(os.path.dirname(os.path.abspath(__file__))), "properties.jsonl")

# the functions Model.v speaks about (names; matched in every anchored file)
NAMES = re.compile(
    r"^(_matmul|_t_matmul|matmul|rmatmul|__matmul__|__rmatmul__|to_dense|_size|_transpose_nonbatch|__init__|__call__|"
    r"_add_batch_dim|_remove_batch_dim|_move_repeat_batches_to_columns|_move_repeat_batches_back|_compute_batch_repeat_size|"
    r"_maybe_reshape_rhs|_expand|toeplitz_matmul|sym_toeplitz_matmul|left_interp|left_t_interp|_matmul_broadcast_shape|"
    r"shape|size|dim|ndimension|numel|batch_shape|matrix_shape|transpose|mT|forward|_kron_diag|_diag|expanded_constant|"
    r"_sparse_left_interp_t|_sparse_right_interp_t|bdsmm|make_sparse_from_indices_and_values|inverse|_check_args)$")


def anchored_files():
    for line in open(PROPS):
        line = line.strip()
        if line and '"C01"' in line:
            x = json.loads(line)
            if x.get("id") == "C01":
                return sorted(set(x["anchors"]["files"]) | {"linear_operator/functions/_matmul.py"})
    return []


def _strip_doc(node):
    if not isinstance(node, (ast.FunctionDef, ast.AsyncFunctionDef, ast.ClassDef)):
        return
    body = node.body
    if body and isinstance(body[0], ast.Expr) and isinstance(getattr(body[0], "value", None), ast.Constant) \
            and isinstance(body[0].value.value, str):
        node.body = body[1:] or [ast.Pass()]


def hashes(repo):
    out = {}
    for rel in anchored_files():
        path = os.path.join(repo, rel)
        try:
            tree = ast.parse(open(path).read())
        except (OSError, SyntaxError):
            out[rel] = None
            continue
        fns = {}

        def walk(node, prefix):
            for ch in ast.iter_child_nodes(node):
                if isinstance(ch, ast.ClassDef):
                    walk(ch, prefix + ch.name + ".")
                elif isinstance(ch, (ast.FunctionDef, ast.AsyncFunctionDef)):
                    if NAMES.match(ch.name):
                        for sub in ast.walk(ch):
                            _strip_doc(sub)
                        ch.returns = None                      # annotations do not count
                        for a in ch.args.args + ch.args.kwonlyargs:
                            a.annotation = None
                        key = prefix + ch.name
                        n = 2
                        while key in fns:                      # property getter / setter pairs
                            key = "%s%s#%d" % (prefix, ch.name, n)
                            n += 1
                        fns[key] = hashlib.sha1(ast.dump(ch).encode()).hexdigest()[:12]
        walk(tree, "")
        out[rel] = fns
    return out


def drift(repo):
    """names 'file:Class.function' whose code differs from the pinned transcription source (changed / new / removed)"""
    try:
        pinned = json.load(open(PINS))["functions"]
    except (OSError, ValueError, KeyError):
        return None
    now = hashes(repo)
    out = []
    for rel in sorted(set(pinned) | set(now)):
        a, b = pinned.get(rel) or {}, now.get(rel) or {}
        for fn in sorted(set(a) | set(b)):
            if a.get(fn) != b.get(fn):
                out.append("%s:%s" % (rel.replace("linear_operator/", ""), fn))
    return out


if __name__ == "__main__":
    repo = os.environ.get("VERIF_REPO", "/repo")
    if "--update" in sys.argv:
        h = hashes(repo)
        json.dump({"note": "AST hashes (docstrings and annotations stripped) of the functions coq/C01/Model.v transcribes; "
                           "rewrite with `python -m harness.c01_pins --update` after re-reading Model.v against the new source",
                   "functions": h}, open(PINS, "w"), indent=1, sort_keys=True)
        print("pinned", sum(len(v or {}) for v in h.values()), "functions in", len(h), "files")
    else:
        print("\n".join(drift(repo) or []))
