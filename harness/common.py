"""Shared machinery for all property checks (see DESIGN.md section 2.5).

A check is a Python module harness/cXX.py exposing  run(ctx) ; ctx is a Ctx below.
The module regenerates coq/CXX/gen/*.v from /repo, builds the Coq project of the property
(all theorems in Property.v are the proof obligations), runs the implementation on generated
inputs, lets Coq evaluate the model on the same inputs (vm_compute) and triages every
disagreement with an independent dense oracle.
"""
import hashlib
import json
import os
import re
import subprocess
import sys
import time

VERIF = os.path.dirname(os.path.dirname(os.path.abspath(__file__)))
REPO = os.environ.get("VERIF_REPO", "/repo")
COQ = os.path.join(VERIF, "coq")
PY = "/venv/bin/python"
GUARD = "LINEAR_OPERATOR_VERIF"

COQ_TRUSTED = [
    "Coq 8.16.1 kernel (coqc full .vo build; vm_compute used for finite-table theorems and for "
    "evaluating the model in correspondence shards; no native_compute)",
]


def sh(cmd, timeout=600, cwd=None, env=None):
    e = dict(os.environ)
    if env:
        e.update(env)
    try:
        p = subprocess.run(cmd, shell=isinstance(cmd, str), cwd=cwd, env=e, timeout=timeout,
                           stdout=subprocess.PIPE, stderr=subprocess.STDOUT, text=True)
        return p.returncode, p.stdout
    except subprocess.TimeoutExpired as ex:
        out = ex.stdout or ""
        if isinstance(out, bytes):
            out = out.decode(errors="replace")
        return 124, out + "\nTIMEOUT"


def deps_of(prop):
    """coq/<prop>/DEPS: other property developments (one id per line) this one imports."""
    p = os.path.join(COQ, prop, "DEPS")
    if not os.path.exists(p):
        return []
    return [l.strip() for l in open(p) if l.strip() and not l.startswith("#")]


def qflags(prop):
    fl = ["-Q", os.path.join(COQ, "Base"), "Base"]
    for d in deps_of(prop):
        fl += ["-Q", os.path.join(COQ, d), d]
    return fl + ["-Q", os.path.join(COQ, prop), prop]


def build_base():
    """Build coq/Base (shared library). flock-protected; incremental."""
    d = os.path.join(COQ, "Base")
    return _make(d, "Base")


def _make(d, logical, extra_q=()):
    files = sorted(f for f in os.listdir(d) if f.endswith(".v"))
    gen = os.path.join(d, "gen")
    genfiles = []
    if os.path.isdir(gen):
        genfiles = sorted("gen/" + f for f in os.listdir(gen) if f.endswith(".v") and not f.startswith("cases_"))
    proj = ["-Q . %s" % logical] + ["-Q %s %s" % (p, l) for (p, l) in extra_q]
    proj.append("-arg -w -arg -all")
    proj += files + genfiles
    projtxt = "\n".join(proj) + "\n"
    pf = os.path.join(d, "_CoqProject")
    old = open(pf).read() if os.path.exists(pf) else None
    lock = os.path.join(d, ".lock")
    cmd = "flock %s sh -c '%s timeout 1500 make -j8 -f Makefile.coq 2>&1'" % (
        lock, "" if (old == projtxt and os.path.exists(os.path.join(d, "Makefile.coq")))
        else "coq_makefile -f _CoqProject -o Makefile.coq >/dev/null 2>&1 && ")
    if old != projtxt:
        open(pf, "w").write(projtxt)
    rc, out = sh(cmd, timeout=1600, cwd=d)
    return rc, out


def build_prop(prop):
    """Full (incremental) .vo build of coq/<prop> (incl. gen/*.v except case shards)."""
    rc, out = build_base()
    if rc != 0:
        return rc, out
    for dep in deps_of(prop):
        rc, out = build_prop(dep)
        if rc != 0:
            return rc, out
    d = os.path.join(COQ, prop)
    return _make(d, prop, extra_q=[("../Base", "Base")] + [("../" + x, x) for x in deps_of(prop)])


def coqc_file(prop, path, timeout=300):
    cmd = ["timeout", str(timeout), "coqc", "-w", "-all"] + qflags(prop) + [path]
    return sh(cmd, timeout=timeout + 10, cwd=os.path.join(COQ, prop))


def first_coq_error(out):
    m = re.search(r'File "([^"]+)", line (\d+), characters[^\n]*\n(Error:.*?)(?:\n\n|\Z)', out, re.S)
    if m:
        return {"file": m.group(1), "line": int(m.group(2)), "error": m.group(3)[:600]}
    return {"file": None, "line": None, "error": out[-800:]}


def theorem_at(path, line):
    """Name of the Theorem/Lemma enclosing `line` in file `path` (for replay files)."""
    try:
        lines = open(path).read().split("\n")
    except OSError:
        return None
    for i in range(min(line, len(lines)) - 1, -1, -1):
        m = re.match(r"\s*(?:Theorem|Lemma|Corollary|Example|Definition|Fact)\s+([A-Za-z0-9_']+)", lines[i])
        if m:
            return m.group(1)
    return None


def property_obligations(prop):
    """Parse coq/<prop>/Property.v: the theorem names and, from the compiled output, their axioms."""
    path = os.path.join(COQ, prop, "Property.v")
    src = open(path).read()
    names = re.findall(r"^\s*(?:Theorem|Corollary)\s+([A-Za-z0-9_']+)", src, re.M)
    return names


def print_assumptions(prop):
    """Re-run Print Assumptions for every theorem of Property.v (after the build)."""
    names = property_obligations(prop)
    tmp = os.path.join(COQ, prop, "gen", "assumptions_%d.v" % os.getpid())
    os.makedirs(os.path.dirname(tmp), exist_ok=True)
    body = "Require Import %s.Property.\n" % prop + "".join(
        'Goal True. idtac "@@ %s". Abort.\nPrint Assumptions %s.\n' % (n, n) for n in names)
    open(tmp, "w").write(body)
    rc, out = coqc_file(prop, tmp, timeout=600)
    res = {}
    if rc == 0:
        chunks = out.split("@@ ")[1:]
        for ch in chunks:
            name, _, rest = ch.partition("\n")
            rest = rest.strip()
            if rest.startswith("Closed under the global context"):
                res[name.strip()] = []
            else:
                ax = re.findall(r"^([A-Za-z0-9_.']+)\s*:", rest, re.M)
                res[name.strip()] = ax
    for ext in (".v", ".vo", ".vok", ".vos", ".glob"):
        try:
            os.remove(tmp[:-2] + ext)
        except OSError:
            pass
    try:
        os.remove(os.path.join(os.path.dirname(tmp), "." + os.path.basename(tmp)[:-2] + ".aux"))
    except OSError:
        pass
    return rc, res, out


FORBIDDEN = re.compile(r"\b(Admitted|admit|Axiom|Axioms|Parameter|Parameters|Conjecture|Conjectures|"
                       r"Hypothesis|Hypotheses|Variable|Variables|Unset\s+Guard|bypass_check|"
                       r"Admit\s+Obligations|Unset\s+Universe|Unset\s+Positivity|type-in-type)\b")


def gate_no_axioms(prop):
    """Reject Admitted/admit/Axiom/... anywhere; Variable/Hypothesis only inside Sections."""
    bad = []
    for root in (os.path.join(COQ, "Base"), os.path.join(COQ, prop)):
        for dp, _, fs in os.walk(root):
            for f in fs:
                if not f.endswith(".v") or f.startswith("cases_"):
                    continue
                p = os.path.join(dp, f)
                txt = re.sub(r"\(\*.*?\*\)", "", open(p).read(), flags=re.S)
                depth = 0
                for ln, line in enumerate(txt.split("\n"), 1):
                    if re.match(r"\s*Section\s+\w+", line):
                        depth += 1
                    if re.match(r"\s*End\s+\w+", line) and depth > 0:
                        depth -= 1
                    for m in FORBIDDEN.finditer(line):
                        w = m.group(1)
                        if w.startswith(("Variable", "Hypothes")) and depth > 0:
                            continue
                        bad.append("%s:%d:%s" % (p, ln, w))
    return bad


# ---------------------------------------------------------------------------------------
# literals

def zlit(x):
    x = int(x)
    return "(%d)%%Z" % x if x < 0 else "%d%%Z" % x


def zlist(xs):
    return "[" + "; ".join(zlit(x) for x in xs) + "]"


def natlist(xs):
    return "[" + "; ".join("%d%%nat" % int(x) for x in xs) + "]"


def flit(x):
    """binary64 literal for PrimFloat (exact: hex float)."""
    x = float(x)
    if x != x:
        return "nan"
    if x == float("inf"):
        return "infinity"
    if x == float("-inf"):
        return "neg_infinity"
    h = x.hex()
    if h.startswith("-"):
        return "(-%s)%%float" % h[1:]
    return "%s%%float" % h


def flist(xs):
    return "[" + "; ".join(flit(x) for x in xs) + "]"


def coq_list(items):
    return "[" + "; ".join(items) + "]"


def coq_bool(b):
    return "true" if b else "false"


# ---------------------------------------------------------------------------------------
# known findings

_KNOWN_CACHE = None


def load_known():
    """committed known findings: known_findings.json plus one file per finding in known_findings.d/
    (read once per process; a file that cannot be parsed is retried, then reported loudly)"""
    global _KNOWN_CACHE
    if _KNOWN_CACHE is not None:
        return _KNOWN_CACHE
    out = []
    p = os.path.join(VERIF, "known_findings.json")
    if os.path.exists(p):
        out += json.load(open(p)).get("findings", [])
    d = os.path.join(VERIF, "known_findings.d")
    if os.path.isdir(d):
        for f in sorted(os.listdir(d)):
            if f.endswith(".json"):
                x = None
                for attempt in range(5):
                    try:
                        x = json.load(open(os.path.join(d, f)))
                        break
                    except ValueError:
                        time.sleep(0.3)
                if x is None:
                    raise RuntimeError("known_findings.d/%s is not valid JSON" % f)
                out += x if isinstance(x, list) else [x]
    _KNOWN_CACHE = out
    return out


def kf_match(prop, key):
    """key: dict of structural attributes of the (shrunk) failing case.  An entry matches when
    it is status=known, same property, and every attribute of the entry's key equals the case's."""
    for e in load_known():
        if e.get("property") != prop or e.get("status") != "known":
            continue
        k = e.get("key", {})
        if all(str(key.get(a)) == str(v) for a, v in k.items()):
            return e
    return None


# ---------------------------------------------------------------------------------------

class Ctx:
    def __init__(self, prop, tier, seed):
        self.prop, self.tier, self.seed = prop, tier, seed
        self.t0 = time.time()
        self.violations = 0
        self.known_hit = {}
        self.coverage = {}
        self.assumptions = []
        self.level = "proof"
        self.lines = []
        self.gen = os.path.join(COQ, prop, "gen")
        os.makedirs(self.gen, exist_ok=True)
        os.makedirs(os.path.join(VERIF, "replays"), exist_ok=True)
        os.makedirs(os.path.join(VERIF, "evidence"), exist_ok=True)

    @property
    def quick(self):
        return self.tier == "quick"

    def say(self, *a):
        print(*a, flush=True)

    def violation(self, replay, key=None, no_input=False):
        """Report a violation unless its structural key is a listed known finding."""
        if key is not None and not no_input:
            e = kf_match(self.prop, key)
            if e is not None:
                kid = e.get("id", json.dumps(e.get("key"), sort_keys=True))
                if kid not in self.known_hit:
                    self.known_hit[kid] = e
                return False
        replay = dict(replay)
        replay.setdefault("property", self.prop)
        replay["key"] = key
        blob = json.dumps(replay, sort_keys=True, default=str)
        h = hashlib.sha1(blob.encode()).hexdigest()[:10]
        path = os.path.join(VERIF, "replays", "%s_%s.json" % (self.prop, h))
        with open(path, "w") as f:
            json.dump(replay, f, indent=1, sort_keys=True, default=str)
        self.violations += 1
        if self.violations <= 25:
            print("VIOLATION property=%s replay=%s%s" % (self.prop, path, " no-failing-input-found" if no_input else ""),
                  flush=True)
        return True

    def finish(self):
        for kid, e in self.known_hit.items():
            print("KNOWN-FINDING: property=%s %s" % (self.prop, e.get("what_fails", kid)), flush=True)
        cov = dict(self.coverage)
        ev = {
            "property_id": self.prop, "tier": self.tier, "seed": int(self.seed), "level": self.level,
            "coverage": cov, "assumptions": self.assumptions,
            "wall_s": round(time.time() - self.t0, 2), "violations": self.violations,
            "known_findings_reproduced": sorted(self.known_hit),
        }
        # runs against a scratch tree (VERIF_REPO != /repo: mutation testing) must not overwrite the committed evidence
        evdir = os.path.join(VERIF, "evidence" if os.path.realpath(REPO) == "/repo" else "evidence_scratch")
        os.makedirs(evdir, exist_ok=True)
        with open(os.path.join(evdir, "%s.json" % self.prop), "w") as f:
            json.dump(ev, f, indent=1, default=str)
        return 1 if self.violations else 0


def proof_stage(ctx, search_on_failure):
    """Gate + build + Print Assumptions.  Fills the proof keys of ctx.coverage.
    search_on_failure(info) -> True if it reported a concrete failing input itself."""
    prop = ctx.prop
    bad = gate_no_axioms(prop)
    if bad:
        ctx.violation({"kind": "forbidden-construct", "where": bad[:20]}, no_input=True)
        return False
    rc, out = build_prop(prop)
    names = property_obligations(prop)
    if rc != 0:
        info = first_coq_error(out)
        if info["file"] and info["line"]:
            fpath = info["file"] if os.path.isabs(info["file"]) else os.path.join(COQ, prop, info["file"])
            info["theorem"] = theorem_at(fpath, info["line"])
        ctx.say("proof obligation no longer checks:", json.dumps(info)[:900])
        ctx.coverage.update({"obligations": len(names), "discharged": 0})
        found = False
        try:
            found = bool(search_on_failure(info))
        except Exception as ex:  # the search itself must never mask the broken obligation
            ctx.say("search raised", repr(ex))
        if not found:
            ctx.violation({"kind": "broken-proof-obligation", "obligation": info}, no_input=True)
        return False
    rc2, ass, aout = print_assumptions(prop)
    if rc2 != 0 or set(ass) != set(names):
        ctx.violation({"kind": "print-assumptions-failed", "out": aout[-600:]}, no_input=True)
        return False
    axioms = sorted({a for v in ass.values() for a in v})
    ctx.coverage.update({
        "obligations": len(names), "discharged": len(names),
        "checker_cmd": "coq_makefile -f coq/%s/_CoqProject && make (coqc 8.16.1, full .vo) ; Print Assumptions on every theorem of coq/%s/Property.v" % (prop, prop),
        "theorems": names, "axioms_per_theorem": ass, "axioms": axioms,
    })
    if not ctx.quick and os.environ.get("VERIF_NO_COQCHK") != "1":
        coqchk_stage(ctx)
    return True


def coqchk_stage(ctx):
    """thorough tier: re-check <prop>.Property (and everything it depends on) with the independent checker coqchk and
    record its context summary (axioms of every loaded library, type-in-type, unsafe fixpoints, assumed positivity)."""
    prop = ctx.prop
    cmd = ["coqchk", "-silent", "-o"] + qflags(prop) + ["%s.Property" % prop]
    t0 = time.time()
    rc, out = sh(["timeout", "2400"] + cmd, timeout=2500, cwd=os.path.join(COQ, prop))
    summ = out[out.find("CONTEXT SUMMARY"):] if "CONTEXT SUMMARY" in out else out[-1500:]
    info = {"cmd": " ".join(cmd), "rc": rc, "wall_s": round(time.time() - t0, 1), "summary": " ".join(summ.split())[:3000]}
    ctx.coverage["coqchk"] = info
    if rc in (124, 137):
        ctx.say("coqchk did not finish within its time limit (recorded in the evidence; not a violation)")
    elif rc != 0:
        ctx.violation({"kind": "coqchk-rejected", "coqchk": info}, no_input=True)
    else:
        bad = [k for k in ("type-in-type", "unsafe (co)fixpoints", "positivity is assumed") if re.search(re.escape(k) + r":\s*(?!<none>)\S", summ)]
        if bad:
            ctx.violation({"kind": "coqchk-unsafe-flags", "flags": bad, "coqchk": info}, no_input=True)


def run_shards(ctx, shards, timeout=900):
    """shards: list of (name, coq_source).  Each must print lines starting with 'RESULT '.
    Compiled in parallel with coqc.  Returns dict name -> (rc, output)."""
    from concurrent.futures import ThreadPoolExecutor
    paths = []
    for name, src in shards:
        p = os.path.join(ctx.gen, "cases_%s.v" % name)
        open(p, "w").write(src)
        paths.append((name, p))

    def one(np):
        name, p = np
        rc, out = coqc_file(ctx.prop, p, timeout=timeout)
        return name, (rc, out)
    res = {}
    with ThreadPoolExecutor(max_workers=12) as ex:
        for name, r in ex.map(one, paths):
            res[name] = r
    for name, p in paths:
        for ext in (".vo", ".vok", ".vos", ".glob"):
            try:
                os.remove(p[:-2] + ext)
            except OSError:
                pass
        try:
            os.remove(os.path.join(os.path.dirname(p), "." + os.path.basename(p)[:-2] + ".aux"))
        except OSError:
            pass
    return res


def parse_coq_list_of_nat(out):
    """parse '= [1; 2; 3]' style output of Eval vm_compute (possibly wrapped over lines)."""
    m = re.search(r"=\s*\[(?:::)?(.*?)\]\s*:\s*(?:list|seq)", out, re.S)
    if not m:
        return None
    body = m.group(1).strip()
    if not body:
        return []
    return [int(re.sub(r"%\w+", "", x).strip().strip("()")) for x in body.split(";")]
