"""C09: call SEQUENCES on one operator object.  The Lanczos diagonalisation / root / inverse root of an operator are
cached on the object and derived from one another (root_inv_decomposition picks the cached diagonalisation, ...), so
the property -- they reproduce A and A^{-1} when the Krylov space is the whole space -- must hold for every ORDER in
which a user asks for them, and a result handed out earlier must not change afterwards.

For every cell: a fresh DenseLinearOperator(A) (A well conditioned, n <= max_root_decomposition_size so that the
Krylov space is the whole space), Lanczos in force (settings.max_cholesky_size(0)), three calls out of
    D  op.diagonalization()            Q diag(S) Q^T = A, S = eigenvalues of A
    R  op.root_decomposition()         R R^T = A
    I  op.root_inv_decomposition()     R R^T = A^{-1}
with the default method selection (which is how the cached results get reused); after EVERY call the predicate of that
call is evaluated against plain torch on the dense matrix, and at the end the predicates of all earlier results are
evaluated once more (in-place modification of something that was handed out).  Predicate only (no Gallina model: the
caching is outside the Lanczos model); tolerance 1e-4 (float64) / 5e-3 (float32) relative -- the tridiagonal jitter
is 1e-6 relative.
"""
import itertools

import torch

from . import c09_sys as S

F64 = torch.float64
OPS = ("D", "R", "I")


def grid(quick):
    cells = []
    seqs = ["".join(p) for p in itertools.product(OPS, repeat=3)]
    for ni, n in enumerate([6, 12, 24] if quick else [4, 6, 12, 24, 40]):
        for bi, batch in enumerate([[], [2]] if quick else [[], [2], [3, 1]]):
            for si, seq in enumerate(seqs):
                dt = "f32" if (si + ni + bi) % 5 == 0 else "f64"
                cells.append({"api": "sequence", "n": n, "batch": batch, "seq": seq, "fam": ["uniform", "kappa10"][(si + ni) % 2],
                              "dtype": dt})
    return cells


def build(c):
    sp = {"n": c["n"], "batch": c["batch"], "nvec": 1, "fam": c["fam"], "vseed": c["vseed"], "start": "none"}
    return S.build(sp)


def _dense(x):
    return x.to_dense() if hasattr(x, "to_dense") else x


def _rel(a, b):
    return float((a - b).abs().max()) / max(float(b.abs().max()), 1e-300)


def evaluate(kind, res, A, Ainv, evA):
    """relative errors of one result against the dense matrix (float64)"""
    if kind == "D":
        ev, Q = res[0].to(F64), _dense(res[1]).to(F64)
        out = {"reconstruct": _rel((Q * ev.unsqueeze(-2)) @ Q.mT, A)}
        if ev.shape == evA.shape:
            out["eigenvalues"] = _rel(ev.sort(-1)[0], evA)
        else:
            out["eigenvalues"] = float("inf")
        return out
    R = _dense(res.root).to(F64)
    return {"reconstruct": _rel(R @ R.mT, A if kind == "R" else Ainv)}


def run(c, d):
    """list of failures, info.  Every exception is a failure of the step it occurs in."""
    import linear_operator
    from linear_operator.operators import DenseLinearOperator
    dt = {"f64": torch.float64, "f32": torch.float32}[c["dtype"]]
    tol = 1e-4 if c["dtype"] == "f64" else 5e-3
    A32 = d["A"].to(dt)
    A = A32.to(F64)
    Ainv = torch.linalg.inv(A)
    evA = torch.linalg.eigvalsh(A)
    cond = float((evA.max(-1)[0] / evA.min(-1)[0]).max())
    fails, info, handed = [], {"cond": cond, "errors": []}, []
    torch.manual_seed(int(c["vseed"]) % (1 << 31))
    op = DenseLinearOperator(A32)
    with linear_operator.settings.max_cholesky_size(0):
        for i, kind in enumerate(c["seq"]):
            try:
                if kind == "D":
                    res = op.diagonalization()
                elif kind == "R":
                    res = op.root_decomposition()
                else:
                    res = op.root_inv_decomposition()
            except Exception as ex:  # noqa
                fails.append({"fail": "sequence-raises", "step": i, "call": kind, "error": "%s: %s" % (type(ex).__name__, str(ex)[:160])})
                break
            errs = evaluate(kind, res, A, Ainv, evA)
            info["errors"].append({"step": i, "call": kind, **errs})
            t = tol * (cond if kind == "I" else 1.0)
            for k, v in errs.items():
                if not (v <= t):
                    fails.append({"fail": "sequence-" + k, "step": i, "call": kind, "value": v, "tolerance": t,
                                  "earlier_calls": c["seq"][:i]})
            handed.append((i, kind, res))
        # results handed out earlier must still be what they were
        if not fails:
            for (i, kind, res) in handed[:-1]:
                errs = evaluate(kind, res, A, Ainv, evA)
                t = tol * (cond if kind == "I" else 1.0)
                for k, v in errs.items():
                    if not (v <= t):
                        fails.append({"fail": "sequence-earlier-result-changed", "step": i, "call": kind, "what": k, "value": v,
                                      "tolerance": t, "after_calls": c["seq"]})
    return fails, info
