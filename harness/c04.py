"""C04 — solve returns A^{-1}B whichever algorithm the library selects.

proof   : coq/C04/{Model,Proofs*,Property}.v   (selector + kernels over a generic arithmetic; MathComp theorems)
tie     : correspondence.  For every generated (operator, settings, rhs) cell the real `solve` is run with the
          verbose_linalg logger captured and linear_cg wrapped (in this process — not a repo hook); the observed
          kernel events are compared EXACTLY with  method_events (select_solve …)  and the returned values with
          alg_solve on PrimFloat (direct methods, tolerance) resp. with the residual predicate (CG), inside Coq.
search  : the property predicate evaluated directly on the implementation's output with an independent dense
          oracle (plain torch on the constructor arguments) — for every generated case.
grid    : (class x settings row x rhs kind x kappa) + three deterministic input families (`family_cells`): solves routed
          through factor operators (op.cholesky(upper=u) of every PD constructor), batches whose members differ in
          conditioning (psd_safe_cholesky's jitter loop), structured right-hand sides on every path / entry point /
          the backward pass.  See design_notes/C04.md section 3.
"""
import contextlib
import itertools
import json
import logging
import math
import os
import random
import re
import time
import warnings
import zlib

import torch

from . import common
from . import c04_ops as ops

PROP = "C04"
F64 = torch.float64

# ----------------------------------------------------------------------------------------- settings

DEFAULTS = None


def defaults():
    """default values read from the package under test (not hard-coded)"""
    global DEFAULTS
    if DEFAULTS is None:
        import linear_operator.settings as S
        DEFAULTS = dict(mcs=S.max_cholesky_size.value(), fast=S.fast_computations.solves.on(), cgtol=S.cg_tolerance.value(),
                        maxit=S.max_cg_iterations.value(), mps=S.max_preconditioner_size.value(),
                        minps=S.min_preconditioning_size.value(), memeff=S.memory_efficient.on(),
                        lanczos=S.max_lanczos_quadrature_iterations.value(),
                        jit_exp=jitter_exp(S.cholesky_jitter.value(F64)), tries=S.cholesky_max_tries.value(),
                        mrds=S.max_root_decomposition_size.value())
    return DEFAULTS


def jitter_exp(v):
    """cholesky_jitter as the k with value == 10^-k (the model's settings record carries k)"""
    k = int(round(-math.log10(v)))
    if float("1e-%d" % k) != v:
        raise ValueError("cholesky_jitter %r is not a power of ten" % v)
    return k


def factor_levels():
    d = defaults()
    return [("mcs", [0, d["mcs"]]), ("fast", [True, False]), ("cgtol", [d["cgtol"], 1e-2, 1e-4]),
            ("maxit", [d["maxit"], max(20, d["lanczos"]), 40]), ("mps", [0, 5, d["mps"]]), ("minps", [0, d["minps"]]),
            ("memeff", [False, True])]


def covering_rows():
    """deterministic greedy pairwise (strength 2) covering array over the settings factors"""
    fl = factor_levels()
    names = [f for f, _ in fl]
    need = set()
    for (i, (fa, la)), (j, (fb, lb)) in itertools.combinations(list(enumerate(fl)), 2):
        for a in range(len(la)):
            for b in range(len(lb)):
                need.add((i, a, j, b))
    rows = []
    allrows = list(itertools.product(*[range(len(l)) for _, l in fl]))
    while need:
        best, bestc = None, -1
        for r in allrows:
            c = sum(1 for (i, a, j, b) in need if r[i] == a and r[j] == b)
            if c > bestc:
                best, bestc = r, c
        rows.append(best)
        need = {(i, a, j, b) for (i, a, j, b) in need if not (best[i] == a and best[j] == b)}
    return [{n: fl[k][1][r[k]] for k, n in enumerate(names)} for r in rows]


@contextlib.contextmanager
def settings_ctx(st):
    import linear_operator.settings as S
    with contextlib.ExitStack() as es:
        es.enter_context(S.max_cholesky_size(st["mcs"]))
        es.enter_context(S.fast_computations(solves=st["fast"]))
        es.enter_context(S.cg_tolerance(st["cgtol"]))
        es.enter_context(S.max_cg_iterations(st["maxit"]))
        es.enter_context(S.max_preconditioner_size(st["mps"]))
        es.enter_context(S.min_preconditioning_size(st["minps"]))
        es.enter_context(S.memory_efficient(st["memeff"]))
        if "jit_exp" in st:
            es.enter_context(S.cholesky_jitter(double_value=float("1e-%d" % st["jit_exp"])))
        if "tries" in st:
            es.enter_context(S.cholesky_max_tries(st["tries"]))
        if "mrds" in st:
            es.enter_context(S.max_root_decomposition_size(st["mrds"]))
        if "mlq" in st:
            es.enter_context(S.max_lanczos_quadrature_iterations(st["mlq"]))
        if st.get("ldt"):
            # linalg_dtypes with ONE argument given (default / symeig / cholesky), the others left at their defaults
            arg, dt = st["ldt"]
            es.enter_context(S.linalg_dtypes(**{arg: torch.float32 if dt == "f32" else torch.float64}))
        es.enter_context(S.verbose_linalg(True))
        yield


# ----------------------------------------------------------------------------------------- observation

class _Capture(logging.Handler):
    def __init__(self):
        super().__init__(level=logging.DEBUG)
        self.msgs = []

    def emit(self, record):
        self.msgs.append(record.getMessage())


_SHAPE = r"torch\.Size\(\[([0-9, ]*)\]\)"


def _shape(s):
    return [int(x) for x in s.replace(" ", "").split(",") if x != ""]


def parse_events(msgs, cgcalls):
    ev = []
    cg_i = 0
    for m in msgs:
        mm = re.match(r"Running Cholesky on a matrix of size %s\." % _SHAPE, m)
        if mm:
            ev.append(("chol", _shape(mm.group(1))))
            continue
        mm = re.match(r"Running CG on a %s RHS for (\d+) iterations \(tol=([^)]*)\)\. Output: %s\." % (_SHAPE, _SHAPE), m)
        if mm:
            pre = cgcalls[cg_i]["precond"] if cg_i < len(cgcalls) else None
            cg_i += 1
            ev.append(("cg", pre, _shape(mm.group(1)), int(mm.group(2)), float(mm.group(3))))
            continue
        mm = re.match(r"Running symeig on a matrix of size %s\." % _SHAPE, m)
        if mm:
            ev.append(("eig", _shape(mm.group(1))))
            continue
        mm = re.match(r"Running Pivoted Cholesky on a %s RHS for (\d+) iterations\." % _SHAPE, m)
        if mm:
            ev.append(("pivchol", _shape(mm.group(1)), int(mm.group(2))))
            continue
        ev.append(("other", m[:80]))
    if cg_i != len(cgcalls):
        ev.append(("other", "linear_cg calls %d != CG log lines %d" % (len(cgcalls), cg_i)))
    return ev


def call_solve(op, rhs, left, via):
    """the public entry points that end in LinearOperator.solve"""
    r = rhs.clone()
    l = None if left is None else left.clone()
    if via == "solve":
        return op.solve(r) if l is None else op.solve(r, l)
    if via == "linalg":
        return torch.linalg.solve(op, r)
    if via == "func":
        import linear_operator
        return linear_operator.solve(op, r) if l is None else linear_operator.solve(op, r, l)
    raise ValueError(via)


def run_query(op, query):
    """a query that fills the parent's caches (Cholesky / capacitance factor, preconditioner, eigen-decompositions)"""
    g = torch.Generator().manual_seed(1)
    r0 = torch.randn(*op.shape[:-1], 2, dtype=op.dtype, generator=g)
    if query == "solve":
        op.solve(r0)
    elif query == "logdet":
        op.logdet()
    elif query == "inv_quad_logdet":
        op.inv_quad_logdet(r0, logdet=True)
    else:
        raise ValueError(query)


def observe(spec, rhs, left, st, via="solve", fwd_rhs=None):
    """run the real solve; returns dict(out | exc, events, warn).
    via = "backward": `fwd_rhs` is the right-hand side of the forward solve and `rhs` the upstream gradient; the
    observed result is the gradient with respect to the right-hand side (= A^-1 rhs for symmetric A) and the
    "second solve" is the one the backward pass runs."""
    import linear_operator.settings as S
    import linear_operator.utils as U
    lg = S.verbose_linalg.logger
    cap = _Capture()
    old_handlers, old_prop = lg.handlers[:], lg.propagate
    lg.handlers, lg.propagate = [cap], False
    orig_cg = U.linear_cg
    cgcalls = []

    def cg(*a, **k):
        cgcalls.append({"precond": k.get("preconditioner") is not None})
        return orig_cg(*a, **k)
    U.linear_cg = cg
    res = {}
    n0 = c0 = 0
    try:
        with settings_ctx(st), warnings.catch_warnings(record=True) as w:
            warnings.simplefilter("always")
            try:
                if spec["cls"] == "Derived":
                    # a HISTORY: a query on the parent (fills its caches), then a public derivation, then the solve on the
                    # derived operator; `fresh` = the same derivation of a parent that was never queried
                    parent = ops.build(spec["base"])
                    try:
                        run_query(parent, spec["query"])
                    except Exception as ex:  # noqa  (a failing query is not C04's business)
                        res["query_exc"] = "%s: %s" % (type(ex).__name__, str(ex)[:120])
                    op = ops.derive(parent, spec)
                    try:
                        fr = call_solve(ops.build(spec), rhs, left, via)
                        res["fresh"] = fr.detach() if torch.is_tensor(fr) else fr
                    except Exception as ex:  # noqa
                        res["fresh_exc"] = "%s: %s" % (type(ex).__name__, str(ex)[:120])
                else:
                    op = ops.build(spec)
                res["op_class"], res["n_operands"] = type(op).__name__, len(getattr(op, "linear_ops", ()) or ())
                # (building a factor operator runs cholesky(): those events are not part of the solve)
                n0, c0 = len(cap.msgs), len(cgcalls)
                if via == "backward":
                    r = fwd_rhs.clone().requires_grad_(True)
                    fwd = op.solve(r)
                    res["fwd"] = fwd.detach()
                    n1, c1 = len(cap.msgs), len(cgcalls)
                    res["split"] = (n1, c1)
                    fwd.backward(rhs.clone())
                    res["out"] = r.grad.detach() if r.grad is not None else None
                    res["out2"] = res["out"]
                else:
                    out = call_solve(op, rhs, left, via)
                    res["out"] = out.detach() if torch.is_tensor(out) else out
                    # a second solve on the SAME object (cached factors must not change the answer)
                    n1, c1 = len(cap.msgs), len(cgcalls)
                    try:
                        out2 = call_solve(op, rhs, left, via)
                        res["out2"] = out2.detach() if torch.is_tensor(out2) else out2
                    except Exception as ex:  # noqa
                        res["exc2"] = "%s: %s" % (type(ex).__name__, str(ex)[:160])
                    res["split"] = (n1, c1)
            except Exception as ex:  # noqa
                res["exc"] = "%s: %s" % (type(ex).__name__, str(ex)[:160])
            res["warn"] = any("CG terminated" in str(x.message) for x in w)
            res["jitter_warn"] = sorted({str(x.message)[:60] for x in w if "added jitter" in str(x.message)})
            res["otherwarn"] = sorted({type(x.message).__name__ for x in w if "CG terminated" not in str(x.message)})
    finally:
        U.linear_cg = orig_cg
        lg.handlers, lg.propagate = old_handlers, old_prop
    n1, c1 = res.get("split", (len(cap.msgs), len(cgcalls)))
    res["events"] = parse_events(cap.msgs[n0:n1], cgcalls[c0:c1])
    res["events2"] = parse_events(cap.msgs[n1:], cgcalls[c1:])
    return res


# ----------------------------------------------------------------------------------------- grid

def class_configs(quick):
    """(cls, kwargs, n) — deterministic structural grid"""
    C = []
    for n in ([1, 2, 5, 12, 24] if quick else [1, 2, 3, 5, 8, 12, 24, 40]):
        C.append(("Dense", {}, n))
    for n in [4, 9]:
        C.append(("Sum", {}, n))
    for n in [3, 7]:
        C.append(("ConstantMul", {}, n))
    for sizes in [(2, 3), (2, 2)]:
        C.append(("SumKron", {"sizes": sizes}, int(math.prod(sizes))))
    for n in [1, 4, 8]:
        C.append(("Toeplitz", {}, n))
    for n in [3, 6]:
        C.append(("Root", {}, n))
    for n in [2, 6, 20]:
        C.append(("AddedDiag", {}, n))
    for n in [1, 4, 7]:
        C.append(("Diag", {}, n))
    for n in [3, 5]:
        C.append(("ConstantDiag", {}, n))
    for n in [1, 4]:
        C.append(("Identity", {}, n))
    for up in (False, True):
        for n in [1, 3, 6]:
            C.append(("Chol", {"upper": up}, n))
            C.append(("Tri", {"upper": up}, n))
        C.append(("CholInverse", {"upper": up}, 3))
        C.append(("CholDiag", {"upper": up}, 4))            # Chol over a Diag root: DiagLinearOperator._cholesky_solve
        C.append(("TriPlusDiag", {"upper": up}, 3))
        C.append(("TriRepeat", {"upper": up, "rep": (2,)}, 3))      # Triangular over a BatchRepeat base
    for sizes in [(2, 3), (3, 2), (2, 2, 2), (1, 3), (4, 3)]:
        C.append(("Kron", {"sizes": sizes}, int(math.prod(sizes))))
    C.append(("Kron", {"sizes": (2, 3), "fcls": ["Dense", "Diag"]}, 6))
    C.append(("Kron", {"sizes": (3, 2), "fcls": ["Diag", "Toeplitz"]}, 6))
    C.append(("Kron", {"sizes": (2, 2), "fcls": ["Chol", "Dense"], "fkw": {"upper": False}}, 4))
    # factors of the special classes (Identity, ConstantDiag, Diag) in EVERY position
    for sizes, fcls in [((2, 3), ["Identity", "Dense"]), ((3, 2), ["Dense", "Identity"]), ((2, 2, 2), ["Dense", "Identity", "Dense"]),
                        ((2, 3), ["ConstantDiag", "Dense"]), ((3, 2), ["Dense", "ConstantDiag"]), ((2, 2, 2), ["Identity", "Dense", "Diag"]),
                        ((2, 3), ["Identity", "Identity"]), ((2, 2, 2), ["Dense", "Dense", "Identity"])]:
        C.append(("Kron", {"sizes": sizes, "fcls": fcls}, int(math.prod(sizes))))
    C.append(("KronAddedDiag", {"sizes": (2, 3), "dk": "const", "fcls": ["Identity", "Dense"]}, 6))
    C.append(("KronAddedDiag", {"sizes": (3, 2), "dk": "const", "fcls": ["Dense", "Identity"]}, 6))
    C.append(("KronAddedDiag", {"sizes": (2, 3), "dk": "general", "fcls": ["Dense", "Diag"]}, 6))
    C.append(("SumKron", {"sizes": (2, 3), "fcls1": ["Identity", "Dense"]}, 6))
    C.append(("SumKron", {"sizes": (3, 2), "fcls2": ["Dense", "Identity"]}, 6))
    C.append(("SumKron", {"sizes": (2, 3), "fcls1": ["Dense", "Diag"], "fcls2": ["ConstantDiag", "Dense"]}, 6))
    # Cholesky-factor operators after a public rewrite (scalar multiple, + Diag, add_diagonal): the triangular factor wraps
    # non-dense data and TriangularLinearOperator._cholesky_solve takes its fall-back; both orientations
    for up in (False, True):
        for rw in ("mul", "adddiag", "add_diagonal"):
            C.append(("CholRw", {"upper": up, "rw": rw}, 3 if rw != "mul" else 4))
    for sizes in [(2, 3), (3, 3), (2, 2, 2)]:
        C.append(("KronAddedDiag", {"sizes": sizes, "dk": "const"}, int(math.prod(sizes))))
    C.append(("KronAddedDiag", {"sizes": (2, 3), "dk": "general"}, 6))
    # Kronecker-structured diagonal (KroneckerProductDiagLinearOperator with one factor per Kronecker factor): every factor a
    # ConstantDiag ("kconst": eigen-decomposition of the K_i re-used) / general Diag factors ("kdiag": symmetrised factors)
    for sizes in [(2, 3), (2, 2, 2)]:
        C.append(("KronAddedDiag", {"sizes": sizes, "dk": "kconst"}, int(math.prod(sizes))))
    for sizes in [(3, 2), (2, 2, 2), (1, 3)]:
        C.append(("KronAddedDiag", {"sizes": sizes, "dk": "kdiag"}, int(math.prod(sizes))))
    for n, k in [(5, 2), (8, 3), (4, 1), (3, 3)]:
        C.append(("LowRankRootAddedDiag", {"rank": k}, n))
    for k, m in [(2, 3), (3, 2), (1, 4), (4, 1)]:
        C.append(("BlockDiag", {"blocks": k}, m))
        C.append(("BlockInterleaved", {"blocks": k}, m))
    # (BlockDiag / BlockInterleaved of a DiagLinearOperator is constructed as a DiagLinearOperator: no separate cell)
    C.append(("BlockDiag", {"blocks": 2, "base": "Chol", "base_kw": {"upper": True}}, 3))
    C.append(("BlockInterleaved", {"blocks": 2, "base": "Chol", "base_kw": {"upper": False}}, 2))
    for rep, n in [((2,), 3), ((3,), 5)]:
        C.append(("BatchRepeat", {"rep": rep}, n))
    for n in [4, 6]:
        C.append(("Permutation", {}, n))
    return C


OWN_SOLVE = {"Diag", "ConstantDiag", "Identity", "Chol", "CholInverse", "CholDiag", "Tri", "TriPlusDiag", "TriRepeat", "LowRankRootAddedDiag",
             "CholOf", "FactorTri", "CholRw"}
NOT_SYMMETRIC = {"Tri", "TriPlusDiag", "TriRepeat", "FactorTri", "Permutation", "CholInverse"}
NOT_PD_NEEDS_BRANCH3 = {"Permutation"}
RHS_KINDS = ["vec", "mat", "bat", "bcast", "left", "leftvec", "leftbat"]
KAPPAS = [1e0, 1e2, 1e4, 1e6]


def total_size(cls, kw, n):
    if cls in ("BlockDiag", "BlockInterleaved"):
        return n * kw["blocks"]
    if cls in ("CholOf", "FactorTri", "Derived"):
        return total_size(kw["base"], kw.get("base_kw", {}), n)
    return n          # (Compose: n is the size of the composed operator)


RHS_MODS = ["zerocol", "zeromember", "allzero", "scales"]


def make_rhs(rng, kind, N, obatch, rhsmod=None):
    """rhs, left, for operator matrix size N and operator batch obatch.
    rhsmod: structure of the right-hand side - "zerocol" (one identically-zero column next to ordinary ones),
    "zeromember" (one all-zero batch member), "allzero" (= A times the solver's initial guess 0), "scales" (columns
    whose norms differ by 1e8)"""
    ob = list(obatch)
    c = rng.choice([1, 2, 3]) if rhsmod not in ("zerocol", "scales") else rng.choice([2, 3])
    o = rng.choice([1, 2, 4])
    left = None
    if kind == "vec":
        rhs = ops._randn(rng, N)
    elif kind == "mat":
        rhs = ops._randn(rng, N, c)
    elif kind == "bat":
        rhs = ops._randn(rng, *(ob if ob else [2]), N, c)
    elif kind == "bcast":
        rhs = ops._randn(rng, 3, *([1] * len(ob)), N, c) if ob else ops._randn(rng, 3, N, c)
    elif kind == "left":
        rhs = ops._randn(rng, N, c)
        left = ops._randn(rng, o, N)
    elif kind == "leftvec":
        rhs = ops._randn(rng, N)
        left = ops._randn(rng, o, N)
    elif kind == "leftbat":
        rhs = ops._randn(rng, *ob, N, c)
        left = ops._randn(rng, *ob, o, N)
    else:
        raise ValueError(kind)
    # scale columns differently (a missed per-column normalisation shows up)
    if rhs.dim() >= 2:
        span = 4 if rhsmod == "scales" else 1
        rhs = rhs * torch.tensor([10.0 ** (span * (j - 1)) for j in range(rhs.shape[-1])], dtype=F64)
    if rhsmod == "zerocol":
        rhs[..., rng.randrange(rhs.shape[-1])] = 0.0
    elif rhsmod == "zeromember":
        assert rhs.dim() >= 3
        rhs[rng.randrange(rhs.shape[0])] = 0.0
    elif rhsmod == "allzero":
        rhs = torch.zeros_like(rhs)
    return rhs, left


class _Wide:
    """the same run context at thorough width (used by the search after a broken proof obligation)"""

    def __init__(self, ctx):
        self.seed, self.quick = ctx.seed, False


def cells(ctx):
    """the deterministic grid of structural cells; the seed picks values and, in the quick tier, which
    settings rows / kappas represent a cell"""
    rng = random.Random(ctx.seed)
    rows = covering_rows()
    d = defaults()
    out = []
    configs = class_configs(ctx.quick)
    for ci, (cls, kw, n) in enumerate(configs):
        N = total_size(cls, kw, n)
        for ob in ([(), (2,)] if ctx.quick else [(), (2,), (2, 1)]):
            if cls in ("BatchRepeat", "TriRepeat") and ob:
                continue
            for ki, kind in enumerate(RHS_KINDS):
                if cls == "BatchRepeat" and kind in ("bcast",):
                    continue
                # settings rows for this cell
                if ctx.quick:
                    k_rows = [rows[(ci * 7 + ki * 3 + len(ob) + rng.randrange(len(rows))) % len(rows)]]
                    if kind in ("mat", "left"):
                        k_rows.append(rows[rng.randrange(len(rows))])
                else:
                    k_rows = [rows[(ci + ki + j * 5) % len(rows)] for j in range(4)]
                # threshold rows: max_cholesky_size just below / at the size (off-by-one in `<=`)
                extra = []
                if cls not in OWN_SOLVE and kind in ("mat", "vec") and not ob:
                    for mcs in (N - 1, N):
                        if mcs >= 0:
                            extra.append(dict(mcs=mcs, fast=True, cgtol=d["cgtol"], maxit=d["maxit"], mps=d["mps"], minps=d["minps"], memeff=False))
                # Kronecker-structured diagonal: the structured branch is taken for N > max_cholesky_size; the "kconst" branch
                # diagonalises every factor with LinearOperator.diagonalization(), which is exact (symeig) only for factors of
                # size <= max_cholesky_size: a row between the largest factor and N
                if cls == "KronAddedDiag" and kw.get("dk") in ("kconst", "kdiag") and max(kw["sizes"]) < N:
                    extra.append(dict(mcs=max(kw["sizes"]), fast=True, cgtol=d["cgtol"], maxit=d["maxit"], mps=d["mps"], minps=d["minps"],
                                      memeff=bool(ki % 2)))
                # preconditioner guard thresholds (AddedDiag): n < min_preconditioning_size, max_preconditioner_size == 0
                if cls == "AddedDiag" and kind == "mat":
                    for minps, mps in ((N, 5), (N + 1, 5), (N, 0), (0, 1), (0, N + 3)):
                        extra.append(dict(mcs=0, fast=True, cgtol=1e-2, maxit=d["maxit"], mps=mps, minps=minps, memeff=False))
                for st in k_rows + extra:
                    st = dict(st)
                    if cls in NOT_PD_NEEDS_BRANCH3:
                        st["mcs"], st["fast"] = 0, True        # not PD: only the structured branch is in scope
                    kappa = KAPPAS[rng.randrange(len(KAPPAS))] if ctx.quick else None
                    for kp in ([kappa] if ctx.quick else KAPPAS):
                        if N == 1 and kp != 1e0 and ctx.quick:
                            kp = 1e0
                        out.append(dict(cls=cls, kw=kw, n=n, N=N, ob=ob, kind=kind, st=st, kappa=kp, dtype="f64"))
    # float32 operators (direct methods and the eigen-shift; the model runs in binary64 on the binary32 inputs, tolerance 2e-3)
    f32 = [c for c in configs if (c[0], c[2]) in {("Dense", 5), ("Sum", 4), ("AddedDiag", 6), ("Diag", 4), ("ConstantDiag", 3),
                                                 ("Identity", 4), ("Chol", 3), ("Tri", 3), ("LowRankRootAddedDiag", 5),
                                                 ("BatchRepeat", 3)}
           or (c[0] == "Kron" and c[1].get("sizes") == (2, 3) and "fcls" not in c[1])
           or (c[0] == "KronAddedDiag" and c[1].get("sizes") == (2, 3) and c[1]["dk"] == "const")
           or (c[0] in ("BlockDiag", "BlockInterleaved") and c[1].get("blocks") == 2 and "base" not in c[1])]
    for ci, (cls, kw, n) in enumerate(f32):
        N = total_size(cls, kw, n)
        for ki, kind in enumerate(["vec", "mat", "left", "bat"] if not ctx.quick else ["mat", "left"]):
            for j in range(1 if ctx.quick else 3):
                st = dict(rows[(ci * 3 + ki + j * 7 + rng.randrange(len(rows))) % len(rows)])
                st["mcs"] = 0 if (cls == "KronAddedDiag" and j % 2 == 0) else d["mcs"]
                for kp in ([KAPPAS[rng.randrange(2)]] if ctx.quick else KAPPAS[:2]):
                    out.append(dict(cls=cls, kw=kw, n=n, N=N, ob=(), kind=kind, st=st, kappa=kp, dtype="f32"))
    out += family_cells(ctx, rng, configs)
    return out


# ---- input families beyond (class x settings x rhs kind): every one is enumerated deterministically --------------
# (a) solves routed through FACTOR operators: op.cholesky(upper=u) of every PD constructor, wrapped the way the library
#     wraps it (CholLinearOperator(F, upper=u): .solve -> F._cholesky_solve(rhs, upper=u)) and solved as the triangular
#     system it is (F.solve)
# (b) batches whose members differ in conditioning (one numerically singular member makes psd_safe_cholesky's jitter loop
#     run for the batch; the others must be solved as if they were alone)
# (c) right-hand sides with structure (zero column, zero batch member, all zero = A x initial guess, columns of very
#     different norm) on every path, through every public entry point, and through the backward pass

FACTOR_BASES = [
    ("Dense", {}, 5), ("Dense", {}, 1), ("Dense", {}, 12), ("Sum", {}, 4), ("SumKron", {"sizes": (2, 3)}, 6), ("ConstantMul", {}, 3),
    ("Toeplitz", {}, 4), ("Root", {}, 3), ("AddedDiag", {}, 6), ("Diag", {}, 4), ("ConstantDiag", {}, 3), ("Identity", {}, 4),
    ("Chol", {"upper": False}, 3), ("Chol", {"upper": True}, 3), ("CholDiag", {"upper": True}, 4),
    ("Kron", {"sizes": (2, 3)}, 6), ("Kron", {"sizes": (2, 2, 2)}, 8), ("Kron", {"sizes": (2, 3), "fcls": ["Dense", "Diag"]}, 6),
    ("Kron", {"sizes": (3, 2), "fcls": ["Diag", "Toeplitz"]}, 6), ("Kron", {"sizes": (2, 2), "fcls": ["Chol", "Dense"], "fkw": {"upper": False}}, 4),
    ("KronAddedDiag", {"sizes": (2, 3), "dk": "const"}, 6), ("KronAddedDiag", {"sizes": (2, 3), "dk": "general"}, 6),
    ("LowRankRootAddedDiag", {"rank": 2}, 5),
    ("BlockDiag", {"blocks": 2}, 3), ("BlockDiag", {"blocks": 3}, 2), ("BlockDiag", {"blocks": 1}, 4), ("BlockDiag", {"blocks": 4}, 1),
    ("BlockInterleaved", {"blocks": 2}, 3), ("BlockInterleaved", {"blocks": 3}, 2), ("BlockInterleaved", {"blocks": 1}, 4),
    ("BlockInterleaved", {"blocks": 4}, 1),
    ("BlockDiag", {"blocks": 2, "base": "Chol", "base_kw": {"upper": True}}, 3),
    ("BlockInterleaved", {"blocks": 2, "base": "Chol", "base_kw": {"upper": False}}, 2),
    ("BatchRepeat", {"rep": (2,)}, 3),
]
NOT_A_FACTOR_BASE = {"Tri", "TriPlusDiag", "TriRepeat", "Permutation", "CholInverse"}       # not PD / listed defect

JITTER_CLASSES = [
    ("Dense", {}, 5), ("Dense", {}, 12), ("Sum", {}, 4), ("ConstantMul", {}, 3), ("Kron", {"sizes": (3, 2)}, 6),
    ("BlockDiag", {"blocks": 2}, 3), ("BlockInterleaved", {"blocks": 3}, 2),
    ("CholOf", {"base": "Dense", "upper": False}, 5), ("CholOf", {"base": "Dense", "upper": True}, 5),
    ("CholOf", {"base": "BlockDiag", "base_kw": {"blocks": 2}, "upper": True}, 3),
]
PROFILES = [["sing1", "small"], ["small7", "sing1"], ["sing2", "ok", "small"], ["ok", "small"]]

RHS_CONFIGS = [
    ("Dense", {}, 12), ("Dense", {}, 5), ("Sum", {}, 4), ("ConstantMul", {}, 7), ("Toeplitz", {}, 8), ("Root", {}, 6),
    ("AddedDiag", {}, 20), ("AddedDiag", {}, 6), ("Diag", {}, 4), ("ConstantDiag", {}, 3), ("Identity", {}, 4),
    ("Chol", {"upper": False}, 3), ("Chol", {"upper": True}, 3), ("Tri", {"upper": False}, 3), ("Tri", {"upper": True}, 3),
    ("CholDiag", {"upper": False}, 4), ("Kron", {"sizes": (2, 3)}, 6), ("Kron", {"sizes": (2, 2, 2)}, 8),
    ("Kron", {"sizes": (2, 3), "fcls": ["Dense", "Diag"]}, 6), ("KronAddedDiag", {"sizes": (2, 3), "dk": "const"}, 6),
    ("KronAddedDiag", {"sizes": (2, 3), "dk": "general"}, 6), ("KronAddedDiag", {"sizes": (2, 3), "dk": "kdiag"}, 6),
    ("LowRankRootAddedDiag", {"rank": 2}, 5),
    ("BlockDiag", {"blocks": 2}, 3), ("BlockInterleaved", {"blocks": 3}, 2), ("BatchRepeat", {"rep": (2,)}, 3), ("Permutation", {}, 4),
    ("CholOf", {"base": "Dense", "upper": True}, 5), ("CholOf", {"base": "BlockDiag", "base_kw": {"blocks": 2}, "upper": True}, 3),
]


def family_cells(ctx, rng, configs):
    d = defaults()
    base = dict(mcs=d["mcs"], fast=True, cgtol=d["cgtol"], maxit=d["maxit"], mps=d["mps"], minps=d["minps"], memeff=False)
    CHOL = dict(base)
    CHOL_OFF = dict(base, mcs=0, fast=False)

    def CG(tol, mps=0, memeff=False):
        return dict(base, mcs=0, cgtol=tol, mps=mps, minps=0, memeff=memeff)
    out = []

    def add(fam, cls, kw, n, ob, kind, st, kappa, **extra):
        N = total_size(cls, kw, n)
        if N == 1:
            kappa = 1e0
        out.append(dict(cls=cls, kw=kw, n=n, N=N, ob=tuple(ob), kind=kind, st=dict(st), kappa=kappa, dtype="f64", fam=fam, **extra))

    # ---------------- (a) factor operators
    bases = list(FACTOR_BASES)
    if not ctx.quick:
        seen = {(c, json.dumps(k, sort_keys=True, default=str), n) for c, k, n in bases}
        for c, k, n in configs:
            if c not in NOT_A_FACTOR_BASE and (c, json.dumps(k, sort_keys=True, default=str), n) not in seen:
                bases.append((c, k, n))
    for bi, (bcls, bkw, n) in enumerate(bases):
        for up in (False, True):
            kw = {"base": bcls, "base_kw": bkw, "upper": up}
            for ob in ((), (2,)):
                if bcls == "BatchRepeat" and ob:
                    continue
                kinds = ["mat", "left", "vec", "leftvec"] if not ob else ["mat", "leftbat", "left", "bcast"]
                if bcls == "BatchRepeat":
                    kinds = ["mat", "left", "vec", "bat", "leftvec"]
                if not ctx.quick:
                    kinds = [k for k in RHS_KINDS if not (bcls == "BatchRepeat" and k == "bcast")]
                for ki, kind in enumerate(kinds):
                    st = [CHOL, CHOL_OFF, CG(1e-2)][(bi + ki + int(up)) % 3]      # (a Chol operator ignores all of them)
                    via = "solve"
                    if kind == "mat" and ob:
                        via = "linalg"
                    if kind == "left" and ob:
                        via = "func"
                    add("factor", "CholOf", kw, n, ob, kind, st, KAPPAS[(bi + ki) % len(KAPPAS)], via=via)
                # the factor as the triangular system it is: F.solve(B[, L])
                if bcls != "BatchRepeat":      # (Triangular over BatchRepeat: covered by TriRepeat and its listed defects)
                    for kind in ((["mat", "left", "vec"] if not ob else ["mat"]) if ctx.quick else ["vec", "mat", "bat", "left"]):
                        add("factor", "FactorTri", kw, n, ob, kind, CHOL, KAPPAS[(bi + int(up)) % len(KAPPAS)], via="solve")

    # ---------------- (b) batches whose members differ in conditioning (Cholesky path)
    # (the ladder jitter * 10^i, i < max_tries: every profile member is decided robustly on it - see c04_ops.PROFILE_SING)
    jit_rows = [dict(CHOL), dict(CHOL_OFF), dict(CHOL, jit_exp=7), dict(CHOL, tries=2), dict(CHOL_OFF, tries=5), dict(CHOL, jit_exp=7, tries=1)]
    j = 0
    for ci, (cls, kw, n) in enumerate(JITTER_CLASSES):
        for pi, prof in enumerate(PROFILES):
            for ki, kind in enumerate(["mat", "bat", "left", "leftbat", "vec"]):
                st = dict(jit_rows[j % len(jit_rows)])
                j += 1
                st.setdefault("jit_exp", d["jit_exp"])
                st.setdefault("tries", d["tries"])
                add("jitter", cls, dict(kw, profile=prof), n, (len(prof),), kind, st, 1e0, via="solve", profile=prof)

    # ---------------- (c) right-hand sides with structure
    for ci, (cls, kw, n) in enumerate(RHS_CONFIGS):
        own = cls in OWN_SOLVE
        for mi, mod in enumerate(RHS_MODS):
            if mod == "zerocol":
                variants = [((), "mat"), ((2,), "bat"), ((), "left")]
            elif mod == "zeromember":
                variants = [((), "bat"), ((2,), "bat")]
            elif mod == "allzero":
                variants = [((), "mat"), ((), "vec")]
            else:
                variants = [((), "mat"), ((2,), "leftbat")]
            for vi, (ob, kind) in enumerate(variants):
                if cls == "BatchRepeat" and ob:
                    continue
                tol = [1e-2, 1e-4][(ci + mi + vi) % 2]
                paths = [CHOL] if own else [CHOL if (ci + vi) % 2 else CHOL_OFF, CG(tol, memeff=bool((ci + mi) % 2))]
                if cls == "AddedDiag":
                    paths.append(CG(tol, mps=5))
                if cls == "Permutation":
                    paths = [CG(tol)]
                for st in paths:
                    add("rhs", cls, kw, n, ob, kind, st, KAPPAS[(ci + mi) % 3], via="solve", rhsmod=mod)
                    iscg = st["mcs"] == 0 and st["fast"]
                    if mod in ("zerocol", "zeromember") and vi == 0 and (iscg or own):
                        # the other public entry points, and the backward pass (gradient with respect to the right-hand side
                        # when the upstream gradient has this structure)
                        add("rhs", cls, kw, n, ob, kind, st, KAPPAS[(ci + mi) % 3], via="linalg", rhsmod=mod)
                        add("rhs", cls, kw, n, ob, kind, st, KAPPAS[(ci + mi) % 3], via="func", rhsmod=mod)
                        if cls not in NOT_SYMMETRIC and not (cls == "BatchRepeat" and kind == "mat"):
                            add("rhs", cls, kw, n, ob, kind, st, KAPPAS[(ci + mi) % 3], via="backward", rhsmod=mod)
    out += threshold_cells(ctx, d, base, CG)
    out += history_cells(ctx, d, base, CG)
    out += compose_cells(ctx, d, base, CG)
    return out


# (f) operators produced by PUBLIC COMPOSITION (+, *, add_jitter, add_diagonal chains of length 2-3 on the natural operands of every
#     class with a structured solve), whatever class the dispatch returns: solved on the Cholesky route and on the structured / CG route
#     of the SAME operator, against the dense oracle and against each other.  Predicate only; a result of a modelled class that violates
#     the model's arity assumption (SumKron: exactly two products) is flagged.
K23 = ("Kron", {"sizes": (2, 3)}, 6)
KD23 = ("KronDiag", {"sizes": (2, 3)}, 6)
LR6 = ("LowRankRootAddedDiag", {"rank": 2}, 6)
DN6, DG6, CD6 = ("Dense", {}, 6), ("Diag", {}, 6), ("ConstantDiag", {}, 6)
OP = lambda i: ["op", i]            # noqa
ADD = lambda a, b: ["add", a, b]    # noqa
RECIPES = [
    ("K+K", [K23, K23], ADD(OP(0), OP(1)), True),
    ("K+K+K", [K23, K23, K23], ADD(ADD(OP(0), OP(1)), OP(2)), True),
    ("K+(K+K)", [K23, K23, K23], ADD(OP(0), ADD(OP(1), OP(2))), True),
    ("(K+K)+(K+K)", [K23, K23, K23, K23], ADD(ADD(OP(0), OP(1)), ADD(OP(2), OP(3))), True),
    ("(K+K)+Kdiag", [K23, K23, KD23], ADD(ADD(OP(0), OP(1)), OP(2)), True),
    ("(K+K)+Diag", [K23, K23, DG6], ADD(ADD(OP(0), OP(1)), OP(2)), True),
    ("(K+K).add_jitter", [K23, K23], ["jitter", ADD(OP(0), OP(1)), 0.3], True),
    ("(K+K)*c+K", [K23, K23, K23], ADD(["mul", ADD(OP(0), OP(1)), 1.7], OP(2)), True),
    ("K+Kdiag", [K23, KD23], ADD(OP(0), OP(1)), True),
    ("(K+Kdiag)+K", [K23, KD23, K23], ADD(ADD(OP(0), OP(1)), OP(2)), True),
    ("(K+Kdiag)+Kdiag", [K23, KD23, KD23], ADD(ADD(OP(0), OP(1)), OP(2)), True),
    ("(K+Kdiag)+Diag", [K23, KD23, DG6], ADD(ADD(OP(0), OP(1)), OP(2)), True),
    ("K.add_jitter", [K23], ["jitter", OP(0), 0.5], True),
    ("K.add_jitter.add_jitter", [K23], ["jitter", ["jitter", OP(0), 0.5], 0.2], True),
    ("K.add_jitter+K", [K23, K23], ADD(["jitter", OP(0), 0.5], OP(1)), True),
    ("K.add_diagonal", [K23, DG6], ["add_diagonal", OP(0), 1], True),
    ("K+ConstantDiag+ConstantDiag", [K23, CD6, CD6], ADD(ADD(OP(0), OP(1)), OP(2)), True),
    ("K*c+K", [K23, K23], ADD(["mul", OP(0), 2.0], OP(1)), True),
    ("LR+Diag+Diag", [LR6, DG6, DG6], ADD(ADD(OP(0), OP(1)), OP(2)), False),
    ("LR*c+Diag", [LR6, DG6], ADD(["mul", OP(0), 2.0], OP(1)), False),
    ("LR.add_jitter+Diag", [LR6, DG6], ADD(["jitter", OP(0), 0.4], OP(1)), False),
    ("LR+LR", [LR6, LR6], ADD(OP(0), OP(1)), False),
    ("Dense+Dense+Dense", [DN6, DN6, DN6], ADD(ADD(OP(0), OP(1)), OP(2)), False),
    ("Dense+Diag+Diag", [DN6, DG6, DG6], ADD(ADD(OP(0), OP(1)), OP(2)), False),
    ("Dense.add_jitter.add_diagonal", [DN6, DG6], ["add_diagonal", ["jitter", OP(0), 0.1], 1], False),
    ("(Dense+Diag)*c+Dense", [DN6, DG6, DN6], ADD(["mul", ADD(OP(0), OP(1)), 0.5], OP(2)), False),
    ("Diag+Diag+ConstantDiag", [DG6, DG6, CD6], ADD(ADD(OP(0), OP(1)), OP(2)), False),
    ("BlockDiag+Diag", [("BlockDiag", {"blocks": 2}, 3), DG6], ADD(OP(0), OP(1)), False),
    ("Toeplitz+Toeplitz+Diag", [("Toeplitz", {}, 6), ("Toeplitz", {}, 6), DG6], ADD(ADD(OP(0), OP(1)), OP(2)), False),
]


def compose_cells(ctx, d, base, CG):
    out = []
    for ri, (name, parts, expr, kron_like) in enumerate(RECIPES):
        # the structured route: max_cholesky_size between the largest Kronecker factor and N (exact roots / eigen-decompositions), or
        # conjugate gradients at a tight tolerance for the classes without one
        routes = [dict(base), dict(base, mcs=3) if kron_like else dict(CG(1e-4), mps=5)]
        for ob, kind in (((), "mat"), ((), "left"), ((2,), "mat")) if ctx.quick else (((), "mat"), ((), "left"), ((), "vec"), ((2,), "mat"), ((2,), "leftbat")):
            for pi, st in enumerate(routes):
                out.append(dict(cls="Compose", kw={"recipe": name, "parts": parts, "expr": expr}, n=6, N=6, ob=ob, kind=kind, st=dict(st),
                                kappa=KAPPAS[ri % 3], dtype="f64", fam="compose", via="solve",
                                pair="compose/%s/%s/%s" % (name, "b" if ob else "u", kind)))
    return out


# (e) histories.  Classes with ad-hoc caches (LowRankRootAddedDiag chol_cap_mat, AddedDiag preconditioner, Kron / KronAddedDiag
#     eigen-decompositions, cholesky / root caches of every class): a query on the PARENT, then every public derivation, then the
#     solve on the derived operator - against the dense oracle of the derived matrix and against the same derivation of a
#     never-queried parent.
HIST_CONFIGS = [
    ("LowRankRootAddedDiag", {"rank": 2}, 5), ("LowRankRootAddedDiag", {"rank": 1}, 4), ("AddedDiag", {}, 6), ("Dense", {}, 5),
    ("Kron", {"sizes": (2, 3)}, 6), ("KronAddedDiag", {"sizes": (2, 3), "dk": "const"}, 6), ("KronAddedDiag", {"sizes": (3, 2), "dk": "kdiag"}, 6),
    ("SumKron", {"sizes": (2, 3)}, 6), ("BlockDiag", {"blocks": 2}, 3), ("Diag", {}, 4), ("Chol", {"upper": True}, 3),
]
QUERIES = ["solve", "logdet", "inv_quad_logdet"]
DERIVES = ["adddiag", "add_diagonal", "jitter", "mul", "expand", "getitem", "mT"]


def history_cells(ctx, d, base, CG):
    out = []
    for ci, (cls, kw, n) in enumerate(HIST_CONFIGS):
        N = total_size(cls, kw, n)
        ms = max(kw["sizes"]) if "sizes" in kw else N
        paths = [dict(base), dict(base, mcs=ms if ms < N else 0, cgtol=1e-4, mps=5, minps=0)]
        for di, dv in enumerate(DERIVES):
            ob = (2,) if dv == "getitem" else ()
            for qi in range(2 if ctx.quick else 3):
                q = QUERIES[(ci + di + qi) % 3]
                st = paths[(di + qi) % 2]
                for kind in (("mat",) if ctx.quick else ("mat", "left")):
                    out.append(dict(cls="Derived", kw={"base": cls, "base_kw": kw, "derive": dv, "query": q}, n=n, N=N, ob=ob, kind=kind,
                                    st=dict(st), kappa=KAPPAS[(ci + di) % 3], dtype="f64", fam="history", via="solve"))
    return out


# (d) size thresholds and precision settings.  Every size-valued setting a solve path reads gets operator / factor sizes on BOTH
#     sides, by LOWERING the setting to the quick-tier sizes: max_cholesky_size (selector; the root method of
#     root_inv_decomposition(); the eigen method of diagonalization()), max_root_decomposition_size (Lanczos budget: must NOT
#     change an exact root), max_cg_iterations / max_lanczos_quadrature_iterations (CG), min_preconditioning_size /
#     max_preconditioner_size (AddedDiag rows of the class grid); and linalg_dtypes with each single argument on float64 and
#     float32 operators, on the eigen-structured AND the Cholesky path of the same operator.
THRESHOLD_CONFIGS = [
    ("SumKron", {"sizes": (2, 3)}, 6), ("SumKron", {"sizes": (3, 2)}, 6), ("SumKron", {"sizes": (2, 2, 2)}, 8),
    ("KronAddedDiag", {"sizes": (2, 3), "dk": "const"}, 6), ("KronAddedDiag", {"sizes": (2, 2, 2), "dk": "const"}, 8),
    ("KronAddedDiag", {"sizes": (2, 3), "dk": "kconst"}, 6), ("KronAddedDiag", {"sizes": (3, 2), "dk": "kdiag"}, 6),
    ("KronAddedDiag", {"sizes": (2, 3), "dk": "general"}, 6),
    ("Kron", {"sizes": (2, 3)}, 6), ("Kron", {"sizes": (2, 2, 2)}, 8), ("Kron", {"sizes": (2, 3), "fcls": ["Dense", "Diag"]}, 6),
    ("LowRankRootAddedDiag", {"rank": 2}, 5), ("Dense", {}, 5), ("AddedDiag", {}, 6), ("Root", {}, 6),
    ("BlockDiag", {"blocks": 2}, 3), ("BatchRepeat", {"rep": (2,)}, 3),
]
PRECISION_CONFIGS = [
    ("KronAddedDiag", {"sizes": (2, 3), "dk": "const"}, 6), ("KronAddedDiag", {"sizes": (2, 3), "dk": "kconst"}, 6),
    ("KronAddedDiag", {"sizes": (3, 2), "dk": "kdiag"}, 6), ("SumKron", {"sizes": (2, 3)}, 6),
    ("Kron", {"sizes": (2, 3)}, 6), ("Dense", {}, 5), ("LowRankRootAddedDiag", {"rank": 2}, 5),
]
LDTS = [("default", "f32"), ("cholesky", "f32"), ("symeig", "f32"), ("default", "f64"), ("symeig", "f64"), ("cholesky", "f64")]


def threshold_cells(ctx, d, base, CG):
    out = []

    def add(fam, cls, kw, n, ob, kind, st, kappa, dtype="f64"):
        N = total_size(cls, kw, n)
        out.append(dict(cls=cls, kw=kw, n=n, N=N, ob=tuple(ob), kind=kind, st=dict(st), kappa=kappa, dtype=dtype, fam=fam, via="solve"))

    for ci, (cls, kw, n) in enumerate(THRESHOLD_CONFIGS):
        N = total_size(cls, kw, n)
        ms = max(kw["sizes"]) if "sizes" in kw else N          # the largest factor (what root / eigen methods are chosen by)
        mcs_vals = sorted({v for v in (ms - 1, ms, N - 1, N) if v >= 1})
        rows = []
        for i, mcs in enumerate(mcs_vals):
            # max_root_decomposition_size below and above the factor size, alternating with the threshold
            for mrds in ((1, N + 3) if i % 2 == 0 else (max(1, ms - 1), ms)):
                rows.append(dict(base, mcs=mcs, mrds=mrds))
        # conjugate gradients: iteration budget below / above the size, with the Lanczos-quadrature bound below / at it
        if cls in ("Dense", "AddedDiag", "Root", "KronAddedDiag", "BatchRepeat") and kw.get("dk", "general") == "general":
            rows.append(dict(CG(1e-4), maxit=3, mlq=2))
            rows.append(dict(CG(1e-4), maxit=N + 5, mlq=N + 5))
            rows.append(dict(CG(1e-2), maxit=N + 5, mlq=2))
        for ri, st in enumerate(rows):
            variants = [((), "mat"), ((), "left"), ((2,), "bat")]
            if cls == "BatchRepeat":
                variants = [((), "mat"), ((), "left")]
            for ob, kind in (variants if ctx.quick else variants + [((2,), "leftbat"), ((), "vec")]):
                add("threshold", cls, kw, n, ob, kind, st, KAPPAS[(ci + ri) % 3])

    for ci, (cls, kw, n) in enumerate(PRECISION_CONFIGS):
        N = total_size(cls, kw, n)
        ms = max(kw["sizes"]) if "sizes" in kw else N
        for li, ldt in enumerate(LDTS):
            # the structured path (threshold between the largest factor and N) and the Cholesky path of the SAME operator
            for pi, st0 in enumerate([dict(base, mcs=ms if ms < N else 0), dict(base)]):
                st = dict(st0, ldt=list(ldt))
                for dtype in ("f64", "f32"):
                    if dtype == "f32" and st["mcs"] == 0 and cls in ("Dense", "Kron"):
                        continue                      # (CG in float32 is not in the quantifier)
                    for kind in ("mat", "left"):
                        add("precision", cls, kw, n, (), kind, st, KAPPAS[(ci + li) % 2], dtype)
                        out[-1]["pair"] = "precision/%d/%s=%s/%s/%s" % (ci, ldt[0], ldt[1], dtype, kind)
    return out


# ----------------------------------------------------------------------------------------- oracle / predicate

def expected_shape(spec, rhs, left):
    ob = ops.batch(spec)
    N = ops.size(spec)
    if rhs.dim() == 1:
        rb, tail = [], []
        c = None
    else:
        rb, c = list(rhs.shape[:-2]), rhs.shape[-1]
    shapes = [torch.Size(ob), torch.Size(rb)]
    if left is not None:
        shapes.append(left.shape[:-2])
    bb = list(torch.broadcast_shapes(*shapes))
    rows = N if left is None else left.shape[-2]
    return bb + [rows] + ([] if c is None else [c]), bb


def reference(spec, rhs, left):
    A = ops.dense(spec)
    r = rhs.unsqueeze(-1) if rhs.dim() == 1 else rhs
    # expand explicitly: torch.linalg.solve reads a (b, n) right-hand side next to a (b, n, n) matrix as a batch of VECTORS
    bb = torch.broadcast_shapes(A.shape[:-2], r.shape[:-2])
    x = torch.linalg.solve(A.expand(*bb, *A.shape[-2:]), r.expand(*bb, *r.shape[-2:]))
    if left is not None:
        x = left @ x
    if rhs.dim() == 1:
        x = x.squeeze(-1)
    return x


def value_tol(kappa, dtype="f64"):
    if dtype == "f32":
        return 2e-3
    if kappa > 1e6:
        return 1e-6          # (two backward-stable algorithms differ by O(kappa * eps))
    return 1e-9 if kappa <= 1e4 else 1e-7


def cell_tol(cell, events):
    """value tolerance of a cell: that of the operator's dtype, except that an eigen-structured method under
    linalg_dtypes(symeig = float32) is specified to compute in float32"""
    dt = cell.get("dtype", "f64")
    if dt != "f32" and coarse_method(events) == "eig" and linalg_single(cell["st"])[0]:
        dt = "f32"
    return value_tol(cell["kappa"], dt)


SING_TOL = 1e-3      # model-vs-implementation tolerance for a numerically singular member (cond(A + jitter I) ~ 1e8); the
#                      property itself says nothing about such a member


def member_kappas(cell):
    """cells of family (b): per batch member the condition number, None for a numerically singular member"""
    extra = 1.0
    if cell["cls"] == "Kron":
        extra = 10.0 ** (len(cell["kw"]["sizes"]) - 1)
    return [ops.PROFILE_KAPPA[t] * extra if t in ops.PROFILE_KAPPA else None for t in cell["profile"]]


def coarse_method(events):
    if any(e[0] == "cg" for e in events):
        return "cg"
    if any(e[0] == "eig" for e in events):
        return "eig"
    if any(e[0] == "chol" for e in events):
        return "cholesky"
    return "direct"


def predicate(cell, spec, rhs, left, obs):
    """the property evaluated directly on the implementation's output. returns None or (fail_kind, detail)"""
    if "exc" in obs:
        return ("raises", obs["exc"])
    out = obs["out"]
    eshape, bb = expected_shape(spec, rhs, left)
    if not torch.is_tensor(out):
        return ("type", str(type(out)))
    if list(out.shape) != eshape:
        return ("shape", "got %s expected %s" % (list(out.shape), eshape))
    if out.dtype != (torch.float32 if cell.get("dtype") == "f32" else F64):
        return ("dtype", str(out.dtype))
    out = out.to(F64)
    obs = dict(obs, out=out, out2=(obs["out2"].to(F64) if torch.is_tensor(obs.get("out2")) else obs.get("out2")))
    if not torch.isfinite(out).all():
        return ("nonfinite", "")
    if "exc2" in obs:
        return ("raises", "second solve on the same object: " + obs["exc2"])
    out2 = obs.get("out2")
    if not torch.is_tensor(out2) or out2.shape != out.shape or \
            (out2 - out).abs().max().item() > cell_tol(cell, obs["events"]) * max(1.0, out.abs().max().item()):
        return ("repeat", "a second solve on the same object returns a different answer")
    if obs.get("op_class") == "SumKroneckerLinearOperator" and obs.get("n_operands") != 2:
        # the modelled class (DSumKron fs1 fs2: wfpd) and the library's structured _solve / _logdet / roots are the TWO-product identity
        return ("model-arity", "public composition produced a SumKroneckerLinearOperator with %d operands; the class's structured solve "
                               "(and the model: DSumKron fs1 fs2) is defined for exactly two Kronecker products" % obs["n_operands"])
    if spec["cls"] == "Derived" and not any(e[0] == "cg" for e in obs["events"]):
        # the derived operator must answer like the same derivation of a never-queried parent
        if "fresh_exc" in obs:
            return ("history", "the derivation of a fresh parent raises: " + obs["fresh_exc"])
        fr = obs["fresh"].to(F64)
        dd = (out - fr).abs().max().item() / max(1.0, fr.abs().max().item()) if fr.shape == out.shape else float("inf")
        if not dd <= 2 * cell_tol(cell, obs["events"]):
            return ("history", "solve on the operator derived AFTER a %s on its parent differs from the same derivation of a fresh "
                               "parent by %.3e" % (spec["query"], dd))
    if "fwd" in obs:
        # backward pass: the forward result is judged too (value on direct paths)
        fr = reference(spec, cell["fwd_rhs"], None)
        if obs["fwd"].shape != fr.shape:
            return ("shape", "forward result %s expected %s" % (list(obs["fwd"].shape), list(fr.shape)))
        if not any(e[0] == "cg" for e in obs["events"]):
            err = (obs["fwd"].to(F64) - fr).abs().max().item() / max(1.0, fr.abs().max().item())
            if err > value_tol(cell["kappa"]):
                return ("value", "forward solve before the backward pass: max rel err %.3e" % err)
    if cell.get("profile"):
        # members of different conditioning: every PD member is judged on its own against a dense solve of that member
        # alone, with the tolerance of ITS condition number
        A = ops.dense(spec)
        for i, kp in enumerate(member_kappas(cell)):
            if kp is None:
                continue
            r_i = rhs if rhs.dim() <= 2 else rhs[i]
            l_i = None if left is None else (left if left.dim() <= 2 else left[i])
            x = torch.linalg.solve(A[i], r_i.unsqueeze(-1) if r_i.dim() == 1 else r_i)
            if l_i is not None:
                x = l_i @ x
            if r_i.dim() == 1:
                x = x.squeeze(-1)
            err = (out[i] - x).abs().max().item() / max(1.0, x.abs().max().item())
            if err > value_tol(kp):
                return ("value", "batch member %d (cond %.0e, PD) solved next to a numerically singular member: max rel err %.3e > %.1e"
                        % (i, kp, err, value_tol(kp)))
        return None
    ref = reference(spec, rhs, left)
    cgs = [e for e in obs["events"] if e[0] == "cg"]
    if not cgs:
        err = (out - ref).abs().max().item() / max(1.0, ref.abs().max().item())
        tol = cell_tol(cell, obs["events"])
        if err > tol:
            return ("value", "max rel err %.3e > %.1e" % (err, tol))
        return None
    if obs["warn"]:
        return None          # the solver said loudly that it did not reach the tolerance
    tol = cell["st"]["cgtol"] * 1.001 + 1e-7
    A = ops.dense(spec)
    if left is None:
        r = rhs.unsqueeze(-1) if rhs.dim() == 1 else rhs
        x = out.unsqueeze(-1) if rhs.dim() == 1 else out
        bnorm = r.expand(*bb, *r.shape[-2:]).norm(dim=-2)
        res = (r - A @ x).norm(dim=-2)
        rel = torch.where(bnorm < 1e-10, torch.zeros_like(res), res / bnorm.clamp_min(1e-300))
        if rel.mean().item() > tol:
            return ("residual", "mean relative residual %.3e > %.3e" % (rel.mean().item(), tol))
        return None
    # with a left factor only L A^-1 B is observable: bound from the residual rule over o + c columns
    r = rhs.unsqueeze(-1) if rhs.dim() == 1 else rhs
    ncols = r.shape[-1] + left.shape[-2]
    nb = int(math.prod(bb)) if bb else 1
    ainv = torch.linalg.matrix_norm(torch.linalg.inv(A), 2).max().item()
    lnorm = torch.linalg.matrix_norm(left, 2).max().item()
    bmax = r.norm(dim=-2).max().item()
    bound = lnorm * ainv * bmax * tol * ncols * nb
    o = out.unsqueeze(-1) if rhs.dim() == 1 else out
    rf = ref.unsqueeze(-1) if rhs.dim() == 1 else ref
    err = (o - rf).norm(dim=-2).max().item()
    if err > bound * 1.01 + 1e-9:
        return ("residual", "left-factor error %.3e exceeds residual bound %.3e" % (err, bound))
    return None


# ----------------------------------------------------------------------------------------- Coq cases

def event_lit(e):
    if e[0] == "chol":
        return "(EChol %s)" % ops.nat_list(e[1])
    if e[0] == "cg":
        return "(ECG %s %s %d%%N)" % (common.coq_bool(bool(e[1])), ops.nat_list(e[2]), e[3])
    if e[0] == "eig":
        return "(EEig %s)" % ops.nat_list(e[1])
    if e[0] == "pivchol":
        return "(EPivChol %s %d%%N)" % (ops.nat_list(e[1]), e[2])
    return "(EEig [:: 999999%N])"       # an event the model never predicts


def settings_lit(st):
    d = defaults()
    sym32, chol32 = linalg_single(st)
    return "(MkSettings %d%%N %s %d%%N %d%%N %d%%N %s false %d%%N %d%%N %d%%N %s %s)" % (
        st["mcs"], common.coq_bool(st["fast"]), st["maxit"], st["mps"], st["minps"], common.coq_bool(st["memeff"]),
        st.get("jit_exp", d["jit_exp"]), st.get("tries", d["tries"]), st.get("mrds", d["mrds"]),
        common.coq_bool(sym32), common.coq_bool(chol32))


def linalg_single(st):
    """(symeig dtype is float32, cholesky dtype is float32) as DOCUMENTED for linalg_dtypes(default=double, symeig=None, cholesky=None):
    an argument that is not given takes the value of `default` (not read back from the library: independent specification)"""
    ldt = st.get("ldt")
    if not ldt:
        return False, False
    arg, dt = ldt
    single = dt == "f32"
    if arg == "default":
        return single, single
    if arg == "symeig":
        return single, False
    return False, single


def case_lit(cell, spec, rhs, left, obs):
    out = obs["out"].to(F64)
    eshape, bb = expected_shape(spec, rhs, left)
    ob = ops.batch(spec)
    vec = rhs.dim() == 1
    r = rhs.unsqueeze(-1) if vec else rhs
    rb = list(r.shape[:-2])
    o = out.unsqueeze(-1) if vec else out
    rr = r.expand(*bb, *r.shape[-2:])
    oo = o.expand(*bb, *o.shape[-2:])
    ll = left.expand(*bb, *left.shape[-2:]) if left is not None else None
    mems = []
    mk = member_kappas(cell) if cell.get("profile") else None
    for idx in itertools.product(*[range(s) for s in bb]):
        mtol = "None"
        if mk is not None:      # per-member tolerance: the member's own condition number
            kp = mk[idx[0]]
            mtol = "(Some %s)" % common.flit(SING_TOL if kp is None else value_tol(kp))
        lit = "(MkMem %s %s %s %s %s %s)" % (
            ops.opd_lit(spec, bb, idx), ops.cols_lit(rr[idx] if bb else rr),
            "None" if ll is None else "(Some (%d%%N, %s))" % (ll.shape[-2], ops.mat_lit(ll[idx] if bb else ll)),
            ops.cols_lit(oo[idx] if bb else oo), ops.spec_lit(spec, bb, idx), mtol)
        mems.append(lit)
    fold = 0
    if spec["cls"] == "BatchRepeat" and left is None and not ops.batch(spec["base"]) and len(spec["rep"]) == 1 \
            and coarse_method(obs["events"]) == "cholesky":
        fold = spec["rep"][0]
    return "(MkCase %s %s %s %s %d%%N [:: %s] %s %s %d%%N [:: %s] [:: %s] [:: %s] %s)" % (
        settings_lit(cell["st"]), ops.nat_list(ob), ops.nat_list(rb), ops.nat_list(bb), r.shape[-1],
        ";\n   ".join(mems), common.flit(value_tol(cell["kappa"], cell.get("dtype", "f64"))), common.flit(cell["st"]["cgtol"]), fold,
        "; ".join(event_lit(e) for e in obs["events"]),
        "; ".join(common.flit(e[4]) for e in obs["events"] if e[0] == "cg"),
        "; ".join(event_lit(e) for e in obs["events2"]), common.coq_bool(obs["warn"]))


def parse_seq_nat(out):
    """parse '= [:: 11; 23] : seq nat' (ssreflect printing) or '= [11; 23] : list nat'"""
    m = re.search(r"=\s*\[(?:::)?(.*?)\]\s*:\s*(?:seq|list)", out, re.S)
    if not m:
        return None
    body = m.group(1).strip()
    if not body:
        return []
    return [int(re.sub(r"%\w+", "", x).strip().strip("()")) for x in body.split(";")]


def shard_src(lits):
    body = ";\n ".join(lits)
    # unary nat literals such as 1000%N / 2000%N (max_cg_iterations, min_preconditioning_size ...) are elaborated once, not per case
    big = sorted({int(m) for m in re.findall(r"\b(\d+)%N", body) if int(m) >= 32})
    body = re.sub(r"\b(\d+)%N", lambda m: ("k_%s" % m.group(1)) if int(m.group(1)) >= 32 else m.group(0), body)
    consts = "".join("Definition k_%d : nat := %d%%N.\n" % (n, n) for n in big)
    return ("From mathcomp Require Import ssreflect ssrfun ssrbool eqtype ssrnat seq.\n"
            "From Coq Require Import PrimFloat.\nRequire Import C04.Model C04.Check.\n%s"
            "Definition cases : seq case := [::\n %s].\n"
            "Eval vm_compute in (bad_cases cases 0).\n" % (consts, body))


# ----------------------------------------------------------------------------------------- serialisation (replay files)

def ser(x):
    if torch.is_tensor(x):
        return {"__t__": list(x.shape), "dtype": str(x.dtype), "data": x.reshape(-1).tolist()}
    if isinstance(x, dict):
        return {k: ser(v) for k, v in x.items()}
    if isinstance(x, (list, tuple)):
        return [ser(v) for v in x]
    return x


def deser(x):
    if isinstance(x, dict) and "__t__" in x:
        dt = torch.long if "int" in x["dtype"] or "long" in x["dtype"] else F64
        return torch.tensor(x["data"], dtype=dt).reshape(x["__t__"])
    if isinstance(x, dict):
        return {k: deser(v) for k, v in x.items()}
    if isinstance(x, list):
        return [deser(v) for v in x]
    return x


def fix_spec(e):
    """json round trip turns tuples into lists; restore what build() needs"""
    if isinstance(e, dict):
        for k, v in list(e.items()):
            if k == "rep":
                e[k] = tuple(v)
            elif k == "batch":
                e[k] = tuple(v)
            else:
                fix_spec(v)
    elif isinstance(e, list):
        for v in e:
            fix_spec(v)
    return e


# ----------------------------------------------------------------------------------------- run

def key_of(cell, spec, obs, fail):
    k = {"cls": cell["cls"], "tree": ops.label(spec), "kind": cell["kind"], "method": coarse_method(obs["events"]),
         "batched": bool(cell["ob"]) or bool(ops.batch(spec)), "own_solve": cell["cls"] in OWN_SOLVE, "dtype": cell.get("dtype", "f64"),
         "left": cell["kind"].startswith("left"), "fail": fail, "via": cell.get("via", "solve"),
         "family": cell.get("fam", "grid"), "rhsmod": cell.get("rhsmod")}
    if isinstance(spec.get("base"), dict):
        k["base"] = spec["base"]["cls"]
    k["linalg_dtypes"] = "%s=%s" % tuple(cell["st"]["ldt"]) if cell["st"].get("ldt") else None
    if spec["cls"] == "Derived":
        k["derive"], k["query"], k["base_tree"] = spec["derive"], spec["query"], ops.label(spec["base"])
    if spec["cls"] in ("Derived", "Compose"):
        k["structured_path"] = bool(cell["st"]["fast"] and cell["N"] > cell["st"]["mcs"])
        k["result_class"] = obs.get("op_class")
    if cell["cls"] in ("KronAddedDiag", "SumKron"):
        k["diag_kind"] = cell["kw"].get("dk") if isinstance(cell.get("kw"), dict) else None
        # the structured branch with a factor larger than max_cholesky_size (its diagonalization() then runs Lanczos)
        k["factor_above_max_cholesky_size"] = bool(cell["st"]["fast"] and cell["N"] > cell["st"]["mcs"]
                                                   and isinstance(cell.get("kw"), dict) and max(cell["kw"]["sizes"]) > cell["st"]["mcs"])
    return k


def replay_of(cell, spec, rhs, left, obs, what):
    return {"kind": what, "cell": {k: (list(v) if isinstance(v, tuple) else v) for k, v in cell.items() if k not in ("kw", "fwd_rhs")},
            "fwd_rhs": ser(cell.get("fwd_rhs")),
            "kw": ser(cell["kw"]), "spec": ser(spec), "rhs": ser(rhs), "left": ser(left),
            "observed": {"events": obs["events"], "warn": obs.get("warn"), "exc": obs.get("exc"),
                         "out": ser(obs["out"]) if torch.is_tensor(obs.get("out")) else None},
            "expected": ser(reference(spec, rhs, left))}


def observe_cell(cell, spec, rhs, left):
    """run the implementation on one cell; float32 cells: the operator is built from binary32 tensors, oracle and
    model see the same values in binary64.  returns (spec64, rhs64, left64, obs)"""
    if cell.get("dtype") != "f32":
        return spec, rhs, left, observe(spec, rhs, left, cell["st"], cell.get("via", "solve"), cell.get("fwd_rhs"))

    def mark(e, dt):
        if isinstance(e, dict):
            if e.get("cls") == "Identity":
                e["dtype"] = dt
            for v in e.values():
                mark(v, dt)
        elif isinstance(e, list):
            for v in e:
                mark(v, dt)
        return e
    spec32 = mark(ops.cast_spec(spec, torch.float32), torch.float32)
    rhs32, left32 = rhs.float(), (left.float() if left is not None else None)
    obs = observe(spec32, rhs32, left32, cell["st"])
    spec64 = ops.cast_spec(spec32, F64)

    def unmark(e):
        if isinstance(e, dict):
            e.pop("dtype", None)
            for v in e.values():
                unmark(v)
        elif isinstance(e, list):
            for v in e:
                unmark(v)
        return e
    return unmark(spec64), rhs32.double(), (left32.double() if left32 is not None else None), obs


def generate(ctx, budget_s=None):
    """run the implementation on every cell; yields (cell, spec, rhs, left, obs)"""
    rng = random.Random(ctx.seed * 7919 + 17)
    torch.manual_seed(ctx.seed)          # the library's own randomness (Lanczos probe vectors) is derived from the seed too
    t0 = time.time()
    for cell in cells(ctx):
        r = rng
        if cell.get("pair"):
            # cells that must see the SAME operator and right-hand side (one per solve path): their values come from a
            # generator keyed by the pair id
            r = random.Random(ctx.seed * 1000003 + zlib.crc32(cell["pair"].encode()))
        spec = ops.gen(r, cell["cls"], cell["n"], cell["kappa"], cell["ob"], **cell["kw"])
        rhs, left = make_rhs(r, cell["kind"], cell["N"], ops.batch(spec), cell.get("rhsmod"))
        if cell.get("via") == "backward":
            # `rhs` plays the upstream gradient; the forward right-hand side is an ordinary one of the same shape
            cell = dict(cell, fwd_rhs=ops._randn(rng, *rhs.shape))
        spec, rhs, left, obs = observe_cell(cell, spec, rhs, left)
        yield cell, spec, rhs, left, obs
        if budget_s and time.time() - t0 > budget_s:
            break


def direct_search(ctx, limit=5):
    """evaluate the property predicate on every generated case; report concrete failing inputs"""
    found = 0
    seen = set()
    for cell, spec, rhs, left, obs in generate(_Wide(ctx), budget_s=900):
        f = predicate(cell, spec, rhs, left, obs)
        if f:
            key = key_of(cell, spec, obs, f[0])
            sig = (key["tree"], key["fail"], key["method"], key["kind"])
            if common.kf_match(PROP, key) is not None or sig in seen:
                continue
            seen.add(sig)
            if ctx.violation(dict(replay_of(cell, spec, rhs, left, obs, "property-failure"), what=f[1]), key=key):
                found += 1     # (a listed known finding does not explain a broken obligation: not counted)
            if found >= limit:
                break
    return found


def regenerate():
    return None


def _clean_shards(gen, own_only=False):
    """remove case shards of finished runs (this pid when own_only; otherwise every pid that is no longer alive)"""
    try:
        names = os.listdir(gen)
    except OSError:
        return
    for f in names:
        m = re.match(r"\.?cases_c04_(\d+)(?:_\d+)?\.(v|vo|vok|vos|glob|aux)$", f)
        if not m:
            continue
        pid = int(m.group(1))
        alive = True
        if pid == os.getpid():
            alive = not own_only
            if not own_only:
                continue
        else:
            if own_only:
                continue
            try:
                os.kill(pid, 0)
            except OSError:
                alive = False
            if "_" not in f[len("cases_c04_"):].split(".")[0]:
                alive = False          # shards of the old naming scheme (no pid)
        if not alive:
            try:
                os.remove(os.path.join(gen, f))
            except OSError:
                pass


def run(ctx):
    torch.set_num_threads(1)
    regenerate()
    _clean_shards(ctx.gen)

    def on_fail(info):
        return direct_search(ctx) > 0
    ok = common.proof_stage(ctx, on_fail)

    t0 = time.time()
    cases = []          # (cell, spec, rhs, left, obs, literal or None)
    stats = {"calls": 0, "raised": 0, "cg": 0, "cg_warned": 0, "direct_failures": 0}
    by_method, by_cls, by_kind, by_dtype, by_family = {}, {}, {}, {}, {}
    seen_fail = set()
    distinct = set()
    for cell, spec, rhs, left, obs in generate(ctx):
        stats["calls"] += 1
        meth = coarse_method(obs["events"])
        by_method[meth] = by_method.get(meth, 0) + 1
        by_cls[cell["cls"]] = by_cls.get(cell["cls"], 0) + 1
        by_kind[cell["kind"]] = by_kind.get(cell["kind"], 0) + 1
        by_dtype[cell.get("dtype", "f64")] = by_dtype.get(cell.get("dtype", "f64"), 0) + 1
        fk = "%s/%s" % (cell.get("fam", "grid"), cell.get("via", "solve"))
        by_family[fk] = by_family.get(fk, 0) + 1
        if meth == "cg":
            stats["cg"] += 1
            stats["cg_warned"] += int(bool(obs["warn"]))
        f = predicate(cell, spec, rhs, left, obs)
        lit = None
        if "exc" in obs:
            stats["raised"] += 1
        elif spec["cls"] in ("Derived", "Compose"):
            lit = None        # histories are judged by the predicate only (the derived operator's class is the library's choice)
        elif f is None or f[0] in ("value", "residual"):
            lit = case_lit(cell, spec, rhs, left, obs)      # (wrong shape / dtype / type: no Coq case, the predicate already failed)
        if f:
            stats["direct_failures"] += 1
            key = key_of(cell, spec, obs, f[0])
            # (one report per operator tree x failure kind x path x rhs kind x entry point: a listed finding in one cell must not
            #  hide a different failure of the same class)
            sig = (key["tree"], key["fail"], key["method"], key["kind"], key["via"], key["rhsmod"], key["batched"])
            if common.kf_match(PROP, key) is not None:
                # a cell of a listed finding: recorded (not counted) and NOT entered into the de-duplication, so that it cannot
                # hide a failure with the same signature in a cell the finding does not cover
                ctx.violation(dict(replay_of(cell, spec, rhs, left, obs, "property-failure"), what=f[1]), key=key)
            elif sig not in seen_fail:
                seen_fail.add(sig)
                ctx.violation(dict(replay_of(cell, spec, rhs, left, obs, "property-failure"), what=f[1]), key=key)
        if cell["N"] > 1:
            distinct.add((ops.label(spec), cell["N"], tuple(cell["ob"]), cell["kind"], meth,
                          json.dumps(cell["st"], sort_keys=True), cell["kappa"], cell.get("via", "solve"), cell.get("rhsmod"),
                          tuple(cell.get("profile") or ())))
        cases.append((cell, spec, rhs, left, obs, lit, f))
    # the answer must not depend on the method: cells of one pair (same operator, same right-hand side, same linalg_dtypes,
    # different max_cholesky_size => different solve path) agree to the accuracy each path is specified to have
    pairs = {}
    for c in cases:
        if c[0].get("pair") and torch.is_tensor(c[4].get("out")) and c[6] is None:
            pairs.setdefault(c[0]["pair"], []).append(c)
    stats["cross_method_pairs"] = 0
    for pid, cs in sorted(pairs.items()):
        for a, b in zip(cs, cs[1:]):
            if "cg" in (coarse_method(a[4]["events"]), coarse_method(b[4]["events"])):
                continue          # (a CG answer is only specified up to cg_tolerance: judged by the residual predicate)
            stats["cross_method_pairs"] += 1
            oa, ob_ = a[4]["out"].to(F64), b[4]["out"].to(F64)
            tol = cell_tol(a[0], a[4]["events"]) + cell_tol(b[0], b[4]["events"])
            diff = (oa - ob_).abs().max().item() / max(1.0, oa.abs().max().item())
            if oa.shape != ob_.shape or not diff <= tol:
                ctx.violation(dict(replay_of(b[0], b[1], b[2], b[3], b[4], "method-dependent-answer"),
                                   what="the same solve under max_cholesky_size %s (%s) and %s (%s): answers differ by %.3e > %.1e"
                                        % (a[0]["st"]["mcs"], coarse_method(a[4]["events"]), b[0]["st"]["mcs"], coarse_method(b[4]["events"]), diff, tol)),
                              key=key_of(b[0], b[1], b[4], "method-dependent"))
    t_impl = time.time() - t0

    mism = {}
    n_shards = 0
    if ok:
        idx = [i for i, c in enumerate(cases) if c[5] is not None]
        SH = 120
        shards = []
        for s in range(0, len(idx), SH):
            # the pid keeps concurrent runs of this check (coordinator + builder) from sharing shard files
            shards.append(("c04_%d_%d" % (os.getpid(), s // SH), shard_src([cases[i][5] for i in idx[s:s + SH]])))
        n_shards = len(shards)
        res = {}
        for g in range(0, len(shards), 3):        # at most 3 shard compilers at a time
            res.update(common.run_shards(ctx, shards[g:g + 3]))
        for si, (name, _) in enumerate(shards):
            rc, out = res[name]
            bad = parse_seq_nat(out) if rc == 0 else None
            if bad is None:
                ctx.violation({"kind": "shard-failed", "shard": name, "out": out[-800:]}, no_input=True)
                continue
            for b in bad:
                mism.setdefault(idx[si * SH + b // 10], []).append(b % 10)
        if not mism:
            _clean_shards(ctx.gen, own_only=True)
        reported = 0
        for i, codes in sorted(mism.items()):
            cell, spec, rhs, left, obs, lit, f = cases[i]
            if f:
                continue        # already triaged above: the property fails on the implementation (violation / known finding)
            # the implementation satisfies the property on this case although the model disagrees
            key = key_of(cell, spec, obs, "model")
            if common.kf_match(PROP, key) is not None:
                ctx.violation({"kind": "known-defective-cell"}, key=key)     # cell of a listed finding: correspondence not enforced
                continue
            if reported < 10:
                ctx.violation(dict(replay_of(cell, spec, rhs, left, obs, "model-implementation-disagreement"),
                                   codes=codes, correspondence="coq/C04/Check.v case_codes (1 path, 2 values, 3 model-none, 4 residual, 5 oracle, 6 folding)"),
                              key=key_of(cell, spec, obs, "model"), no_input=True)
                reported += 1

    samples = []
    for c in (cases[len(cases) // 3], cases[-1]) if cases else ():
        cell, spec, rhs, left, obs = c[:5]
        samples.append({"tree": ops.label(spec), "N": cell["N"], "op_batch": list(cell["ob"]), "rhs_kind": cell["kind"],
                        "settings": cell["st"], "kappa": cell["kappa"], "events": obs["events"],
                        "out_shape": list(obs["out"].shape) if torch.is_tensor(obs.get("out")) else None})
    ctx.coverage.update({
        "trusted_base": common.COQ_TRUSTED + [
            "torch primitives modelled by their mathematical meaning: cholesky_ex (Cholesky-Banachiewicz), solve_triangular / "
            "cholesky_solve (substitution on the named triangle), matmul, view/permute/reshape as index maps; eigh as an oracle whose "
            "specification is checked numerically per case; linear_cg not transcribed (residual predicate; C08)",
            "IEEE rounding: theorems are exact-arithmetic; binary64 differences covered by the tolerance 1e-9 (kappa <= 1e4) / 1e-7 (kappa = 1e6)",
            "correspondence harness harness/c04.py + harness/c04_ops.py (builders, independent dense oracle, logger/linear_cg capture, "
            "comparators coq/C04/Check.v)",
            "psd_safe_cholesky's jitter loop is modelled for cholesky_jitter = 10^-e; a batch is checked member by member "
            "(justified in exact arithmetic by C04_psd_safe_batch_member)"],
        "evaluations": len(cases), "distinct_nontrivial": len(distinct),
        "rule": "one evaluation = one solve call on the real operator (path events + values). non-trivial = matrix size > 1; distinct by "
                "(operator tree, size, operator batch shape, rhs kind, observed method, settings row, condition number, entry point, rhs structure, "
                "member conditioning profile)",
        "samples": samples, "mismatches": len(mism), "shards": n_shards,
        "settings_rows": len(covering_rows()), "by_method": by_method, "by_class": by_cls, "by_rhs_kind": by_kind, "by_dtype": by_dtype, "by_family_and_entry_point": by_family,
        "stats": stats, "impl_seconds": round(t_impl, 1),
    })
    ctx.assumptions = [
        "operators are symmetric positive definite (Triangular / Permutation: invertible), condition number <= 1e6 (1e7 for single batch members "
        "of the conditioning profiles), float64; a numerically singular batch member (smallest eigenvalue -1e-9 / -5e-8) is only compared with the "
        "model's jitter ladder, the property does not judge it",
        "max_cg_iterations >= max_lanczos_quadrature_iterations (linear_cg raises otherwise, loudly)",
        "a CG run that emits the not-converged NumericalWarning is outside the property (the tolerance was not reached, loudly)",
        "beta_features.default_preconditioner off (default)",
    ]


def replay(rp):
    torch.set_num_threads(1)
    spec = fix_spec(deser(rp["spec"]))
    rhs = deser(rp["rhs"])
    left = deser(rp["left"]) if rp.get("left") is not None else None
    cell = dict(rp["cell"])
    cell["ob"] = tuple(cell.get("ob", ()))
    cell["kw"] = deser(rp.get("kw") or {})
    if rp.get("fwd_rhs") is not None:
        cell["fwd_rhs"] = deser(rp["fwd_rhs"])
    spec, rhs, left, obs = observe_cell(cell, spec, rhs, left)
    f = predicate(cell, spec, rhs, left, obs)
    print("operator:", ops.label(spec), "settings:", cell["st"], "rhs kind:", cell["kind"])
    print("events:", obs["events"], "warn:", obs.get("warn"), "exc:", obs.get("exc"))
    if torch.is_tensor(obs.get("out")) and not cell.get("profile"):
        print("max |out - reference| =", (obs["out"].to(F64) - reference(spec, rhs, left)).abs().max().item())
    if cell.get("profile"):
        print("batch members (conditioning profile):", cell["profile"], "- every PD member is judged against a dense solve of that member alone")
    print("property failure: %s" % (f,) if f else "property holds on this case")
    return 1 if f else 0
