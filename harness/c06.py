"""C06 — every factorisation returned really factorises the operator.

proof    : coq/C06/Property.v — MathComp theorems (all sizes, any real closed field) for every factorisation route
           (Cholesky / symeig / svd / inverse roots / Kronecker, block, batch-repeat lifts / KroneckerProductAddedDiag
           branches / method selection) and refinement theorems about the executable model coq/C06/Model.v
tie      : correspondence — the model (one Gallina term, run on PrimFloat inside coqc) is executed on the same operator,
           query, settings and cache state as the real library; LAPACK eigh / the Lanczos autograd functions / pivoted
           Cholesky / pinverse are replayed from the implementation's own calls (oracle tables).  Compared: outcome kind,
           WHICH solver primitives ran on which sizes (method selection, exactly), every returned factor entrywise,
           spectra as multisets; and the property predicates (||R R^T - A||, triangularity + orientation, ||Q^T Q - I||,
           Q diag(w) Q^T = A, U diag(S) V^T = A, S >= 0) are evaluated in Coq on the observed factors
search   : the same predicates evaluated directly (plain torch, independent dense oracle opbuild.dense) on every case
families : plain (one operator, one query, settings / cache grid) | hist (histories on SHARED objects: the query on
           op.add_jitter(c), then on op / on a second composite of the same op) | mixed (batches mixing p.d. and exactly
           singular members, also under settings.cholesky_jitter) | catrows (op.cat_rows(B, D) with a non-negligible
           cross block, then the cached root / inverse root) — see harness/c06_grid.py
"""
import itertools
import json
import math
import os
import random
import time

import torch

from . import common, opbuild
from . import c06_grid as G
from . import c06_ops as O
from . import c06_tr as TR

PROP = "C06"
F64 = torch.float64
torch.set_num_threads(1)

TOL_VAL = 1e-10         # entrywise model vs implementation (oracle answers are replayed, so only summation order differs)
TOL_DIRECT = 1e-10      # property predicate, direct methods: two orders below the smallest documented jitter (1e-8), so
                        # that a factor of A + jitter*I is never accepted as a factor of A
TOL_VAL_ILL = 1e-6      # ... for the cells of condition number 1e8 (triangular solves / Cholesky differ by eps * cond between LAPACK and model)
TOL_KRYLOV = 2e-4       # property predicate when a Lanczos-based function ran (documented tridiagonal jitter 1e-6 * min diag)

DEFAULT_CLASSES = {"Dense", "UserMinimal", "Toeplitz", "Sum", "PsdSum", "Mul", "Matmul", "Kernel", "LowRankRoot", "Zero",
                   "Interpolated", "Masked", "Cat", "SumBatch", "LowRankRootAddedDiag", "Permutation", "TransposePermutation",
                   "KronTriangular"}


SRC_FLAGS = {}


def regenerate():
    """coq/C06/gen/SrcFlags.v from the source tree under test (common.REPO); rewritten only when it changes"""
    gen = os.path.join(common.COQ, PROP, "gen")
    os.makedirs(gen, exist_ok=True)
    code, fl = TR.translate(common.REPO)
    p = os.path.join(gen, "SrcFlags.v")
    if not os.path.exists(p) or open(p).read() != code:
        open(p, "w").write(code)
    SRC_FLAGS.clear()
    SRC_FLAGS.update(fl)
    return fl


# ------------------------------------------------------------------------------------------------ member extraction
def own_batch(e):
    return list(opbuild.dense(e, F64).shape[:-2])


def sub_index(bidx, child_batch):
    """index into a child whose batch shape broadcasts (right-aligned) to the parent's"""
    if not child_batch:
        return ()
    idx = tuple(bidx[len(bidx) - len(child_batch):]) if len(bidx) >= len(child_batch) else tuple(bidx)
    return tuple(0 if s == 1 else i for i, s in zip(idx, child_batch))


def tsel(t, bidx):
    """member of a tensor spec whose leading dims are batch dims (right-aligned broadcast)"""
    x = O.totensor(t)
    return x


def fl(x):
    return common.flit(float(x))


def vec_lit(v):
    return "[" + "; ".join(fl(x) for x in v.reshape(-1).tolist()) + "]"


def mat_lit(m):
    if m.dim() != 2:
        raise ValueError("mat_lit expects a matrix, got %s" % (list(m.shape),))
    return "[" + "; ".join(vec_lit(r) for r in m) + "]"


def member_lit(e, bidx):
    """Coq literal (expr float) of batch member `bidx` (index in e's own batch shape) of opbuild expression e"""
    c = e["cls"]

    def tensor_member(t, trailing):
        x = O.totensor(t)
        bs = list(x.shape[:x.dim() - trailing])
        return x[sub_index(bidx, bs)] if bs else x

    def child(x):
        return member_lit(x, sub_index(bidx, own_batch(x)))

    if c == "Diag":
        return "(EDiag %s)" % vec_lit(tensor_member(e["d"], 1))
    if c == "ConstantDiag":
        return "(EConstDiag %s %d)" % (fl(tensor_member(e["c"], 1).reshape(-1)[0]), e["n"])
    if c == "Identity":
        return "(EIdentity float %d)" % e["n"]
    if c == "Triangular":
        t = tensor_member(e["t"], 2)
        return "(ETri %d %s %s)" % (t.shape[-1], common.coq_bool(e["upper"]), mat_lit(t))
    if c == "Chol":
        t = tensor_member(e["t"], 2)
        return "(EChol %d %s %s)" % (t.shape[-1], common.coq_bool(e["upper"]), mat_lit(t))
    if c == "Root" and not (isinstance(e["root"], dict) and "cls" in e["root"]):
        r = tensor_member(e["root"], 2)
        return "(ERoot %d %d %s)" % (r.shape[-2], r.shape[-1], mat_lit(r))
    if c == "Kron":
        return "(EKron [%s])" % "; ".join(child(x) for x in e["ops"])
    if c == "KronDiag":
        return "(EKronDiag [%s])" % "; ".join(child(x) for x in e["ops"])
    if c == "KronAddedDiag":
        return "(EKpad %s %s)" % (child(e["kron"]), child(e["diag"]))
    if c == "SumKron":
        return "(ESumKron %s %s)" % (child(e["a"]), child(e["b"]))
    if c == "AddedDiag":
        return "(EAddedDiag %s %s)" % (child(e["base"]), child(e["diag"]))
    if c == "ConstantMul":
        cv = O.totensor(e["c"])
        cm = cv[sub_index(bidx, list(cv.shape))] if cv.dim() else cv
        return "(EConstMul %s %s)" % (child(e["base"]), fl(cm))
    if c in ("BlockDiag", "BlockInterleaved") and e.get("block_dim", -3) == -3:
        bb = own_batch(e["base"])
        k = bb[-1]
        mine = sub_index(bidx, bb[:-1])
        blocks = [member_lit(e["base"], tuple(mine) + (i,)) for i in range(k)]
        return "(%s [%s])" % ("EBlockDiag" if c == "BlockDiag" else "EBlockInter", "; ".join(blocks))
    if c == "BatchRepeat":
        bb = own_batch(e["base"])
        rep = list(e["rep"])
        bb = [1] * (len(rep) - len(bb)) + bb
        full = tuple(bidx)
        full = (0,) * (len(bb) - len(full)) + full
        bi = tuple(i % s for i, s in zip(full, bb))
        ob = own_batch(e["base"])
        return "(ERepeat %s)" % member_lit(e["base"], bi[len(bi) - len(ob):] if ob else ())
    # everything else runs the base-class defaults on its dense matrix
    A = opbuild.dense(e, F64)
    A = A[tuple(bidx)] if A.dim() > 2 else A
    return "(EDense %d %s)" % (A.shape[-1], mat_lit(A))


# ------------------------------------------------------------------------------------------------ Coq case literals
METHOD = {None: "MNone", "cholesky": "MCholesky", "symeig": "MSymeig", "diagonalization": "MDiagonalization", "svd": "MSvd",
          "lanczos": "MLanczos", "pivoted_cholesky": "MPivotedCholesky", "pinverse": "MPinverse"}
KIND = {"ok": 0, "NotPSD": 1, "Nan": 2, "Runtime": 3, "NotImplemented": 4, "AttributeError": 5, "UnboundLocalError": 6}


def query_lit(case):
    op, m = case["op"], METHOD.get(case.get("method"), "MUnknown")
    if op in ("cholesky", "t_cholesky"):
        return "(QCholesky %s)" % common.coq_bool(case.get("upper", False))
    if op == "root":
        return "(QRoot %s)" % m
    if op == "root_inv":
        return "(QRootInv %s)" % m
    if op in ("eigh", "t_eigh"):
        return "QEigh"
    if op in ("eigvalsh", "t_eigvalsh"):
        return "QEigvalsh"
    if op == "diag":
        return "(QDiag %s)" % m
    if op == "logdet":
        # only as an earlier step on a KroneckerProductLinearOperator: _logdet = diagonalization() (cached)
        return "(QDiag MNone)"
    if op in ("svd", "t_svd"):
        return "QSvd"
    raise ValueError(op)


def event_lit(ev):
    k = ev[0]
    if k == "chol":
        return "EvChol %d" % ev[1]
    if k == "eigh":
        return "EvEigh %d" % ev[1]
    if k == "lanczos":
        return "EvLanczos %d %d" % (ev[1], ev[2])
    if k == "pivchol":
        return "EvPivChol %d" % ev[1]
    if k == "pinv":
        return "EvPinv %d" % ev[1]
    if k == "trsolve":
        return "EvTrsolve %d" % ev[1]
    return "EvOther %d %d" % ({"svd": 1, "qr": 2}.get(k, 9), ev[1])


def members(x, nbatch, trailing=None, batch=None):
    """flatten the leading batch dims of a tensor into a list of members (each with the trailing dims).
    With `batch` given, x (whose own batch dims may lack leading size-1 dims: RootDecomposition squeezes them) is first
    broadcast to that batch shape; `trailing` = number of non-batch dims of x."""
    if batch is not None:
        tr = list(x.shape[x.dim() - trailing:])
        x = x.expand(*batch, *tr) if list(x.shape[:x.dim() - trailing]) != list(batch) else x
        nbatch = len(batch)
    if nbatch == 0:
        return [x]
    return list(x.reshape(-1, *x.shape[nbatch:]))


def tables_lit(res):
    """oracle tables from the recorded primitive calls (every batch member of every call is one entry)"""
    eigh, lzd, lzr, piv, pinv = [], [], [], [], []
    for A, w, Q in res["eigh"]:
        nb = A.dim() - 2
        for a, ww, q in zip(members(A, nb), members(w, nb), members(Q, nb)):
            eigh.append("(%s, (%s, %s))" % (mat_lit(a), vec_lit(ww), mat_lit(q)))
    for A, mi, w, Q in res["lzd"]:
        nb = A.dim() - 2
        bs = list(A.shape[:-2])
        for a, ww, q in zip(members(A, nb), members(w, nb, 1, bs), members(Q, nb, 2, bs)):
            lzd.append("(%s, %d, (%s, %s))" % (mat_lit(a), mi, vec_lit(ww), mat_lit(q)))
    # entries that carry an inverse root first (a root-only call returns an empty inverse)
    for A, mi, R, Ri in sorted(res["lzr"], key=lambda t: 0 if t[3].numel() else 1):
        nb = A.dim() - 2
        Am = members(A, nb)
        bs = list(A.shape[:-2])
        Rm = members(R, nb, 2, bs) if R.numel() else [None] * len(Am)
        Rim = members(Ri, nb, 2, bs) if Ri.numel() else [None] * len(Am)
        for a, r, ri in zip(Am, Rm, Rim):
            lzr.append("(%s, %d, (%s, %s))" % (mat_lit(a), mi, "[]" if r is None else mat_lit(r), "[]" if ri is None else mat_lit(ri)))
    for A, rank, Lf in res["piv"]:
        nb = A.dim() - 2
        for a, l in zip(members(A, nb), members(Lf, nb)):
            piv.append("(%s, %d, %s)" % (mat_lit(a), rank, mat_lit(l)))
    for A, P in res["pinv"]:
        nb = A.dim() - 2
        for a, p in zip(members(A, nb), members(P, nb)):
            pinv.append("(%s, %s)" % (mat_lit(a), mat_lit(p)))
    return "(MkTables [%s] [%s] [%s] [%s] [%s])" % tuple("; ".join(x) for x in (eigh, lzd, lzr, piv, pinv))


_LIBDEF = {}


def lib_defaults():
    if not _LIBDEF:
        S = O.lib()["settings"]
        cj, cm = S.cholesky_jitter, S.cholesky_max_tries
        _LIBDEF.update(f=cj._global_float_value, d=cj._global_double_value, h=(cj._global_half_value if cj._global_half_value is not None else 0.0), mt=cm._global_value)
    return _LIBDEF


def settings_lit(case):
    d = lib_defaults()
    dbl = d["d"] if case.get("cj") is None else float(case["cj"])       # settings.cholesky_jitter(double_value=cj)
    c16 = "(MkSettings %s %s %s %s false)" % (fl(d["f"]), fl(dbl), fl(d["h"]), common.zlit(d["mt"]))
    if "kron_rootinv_noargs" not in SRC_FLAGS:
        regenerate()
    # cat_rows cases are modelled as "the cached root is the Cholesky factor of the dense matrix C", whatever the settings
    mcs_model = 800 if case.get("kind") == "catrows" else case.get("mcs", 800)
    return "(MkSt %s %s %s %s %s %s %s)" % (common.zlit(mcs_model), common.zlit(case.get("mrs", 100)),
                                             common.coq_bool(case.get("fast", True)), c16,
                                             common.coq_bool(torch.get_default_dtype() == torch.float32), fl(1e-7),
                                             common.coq_bool(SRC_FLAGS["kron_rootinv_noargs"]))


def cache_lit(case, res):
    inj = set(case.get("inject", []))
    # history steps on the operator itself leave the same entries as `pre` calls do
    if any(st[0] == "self" and st[1] in ("diag", "logdet") for st in case.get("steps", [])):
        inj.add("diagonalization")
    # an earlier diagonalization() on the same object leaves a "diagonalization" entry in its memoize cache
    if any(p["op"] in ("diag", "logdet") for p in case.get("pre", [])):
        inj.add("diagonalization")
    return "(MkCache %s %s %s)" % tuple(common.coq_bool(x in inj) for x in ("symeig", "diagonalization", "lanczos"))


OUT_MATS = {"cholesky": ["L"], "t_cholesky": ["L"], "root": ["R"], "root_inv": ["R"], "eigh": ["Q"], "t_eigh": ["Q"],
            "eigvalsh": [], "t_eigvalsh": [], "diag": ["Q"], "svd": ["U", "V"], "t_svd": ["U", "V"]}
OUT_VECS = {"cholesky": [], "t_cholesky": [], "root": [], "root_inv": [], "eigh": ["w"], "t_eigh": ["w"], "eigvalsh": ["w"],
            "t_eigvalsh": ["w"], "diag": ["w"], "svd": ["S"], "t_svd": ["S"]}


def case_lits(case, res, values, pred, ptol, member_cap=6):
    """Coq `case` literals, one per compared batch member.  Returns (list of literals, list of member indices)"""
    eff = res.get("eff_expr", case["expr"])
    batch = own_batch(eff)
    kind_ = case.get("kind", "plain")
    # solver events: plain cases exactly (as sets); histories: the observed call may be served from caches, so its
    # primitives are a SUBSET of what a fresh computation runs; cat_rows: the caches were filled by cat_rows itself
    evmode = {"plain": 0, "mixed": 0, "hist": 1, "catrows": 2}[kind_]
    idxs = list(itertools.product(*[range(s) for s in batch])) if batch else [()]
    if len(idxs) > member_cap:
        idxs = idxs[:member_cap // 2] + idxs[-(member_cap - member_cap // 2):]
    kind = KIND.get(res["exc"], 7) if res["kind"] == "raise" else 0
    evs = "[%s]" % "; ".join(event_lit(e) for e in res["events"])
    tabs = tables_lit(res)
    st, q, ch = settings_lit(case), query_lit(case), cache_lit(case, res)
    lits = []
    for bi in idxs:
        mats, vecs = [], []
        # the singular members of a mixed batch legitimately carry the documented jitter (C16): no strict predicate there
        sing_i = kind_ == "mixed" and bool(bi) and bi[0] in case.get("singular", [])
        pred_i = pred and not sing_i
        # ... and the inverse root of (singular + 1e-8 I) is conditioned like 1e8: not comparable entrywise
        values_i = values and not (sing_i and case["op"] == "root_inv")
        if res["kind"] == "ok":
            for nm in OUT_MATS[case["op"]]:
                v = res["out"].get(nm)
                if v is None:
                    mats.append("([], 0)")
                    continue
                x = O.totensor(v)
                xm = x[sub_index(bi, list(x.shape[:-2]))] if x.dim() > 2 else x
                mats.append("(%s, %d)" % (mat_lit(xm), xm.shape[-1]))
            for nm in OUT_VECS[case["op"]]:
                x = O.totensor(res["out"][nm])
                xm = x[sub_index(bi, list(x.shape[:-1]))] if x.dim() > 1 else x
                vecs.append(vec_lit(xm))
        lits.append("(MkCase %s %s [%s] %s %s %s %s %s %s %s %d %s %d [%s] [%s])" % (
            member_lit(eff, bi), q, "; ".join(query_lit(p) for p in case.get("pre", [])), ch, st, tabs, common.coq_bool(values_i), common.coq_bool(pred_i),
            fl(TOL_VAL_ILL if case.get("cell") in G.ILL_CELLS else TOL_VAL), fl(ptol), kind, evs, evmode, "; ".join(mats), "; ".join(vecs)))
    return lits, idxs


def shard_src(lits):
    return ("From Coq Require Import List ZArith Bool PrimFloat.\nImport ListNotations.\n"
            "Require Import C16.Model C06.Model C06.Check.\n"
            "Definition cases : list case := [\n %s].\n"
            "Eval vm_compute in (bad_cases cases 0).\n" % ";\n ".join(lits))


def explain_src(lit):
    return ("From Coq Require Import List ZArith Bool PrimFloat.\nImport ListNotations.\n"
            "Require Import C16.Model C06.Model C06.Check.\n"
            "Eval vm_compute in (explain %s).\n" % lit)


# ------------------------------------------------------------------------------------------------ direct property predicate
def effective_method(case, res):
    """the route actually taken for root / root_inv / diag queries (argument, or what _choose_root_method returned)"""
    m = case.get("method")
    if m is not None:
        return m
    if case["op"] in ("root", "root_inv"):
        ch = res.get("chosen", [])
        if ch:
            # plain cases: the first selection is the observed object's; histories: the last one
            return (ch[0] if case.get("kind", "plain") == "plain" else ch[-1])[2]
        return "default"
    if case["op"] == "diag":
        if any(e[0] == "lanczos" for e in res["events"]):
            return "lanczos"
        if case.get("cell", "").startswith(("Kron",)):
            return "symeig"
        n = opbuild.dense(res.get("eff_expr", case["expr"]), F64).shape[-1]
        return "symeig" if n <= int(case.get("mcs", 800)) else "lanczos"
    return "-"


def is_psd_cell(cell):
    return not cell.startswith("Tri")


def n_clusters(lam, rel=1e-3):
    """number of eigenvalue clusters separated by gaps > rel * max|lambda| (lam sorted ascending)"""
    lam = [float(x) for x in lam]
    scale = max(1e-300, max(abs(x) for x in lam))
    return 1 + sum(1 for a, b in zip(lam, lam[1:]) if b - a > rel * scale)


def lanczos_truncation(res):
    """Every Lanczos call the library made (recorded with its matrix and its answer): the members of a batch run in lock-step,
    so the number of iterations must reach min(rank bound, n, number of well-separated eigenvalue clusters of the member
    with the MOST clusters) — a generic start vector has a component in every eigenspace.  Stopping earlier is not the
    documented 'orthogonal compression onto the Krylov space', it is a truncated Krylov space.  None | description"""
    calls = [(A, mi, (R if R.numel() else Ri).shape[-1]) for A, mi, R, Ri in res["lzr"]]
    calls += [(A, mi, w.shape[-1]) for A, mi, w, Q in res["lzd"]]
    for A, mi, k in calls:
        n = A.shape[-1]
        lam = torch.linalg.eigvalsh(A.reshape(-1, n, n))
        d = max(n_clusters(l) for l in lam)
        want = min(int(mi), n, d)
        if k < want:
            return ("Lanczos stopped after %d iteration(s) on a %d x %d operator (rank bound %d) one batch member of which has %d "
                    "well-separated eigenvalues: its Krylov space has dimension %d" % (k, n, n, int(mi), d, want))
    return None


def direct_check(case, res):
    """-> (None | description of the C06 violation on the implementation, applicable_predicate: bool, tolerance)"""
    cell = case.get("cell", "")
    krylov = any(e[0] == "lanczos" for e in res["events"]) or case.get("method") in ("lanczos", "pivoted_cholesky")
    tol = TOL_KRYLOV if krylov else TOL_DIRECT
    if not is_psd_cell(cell):
        # a triangular operator is not PSD: the Cholesky / Lanczos-root routes must raise NotPSDError; nothing else is
        # stated about it
        return None, False, tol
    if res["kind"] == "raise":
        if case.get("method") == "bogus" and res["exc"] == "Runtime":
            return None, False, tol
        return "raised %s: %s" % (res["exc"], (res["msg"] or "")[:120]), False, tol
    full = all(e[2] >= e[1] for e in res["events"] if e[0] == "lanczos")
    n = opbuild.dense(res.get("eff_expr", case["expr"]), F64).shape[-1]
    if case.get("method") == "pivoted_cholesky":
        full = full and int(case.get("mrs", 100)) >= n
    if res["kind"] == "ok" and is_psd_cell(cell):
        trunc = lanczos_truncation(res)
        if trunc:
            return trunc, False, tol
    if res["kind"] == "ok" and res.get("rescaled_events") is not None:
        k1 = [e[2] for e in res["events"] if e[0] == "lanczos"]
        k2 = [e[2] for e in res["rescaled_events"] if e[0] == "lanczos"]
        if k1 and k2 and min(k1) < min(k2):
            return ("Lanczos stopped after %d iteration(s) although the same operator multiplied by %g, with the same start vector, runs "
                    "%d: the breakdown test is absolute, not relative to the operator's scale" % (min(k1), case.get("rescale"), min(k2))), False, tol
    if krylov and not full:
        # rank-deficient by design (rank bound below n, or Lanczos breakdown on repeated eigenvalues)
        return None, False, tol
    if case["cell"] in G.SINGULAR_CELLS and case["cell"] == "RootLow" and case["op"] == "root_inv":
        return None, False, tol
    if case.get("kind") == "mixed":
        # member by member: the p.d. members must be factorised EXACTLY (no jitter leaking from the singular member); the
        # singular members carry the documented jitter of psd_safe_cholesky (C16's subject) and are only compared with the model
        w = O.predicate_members(case, res, tol_direct=TOL_DIRECT, tol_krylov=TOL_KRYLOV, skip=tuple(case.get("singular", [])), full_pass=False)
        if w:
            return "%s (p.d. member; member(s) %s of the batch are singular)" % (w, case.get("singular")), True, tol
        return None, True, tol
    return O.predicate_members(case, res, tol_direct=TOL_DIRECT, tol_krylov=TOL_KRYLOV), True, tol


def failure_key(case, res, what):
    fail = "raise:" + str(res["exc"]) if res["kind"] == "raise" else (
        "krylov-truncation" if "Lanczos stopped" in what else "shape" if "shape" in what else ("orthonormality" if ("^T U" in what or "^T V" in what or "^T Q" in what) else "value"))
    op = case["op"][2:] if case["op"].startswith("t_") else case["op"]
    meth = effective_method(case, res)
    return {"cell": case.get("cell"), "kind": case.get("kind", "plain"), "scale": case.get("scale"), "op": op, "method": meth, "fail": fail,
            "eigen": meth in ("symeig", "svd", "diagonalization"),
            "batched": bool(case.get("batch")),
            "krylov_truncated": any(e[0] == "lanczos" and e[2] < e[1] for e in res["events"])}


# ------------------------------------------------------------------------------------------------ run
def slim(case, res=None):
    d = {k: case[k] for k in ("cell", "kind", "scale", "corpus", "corpus_seed", "torch_seed", "rescale", "expr_rescaled", "batch", "op", "method", "upper", "mcs", "mrs", "fast", "inject", "pre", "steps", "target",
                              "singular", "cj", "o", "B", "D", "expr") if k in case}
    if res is not None:
        d["observed"] = {"kind": res["kind"], "exc": res["exc"], "msg": res["msg"], "events": res["events"],
                         "chosen": res["chosen"], "out": res["out"]}
    return d


def run(ctx):
    try:
        regenerate()
    except TR.Untranslatable as ex:
        # the anchored override no longer has a shape Model.v transcribes: fail closed
        ctx.violation({"kind": "untranslatable-source", "error": str(ex)}, no_input=True)
        ctx.coverage.update({"trusted_base": common.COQ_TRUSTED, "evaluations": 0, "distinct_nontrivial": 0, "rule": "-", "samples": []})
        return
    rng = random.Random(ctx.seed)
    grid = G.enumerate_grid(ctx.quick)
    t0 = time.time()

    def search(info):
        found = False
        for it in G.enumerate_grid(False)[:20000]:
            case = G.instantiate(rng, it)
            res = O.run_case(case, seed_noise=ctx.seed)
            what, _, _ = direct_check(case, res)
            if what:
                if ctx.violation({"kind": "property-failure", "case": slim(case, res), "what": what}, key=failure_key(case, res, what)):
                    found = True
                    break
        return found

    if not SRC_FLAGS.get("lanczos_jitter_relative", True):
        # the source no longer adds the documented relative jitter tridiagonal_jitter * min(diag T) (the jitter term of
        # C06_lanczos_root_relative_jitter): reported here; the SCALE family below looks for the concrete failing input
        ctx.violation({"kind": "source-form-not-the-documented-one", "what": SRC_FLAGS.get("lanczos_jitter_note")}, no_input=True)
    ok = common.proof_stage(ctx, search)

    lits, owners = [], []          # Coq case literals and (case index, member index)
    cases, results, directs = [], [], []
    counters = {"ok": 0, "raise": 0}
    by_route, by_cell, by_fail, by_kind = {}, {}, {}, {}
    distinct = set()
    n_direct_fail = 0
    for ci, it in enumerate(grid):
        case = G.instantiate(rng, it)
        res = O.run_case(case, seed_noise=ctx.seed + ci)
        what, applicable, tol = direct_check(case, res)
        cases.append(case)
        results.append(res)
        directs.append(what)
        counters[res["kind"]] += 1
        route = "%s/%s" % (case["op"], effective_method(case, res))
        by_route[route] = by_route.get(route, 0) + 1
        by_cell[case["cell"]] = by_cell.get(case["cell"], 0) + 1
        by_kind[case.get("kind", "plain")] = by_kind.get(case.get("kind", "plain"), 0) + 1
        distinct.add((case["cell"], case.get("kind", "plain"), case.get("scale"), case.get("torch_seed"), json.dumps(case.get("steps")), case.get("target"), case.get("cj"), case.get("o"),
                      tuple(case["batch"]), case["op"], effective_method(case, res), case["upper"],
                      tuple(map(tuple, res["events"])), res["kind"]))
        if what:
            n_direct_fail += 1
            key = failure_key(case, res, what)
            by_fail[json.dumps(key, sort_keys=True)] = by_fail.get(json.dumps(key, sort_keys=True), 0) + 1
            ctx.violation({"kind": "property-failure", "case": slim(case, res), "what": what}, key=key)
        values = is_psd_cell(case["cell"])
        pred = bool(applicable and what is None)
        try:
            ls, idxs = case_lits(case, res, values, pred, tol, member_cap=6 if ctx.quick else 4)
        except Exception as ex:  # noqa  (an output the encoder cannot represent is itself a disagreement)
            ctx.violation({"kind": "unencodable-output", "case": slim(case, res), "error": repr(ex)[:300]}, no_input=True)
            continue
        for l, bi in zip(ls, idxs):
            lits.append(l)
            owners.append((ci, bi))
    t_run = time.time() - t0

    mism = []
    if ok:
        SH = 150
        shards = [("c06_%d" % (i // SH), shard_src(lits[i:i + SH])) for i in range(0, len(lits), SH)]
        res_sh = run_shards_limited(ctx, shards)
        for si, (name, _) in enumerate(shards):
            rc, out = res_sh[name]
            bad = common.parse_coq_list_of_nat(out) if rc == 0 else None
            if bad is None:
                ctx.violation({"kind": "shard-failed", "shard": name, "out": out[-600:]}, no_input=True)
                continue
            mism += [si * SH + b for b in bad]
    reported = set()
    n_model_only = 0
    n_strict = 0
    deferred = []
    for m in mism:
        ci, bi = owners[m]
        if ci in reported:
            continue
        reported.add(ci)
        case, res, what = cases[ci], results[ci], directs[ci]
        if what:
            continue       # the implementation violates the property on this case: already reported (or a known finding)
        # the model (= specified behaviour) disagrees although the direct predicate passed or was not applicable
        # (rank-deficient Krylov root): if this cell / query / route is a recorded defect of the pinned tree whose failure
        # kind is a wrong value, the disagreement is that defect seen through the model
        key = failure_key(case, res, "model value")
        if res["kind"] == "ok" and common.kf_match(PROP, key) is not None:
            ctx.violation({"kind": "property-failure-via-model", "case": slim(case, res)}, key=key)
            continue
        # the model expects another route (e.g. an explicitly requested direct method that the implementation answered
        # with a rank-truncated Lanczos result, which the direct predicate tolerates as "rank-deficient by design"): judge
        # the observed factors strictly - if they do not factorise the operator this IS a failing input
        if res["kind"] == "ok" and is_psd_cell(case["cell"]) and case.get("kind", "plain") != "mixed":
            strict = O.predicate_members(case, res, tol_direct=TOL_DIRECT, tol_krylov=TOL_KRYLOV, strict=True)
            if strict:
                n_strict += 1
                what2 = strict + " (the specified route for this query is not a rank-truncated Krylov one" + (
                    ": " + explain_case(ctx, lits[m])[:160] if n_strict <= 5 else "") + ")"
                ctx.violation({"kind": "property-failure", "case": slim(case, res), "what": what2}, key=failure_key(case, res, strict))
                continue
        n_model_only += 1
        deferred.append((m, case, res, bi))
    # disagreements without a failing input are reported after those for which one was found (explain at most 30 of them)
    for j, (m, case, res, bi) in enumerate(deferred):
        reason = explain_case(ctx, lits[m]) if j < 30 else "(not explained: more than 30 disagreements)"
        ctx.violation({"kind": "model-implementation-disagreement", "case": slim(case, res), "member": list(bi),
                       "coq": reason, "correspondence": "coq/C06/Check.v check (model on PrimFloat vs implementation)"},
                      key=None, no_input=True)
    ctx.coverage.update({
        "trusted_base": common.COQ_TRUSTED + [
            "hand transcription coq/C06/Model.v of the factorisation queries and class overrides; one source flag is translated from "
            "the AST (harness/c06_tr.py -> coq/C06/gen/SrcFlags.v: does the Kronecker root_inv override forward its arguments), fail-closed",
            "oracles: torch.linalg.eigh, Diagonalization.apply / RootDecomposition.apply (Lanczos autograd functions), "
            "pivoted_cholesky, torch.pinverse are replayed from the implementation's own calls (contracts assumed in the theorems, "
            "checked by the predicates on every case); dense Cholesky = C16 model (Cholesky-Banachiewicz kernel) vs LAPACK potrf",
            "member-wise view of batches (harness extracts each batch member of operator and outputs)",
            "history / composite / cat_rows cases: c06_ops.run_case builds them through the public API (add_jitter, cat_rows); the "
            "composite's model expression is read off the object the library built, its dense oracle is dense(op) + c I / the block matrix",
            "correspondence harness harness/c06*.py (recorder wrappers around torch.linalg.* in the harness process, comparators "
            "coq/C06/Check.v, tolerances %g entrywise / %g direct / %g Krylov)" % (TOL_VAL, TOL_DIRECT, TOL_KRYLOV),
            "IEEE rounding: theorems are exact-arithmetic (rcfType); floats only through tolerances"],
        "evaluations": len(lits), "distinct_nontrivial": len(distinct),
        "rule": "one evaluation = one batch member of one (cell, batch, query, method, upper, settings, cache state) grid item run on the "
                "implementation and in Coq; distinct = distinct (cell, batch shape, query, effective method, upper, set of solver "
                "primitives with sizes, outcome kind); the grid is enumerated deterministically, the seed only draws matrix entries",
        "source_flags": dict(SRC_FLAGS), "grid_items": len(grid), "outcomes": counters, "routes": by_route, "cells": by_cell, "kinds": by_kind,
        "direct_property_failures": n_direct_fail, "direct_failures_by_key": by_fail,
        "mismatches": len(mism), "model_only_disagreements": n_model_only,
        "run_seconds": round(t_run, 1),
        "samples": [slim(cases[len(cases) // 3]), slim(cases[-1])],
    })
    ctx.assumptions = [
        "operators are symmetric positive (semi-)definite as the property states (triangular operators only checked to raise)",
        "LAPACK eigh returns an orthonormal eigenbasis of the symmetric input (checked on every replayed call through the predicates)",
        "Lanczos-based roots are exact only up to the documented tridiagonal jitter and only when the rank bound reaches n and the "
        "eigenvalues are distinct (predicate tolerance %g there; otherwise only shape/model agreement)" % TOL_KRYLOV,
        "float64 operators on CPU; default dtype float32 (library default) during the run",
        "singular members of a mixed batch carry the documented psd_safe_cholesky jitter (C16): compared with the model only"]


def run_shards_limited(ctx, shards, width=None):
    """common.run_shards in slices of `width` shards (at most `width` coqc at a time; VERIF_C06_WIDTH overrides the
    default of 6 — only the wall time depends on it)"""
    if width is None:
        try:
            width = max(1, int(os.environ.get("VERIF_C06_WIDTH", "6")))
        except ValueError:
            width = 6
    out = {}
    for i in range(0, len(shards), width):
        out.update(common.run_shards(ctx, shards[i:i + width], timeout=1200))
    return out


def explain_case(ctx, lit):
    p = os.path.join(ctx.gen, "cases_explain_%d.v" % os.getpid())
    open(p, "w").write(explain_src(lit))
    rc, out = common.coqc_file(PROP, p, timeout=300)
    for ext in (".v", ".vo", ".vok", ".vos", ".glob"):
        try:
            os.remove(p[:-2] + ext)
        except OSError:
            pass
    try:
        os.remove(os.path.join(os.path.dirname(p), "." + os.path.basename(p)[:-2] + ".aux"))
    except OSError:
        pass
    return out[-400:].strip()


def replay(rp):
    case = rp.get("case") or {}
    if "expr" not in case:
        print("replay file holds no case:", json.dumps(rp)[:400])
        return 1
    res = O.run_case(case)
    what, applicable, tol = direct_check(case, res)
    print("case:", {k: case.get(k) for k in ("cell", "kind", "batch", "op", "method", "upper", "mcs", "mrs", "fast", "inject", "pre", "steps",
                                             "target", "singular", "cj", "o")})
    print("observed:", res["kind"], res["exc"], res["msg"], "events", res["events"], "chosen", res["chosen"])
    print("property failure:" if what else "property holds on this case", what or "")
    return 1 if what else 0
