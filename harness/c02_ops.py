"""C02 programs: a small expression language over the composition / rewrite operations of the property, with

  eval_impl(P)   -> evaluates P on REAL linear_operator objects (operands built by opbuild.build)
  eval_dense(P)  -> evaluates the SAME program with plain torch on the dense tensors assembled by opbuild.dense
                    (torch broadcasting semantics) -- the independent oracle
  judge(P)       -> walks P bottom-up, compares EVERY node (dense value, shape, raises-or-not); returns the innermost
                    failing node (or None)

A program is JSON:
  {"p":"leaf","e":OpExpr}
  {"p":"t","t":T}            a torch tensor operand          {"p":"py","v":int}  a python float operand
  {"p":"add"|"sub"|"mul"|"matmul"|"div", "a":P, "b":P}       a + b, a - b, a * b, a @ b, a / b   (b may be t / py)
  {"p":"expand","a":P,"batch":[..]}      a.expand(*batch, m, n)
  {"p":"unsqueeze","a":P,"dim":d}        {"p":"squeeze","a":P,"dim":d}
  {"p":"permute","a":P,"dims":[..]}      batch permutation (matrix dims appended)
  {"p":"transpose","a":P,"d1":i,"d2":j}
  {"p":"sum","a":P,"dim":d}              batch dimension d
  {"p":"prod","a":P,"dim":d}
  {"p":"repeat","a":P,"sizes":[..]}      a.repeat(*sizes, 1, 1)
  {"p":"add_diagonal","a":P,"t":T}       {"p":"add_jitter","a":P,"v":int}
  {"p":"add_low_rank","a":P,"t":T}       a + B B^T
  {"p":"cat_rows","a":P,"B":T,"D":T}     [[a, B^T], [B, D]]
  {"p":"diagonal","a":P}                 a.diagonal()  (tensor result; only as the last step)
"""
import re

import torch

from . import opbuild as ob

BIN = ("add", "sub", "mul", "matmul", "div")
ROOT_BASED = ("add_low_rank", "cat_rows", "prod")       # operations the library defines through root decompositions


def is_lo(x):
    import linear_operator
    return isinstance(x, linear_operator.operators.LinearOperator)


# explicit "not supported" declarations of the library (message patterns): raising one of these where the dense
# expression is defined is allowed by the property ("raises an explicit not-supported error instead of returning
# something else"); anything else that raises where torch does not is a failure
NOT_SUPPORTED = {
    "*": [r"^NotImplementedError"],
    "permute": [r"cannot permute the non-batch dimensions"],
    "transpose": [r"Cannot transpose batch dimension with non-batch dimension"],
    "div": [r"Attempted to divide by a ZeroLinearOperator"],
    "mul": [r"MulLinearOperator expects two LinearOperators of the same size", r"DenseLinearOperator expects a matrix"],
    "add_diagonal": [r"only defined for square matrices"],
    "add_jitter": [r"only defined for square matrices"],
    "unsqueeze": [r"Can only unsqueeze batch dimensions"],
    "expand": [r"Invalid expand arguments"],
    "repeat": [r"Invalid repeat arguments"],
}


def declared_unsupported(op, text):
    return any(re.search(p, text) for p in NOT_SUPPORTED["*"] + NOT_SUPPORTED.get(op, []))


def is_root_step(P):
    """a single step whose value the library obtains through root decompositions (PSD operands only)"""
    p = P["p"]
    if p in ROOT_BASED:
        return True
    if p == "mul" and P["b"].get("p") not in ("t", "py"):
        return True
    if p in ("add", "sub"):
        return True          # `+ RootLinearOperator` runs add_low_rank; decided by the NotPSD message only
    return False


def kids(P):
    return [P[k] for k in ("a", "b") if isinstance(P.get(k), dict) and "p" in P[k]]


def nodes(P):
    for k in kids(P):
        yield from nodes(k)
    yield P


def depth(P):
    ks = kids(P)
    return 1 + (max(depth(k) for k in ks) if ks else 0)


def describe(P):
    p = P["p"]
    if p == "leaf":
        return ob.describe(P["e"])
    if p == "t":
        return "T%s" % (tuple(P["t"]["shape"]),)
    if p == "py":
        return "py(%s)" % P["v"]
    inner = ",".join(describe(k) for k in kids(P))
    extra = ""
    for k in ("batch", "dim", "dims", "d1", "d2", "sizes", "v"):
        if k in P:
            extra += ";%s=%s" % (k, P[k])
    for k in ("t", "B", "D"):
        if k in P and p not in ("t",):
            extra += ";%s%s" % (k, tuple(P[k]["shape"]))
    return "%s(%s%s)" % (p, inner, extra)


def _apply(p, P, a, b, dense):
    """one step on already evaluated children; `dense` selects torch semantics on tensors"""
    dt = torch.float64
    if p == "add":
        return a + b
    if p == "sub":
        return a - b
    if p == "mul":
        return a * b
    if p == "div":
        return a / b
    if p == "matmul":
        return a @ b
    if p == "expand":
        return a.expand(*P["batch"], *a.shape[-2:])
    if p == "unsqueeze":
        return a.unsqueeze(P["dim"])
    if p == "squeeze":
        return a.squeeze(P["dim"])
    if p == "permute":
        nb = len(P["dims"])
        return a.permute(*P["dims"], nb, nb + 1)
    if p == "transpose":
        return a.transpose(P["d1"], P["d2"])
    if p == "sum":
        return a.sum(P["dim"])
    if p == "diagonal":                      # LinearOperator.diagonal(): a TENSOR (terminal step)
        return a.diagonal(dim1=-2, dim2=-1) if dense else a.diagonal()
    if p == "prod":
        return a.prod(P["dim"])
    if p == "repeat":
        return a.repeat(*P["sizes"], 1, 1)
    if p == "add_diagonal":
        t = ob.tt(P["t"], dt)
        if not dense:
            return a.add_diagonal(t)
        shp = torch.broadcast_shapes(a.shape[:-1], t.shape)
        return a + torch.diag_embed(t.expand(shp))
    if p == "add_jitter":
        if not dense:
            return a.add_jitter(float(P["v"]))
        return a + float(P["v"]) * torch.eye(a.shape[-1], dtype=dt)
    if p == "add_low_rank":
        B = ob.tt(P["t"], dt)
        if not dense:
            return a.add_low_rank(B)
        return a + B @ B.mT
    if p == "cat_rows":
        B, D = ob.tt(P["B"], dt), ob.tt(P["D"], dt)
        if not dense:
            return a.cat_rows(B, D)
        bs = torch.broadcast_shapes(a.shape[:-2], B.shape[:-2], D.shape[:-2])
        ex = lambda x: x.expand(*bs, *x.shape[-2:])
        top = torch.cat([ex(a), ex(B.mT)], dim=-1)
        bot = torch.cat([ex(B), ex(D)], dim=-1)
        return torch.cat([top, bot], dim=-2)
    raise ValueError(p)


def _leafval(P, dense):
    p = P["p"]
    if p == "leaf":
        return ob.dense(P["e"], torch.float64) if dense else ob.build(P["e"], torch.float64)
    if p == "t":
        return ob.tt(P["t"], torch.float64)
    if p == "py":
        return float(P["v"])
    return None


def eval_any(P, dense):
    v = _leafval(P, dense)
    if v is not None:
        return v
    a = eval_any(P["a"], dense)
    b = eval_any(P["b"], dense) if P["p"] in BIN else None
    return _apply(P["p"], P, a, b, dense)


def eval_impl(P):
    return eval_any(P, False)


def eval_dense(P):
    return eval_any(P, True)


def observe(x):
    """the implementation's result -> (dense tensor, reported shape, class name)"""
    if is_lo(x):
        d = x.to_dense()
        return d.detach(), tuple(x.shape), type(x).__name__
    if torch.is_tensor(x):
        return x.detach(), tuple(x.shape), "Tensor"
    raise TypeError("result is %s" % type(x).__name__)


def exc_text(ex):
    return "%s:%s" % (type(ex).__name__, str(ex).replace("\n", " ")[:110])


def is_root_based(P):
    """value goes through a numerical root decomposition (compared with tolerance, PSD operands only)"""
    for n in nodes(P):
        if n["p"] in ROOT_BASED:
            return True
        if n["p"] == "mul" and n["b"].get("p") not in ("t", "py"):
            return True
        if n["p"] == "leaf" and any(x["cls"] == "Mul" for x in _enodes(n["e"])):
            return True
    return False


def _enodes(e):
    yield e
    if "ops" in e:
        for x in e["ops"]:
            yield from _enodes(x)
    for k in ("base", "l", "r", "kron", "diag", "a", "b", "root"):
        if isinstance(e.get(k), dict) and "cls" in e[k]:
            yield from _enodes(e[k])


def compare(got, gshape, exp, tol):
    """None | (failkind, text)"""
    if tuple(gshape) != tuple(exp.shape):
        return ("shape", "reported shape %s, dense expression has shape %s" % (tuple(gshape), tuple(exp.shape)))
    if tuple(got.shape) != tuple(exp.shape):
        return ("shape", "to_dense() has shape %s, dense expression has shape %s" % (tuple(got.shape), tuple(exp.shape)))
    g, e = got.to(torch.float64), exp.to(torch.float64)
    if g.numel() and not bool(torch.isfinite(g).all()) and bool(torch.isfinite(e).all()):
        return ("value", "non-finite entries")
    fin = torch.isfinite(e)
    err = float((g - e)[fin].abs().max()) if bool(fin.any()) else 0.0
    scale = float(e[fin].abs().max()) if bool(fin.any()) else 0.0
    if err > tol * max(1.0, scale):
        return ("value", "max abs difference %g (scale %g)" % (err, scale))
    return None


def step(P, vals_impl, vals_dense, tol):
    """evaluate node P given its evaluated children.  returns (status, impl_value, dense_value, info)
       status: ok | fail | unsupported | dense-undefined"""
    p = P["p"]
    a_i, a_d = vals_impl[id(P["a"])], vals_dense[id(P["a"])]
    b_i = b_d = None
    if p in BIN:
        b_i, b_d = vals_impl[id(P["b"])], vals_dense[id(P["b"])]
    try:
        exp = _apply(p, P, a_d, b_d, True)
        dense_err = None
    except Exception as ex:
        exp, dense_err = None, exc_text(ex)
    try:
        r = _apply(p, P, a_i, b_i, False)
        got, gshape, cls = observe(r)
        impl_err = None
    except Exception as ex:
        r, impl_err = None, exc_text(ex)
    if dense_err is not None:
        if impl_err is not None:
            return ("dense-undefined", None, None, {"impl": impl_err, "dense": dense_err})
        return ("fail", r, None, {"fail": "no-raise", "what": "dense expression raises (%s) but the library returns a %s of shape %s"
                                  % (dense_err, cls, gshape)})
    if impl_err is not None:
        if declared_unsupported(p, impl_err):
            return ("unsupported", None, exp, {"impl": impl_err})
        if is_root_step(P) and re.search(r"NotPSDError|not positive definite|not positive semi", impl_err):
            # the operands left the domain the property quantifies over (PSD) for a root-decomposition based step
            return ("not-psd", None, exp, {"impl": impl_err})
        return ("fail", None, exp, {"fail": "raises", "what": impl_err})
    f = compare(got, gshape, exp, tol)
    if f:
        return ("fail", r, exp, {"fail": f[0], "what": f[1], "cls": cls})
    return ("ok", r, exp, {"cls": cls, "got": got, "shape": gshape})


def operand_kind(P, val):
    """structural description of one operand of a step"""
    if P["p"] == "py":
        return "float"
    if P["p"] == "t":
        shp = P["t"]["shape"]
        if len(shp) == 0:
            return "tensor0d"
        if len(shp) == 1:
            return "tensor1d"
        if shp[-2:] == [1, 1]:
            return "tensor-batch-of-constants" if len(shp) > 2 else "tensor11"
        return "tensor-matrix"
    if is_lo(val):
        return type(val).__name__.replace("LinearOperator", "")
    return "Tensor"


def _shape_of(v):
    return tuple(v.shape) if hasattr(v, "shape") else ()


def judge(P, tol=None, record=False):
    """bottom-up evaluation of every node.  returns dict:
         status: ok | fail | unsupported | not-psd | dense-undefined | build-error
         node  : the innermost node where status was decided (for fail: the failing step, children all ok)
         info  : for a failing / refused step also a_kind, b_kind (operand classes / tensor kinds), bcast, a_nbatch
         trace : [(op, status, result class)]
         obs   : id(node) -> (status, observed dense tensor | None)     dshape: id(node) -> shape of the dense value"""
    if tol is None:
        tol = 1e-6 if is_root_based(P) else 1e-9
        if sum(1 for n in nodes(P) if n["p"] in ROOT_BASED or (n["p"] == "mul" and isinstance(n.get("b"), dict)
                                                                 and n["b"].get("p") not in ("t", "py"))) >= 2:
            tol = 1e-5          # two chained root-based steps (e.g. cat_rows, then operator * operator): errors compound
    vi, vd = {}, {}
    trace, obs, dshape, kinds = [], {}, {}, {}
    last = None
    for n in nodes(P):
        try:
            lv_i, lv_d = _leafval(n, False), _leafval(n, True)
        except Exception as ex:
            return {"status": "build-error", "node": n, "info": {"what": exc_text(ex)}, "trace": trace, "obs": obs, "dshape": dshape, "kinds": kinds}
        if lv_i is not None:
            vi[id(n)], vd[id(n)] = lv_i, lv_d
            dshape[id(n)] = _shape_of(lv_d)
            continue
        st, r, exp, info = step(n, vi, vd, tol)
        trace.append((n["p"], st, info.get("cls")))
        a = n["a"]
        info["a_kind"] = operand_kind(a, vi[id(a)])
        sa = _shape_of(vd[id(a)])
        info["a_nbatch"] = max(0, len(sa) - 2)
        if n["p"] in BIN:
            b = n["b"]
            info["b_kind"] = operand_kind(b, vi[id(b)])
            sb = _shape_of(vd[id(b)])
            info["bcast"] = bool(len(sa) >= 2 and len(sb) >= 2 and tuple(sa[:-2]) != tuple(sb[:-2]))
        kinds[id(n)] = {"a": info.get("a_kind"), "b": info.get("b_kind"), "bcast": info.get("bcast"), "nbatch": info.get("a_nbatch")}
        if st == "ok":
            obs[id(n)] = ("ok", info.get("got"))
        elif st == "fail":
            got = None
            if r is not None:
                try:
                    got = observe(r)[0]
                except Exception:
                    got = None
            obs[id(n)] = ("fail", got)
        elif st in ("unsupported", "not-psd"):
            obs[id(n)] = (st, None)
        else:
            obs[id(n)] = (st, None)
        if exp is not None:
            dshape[id(n)] = _shape_of(exp)
        if st != "ok":
            return {"status": st, "node": n, "info": info, "trace": trace, "obs": obs, "dshape": dshape, "kinds": kinds}
        vi[id(n)], vd[id(n)] = r, exp
        last = (n, info)
    return {"status": "ok", "node": P, "info": last[1] if last else {}, "trace": trace, "obs": obs, "dshape": dshape, "kinds": kinds}
