"""C01 - source scan for size thresholds (informational; it only WIDENS the input grid, never raises a VIOLATION).

The correspondence grid of harness/c01.py uses small matrices and a handful of right-hand-side columns.  Code that chunks,
loops or allocates by a column / row COUNT (`range(n // 1024)`, a hard-coded block size, a `settings.max_*` threshold)
behaves differently beyond a threshold no small input reaches.  Every run therefore scans the anchored files for

  lit       integer literals >= 64 (also as module constants such as _MAX_INTERP_COLUMNS = 1024)
  floordiv  `a // b` expressions (block counts)
  setting   references to `settings.<name>` (size thresholds live there)
  chunk     calls of .split / .chunk / torch.split / torch.chunk / .unfold

and compares them with the items pinned in harness/c01_scan_pins.json (the tree the grid was designed against).
`thresholds(items)` are the literal values the thin "wide / tall" family of harness/c01.py must straddle
(T-1, T, T+1, 2T+1 right-hand-side columns / left-hand-side rows / operator sizes), on top of the built-in 1024.

  /venv/bin/python -m harness.c01_scan --update      rewrite the pins from $VERIF_REPO (default /repo)
"""
import ast
import json
import os
import sys

from . import c01_pins

PINS = os.path.join(os.path.dirname(os.path.abspath(__file__)), "c01_scan_pins.json")
MIN_LIT = 64
MAX_T = 4096           # thresholds above this are reported but not straddled (cost)
BUILTIN = [1024]
CHUNK_CALLS = {"split", "chunk", "unfold", "tensor_split"}


def scan(repo):
    """list of items {kind, file, where, text[, value]}"""
    items = []
    for rel in c01_pins.anchored_files():
        try:
            tree = ast.parse(open(os.path.join(repo, rel)).read())
        except (OSError, SyntaxError):
            continue
        short = rel.replace("linear_operator/", "")

        def walk(node, where):
            for ch in ast.iter_child_nodes(node):
                w = where
                if isinstance(ch, (ast.ClassDef, ast.FunctionDef, ast.AsyncFunctionDef)):
                    w = (where + "." if where else "") + ch.name
                if isinstance(ch, ast.Constant) and isinstance(ch.value, int) and not isinstance(ch.value, bool) \
                        and abs(ch.value) >= MIN_LIT:
                    items.append({"kind": "lit", "file": short, "where": where, "text": str(ch.value), "value": abs(ch.value)})
                elif isinstance(ch, ast.BinOp) and isinstance(ch.op, ast.FloorDiv):
                    items.append({"kind": "floordiv", "file": short, "where": where, "text": ast.unparse(ch)[:80]})
                elif isinstance(ch, ast.Attribute) and isinstance(ch.value, ast.Name) and ch.value.id == "settings":
                    items.append({"kind": "setting", "file": short, "where": where, "text": "settings." + ch.attr})
                elif isinstance(ch, ast.Call) and isinstance(ch.func, ast.Attribute) and ch.func.attr in CHUNK_CALLS:
                    items.append({"kind": "chunk", "file": short, "where": where, "text": ast.unparse(ch.func)[:60]})
                walk(ch, w)
        walk(tree, "")
    return items


def key(it):
    return "%s|%s|%s|%s" % (it["kind"], it["file"], it["where"], it["text"])


def new_items(items):
    try:
        pinned = set(json.load(open(PINS))["items"])
    except (OSError, ValueError, KeyError):
        return None
    return [it for it in items if key(it) not in pinned]


def thresholds(items):
    """(values to straddle, values found but too large to straddle)"""
    vals = sorted({it["value"] for it in items if it["kind"] == "lit"} | set(BUILTIN))
    return [v for v in vals if v <= MAX_T], [v for v in vals if v > MAX_T]


def family(ts):
    out = {1, 2}
    for t in ts:
        out |= {t - 1, t, t + 1, 2 * t + 1}
    return sorted(x for x in out if x >= 1)


if __name__ == "__main__":
    repo = os.environ.get("VERIF_REPO", "/repo")
    its = scan(repo)
    if "--update" in sys.argv:
        json.dump({"note": "size-threshold candidates (integer literals >= 64, floor divisions, settings.* references, chunking calls) "
                           "in the files anchored by C01 on the tree the wide / tall family was designed against",
                   "items": sorted({key(i) for i in its})}, open(PINS, "w"), indent=1)
        print("pinned", len({key(i) for i in its}), "items")
    else:
        for i in new_items(its) or []:
            print(key(i))
        print("thresholds", thresholds(its), "family", family(thresholds(its)[0]))
