"""C18 helper: replace the base noise of the samplers inside the harness process (no repo hook).

`torch.randn` is monkeypatched while a sampler runs.  A call is treated as *sampler noise* when a frame named
`zero_mean_mvn_samples` is on the stack and no frame of linear_operator/utils or linear_operator/functions lies
between it and the call (Lanczos / CIQ / MINRES draw their own start vectors with torch.randn: those keep the real,
seeded generator).  Sampler-noise calls are recorded (shape, order) and answered by a provider.

Because a draw is linear in the noise, running the sampler with every single noise entry set to 1 (all others 0)
recovers the complete linear map  noise entries -> returned tensor  without knowing anything about the layout.
"""
import math
import sys

import torch

_real_randn = torch.randn


class Patch:
    def __init__(self):
        self.calls = []          # [(shape tuple, basename of the calling file)]
        self.provider = None     # (call index, shape) -> float64 tensor ; None = zeros

    def __call__(self, *size, **kw):
        if len(size) == 1 and isinstance(size[0], (tuple, list, torch.Size)):
            size = tuple(size[0])
        size = tuple(int(s) for s in size)
        fr = sys._getframe(1)
        caller = fr.f_code.co_filename
        is_noise = False
        depth = 0
        while fr is not None and depth < 40:
            fn = fr.f_code.co_filename
            if "linear_operator/utils/" in fn or "linear_operator/functions/" in fn:
                break
            if fr.f_code.co_name == "zero_mean_mvn_samples":
                is_noise = True
                break
            fr = fr.f_back
            depth += 1
        if not is_noise:
            return _real_randn(*size, **kw)
        idx = len(self.calls)
        self.calls.append((size, caller.split("/")[-1]))
        dt = kw.get("dtype") or torch.get_default_dtype()
        if self.provider is None:
            return torch.zeros(*size, dtype=dt)
        return self.provider(idx, size).to(dt).reshape(size)


class patched:
    def __init__(self):
        self.p = Patch()

    def __enter__(self):
        torch.randn = self.p
        return self.p

    def __exit__(self, *a):
        torch.randn = _real_randn
        return False


def run_with(patch, sampler, k, tensors=None):
    """one sampler call; tensors: list of flat float lists/tensors per call (None = zeros)"""
    patch.calls = []
    if tensors is None:
        patch.provider = None
    else:
        def prov(idx, size):
            if idx < len(tensors):
                return torch.as_tensor(tensors[idx], dtype=torch.float64).reshape(size)
            return torch.zeros(*size, dtype=torch.float64)
        patch.provider = prov
    out = sampler(k)
    return out, list(patch.calls)


def jacobian(patch, sampler, k, plan, base=None):
    """complete linear map: J[..., c] = sampler output when noise entry c (over all calls, call-major) is 1.
    plan = [(shape, file)] from a previous call.  Returns J of shape out.shape + (D,) and the column offsets.
    base (list of flat tensors, one per call): the unit entry is ADDED to this generic noise and the output of the
    base noise is subtracted (finite difference).  Needed for the CIQ branch, which derives its quadrature nodes from a
    Lanczos run started at the first noise vector: all-zero / unit first vectors are degenerate start vectors."""
    sizes = [int(math.prod(s)) for s, _ in plan]
    offs = [0]
    for s in sizes:
        offs.append(offs[-1] + s)
    cols = []
    out_base = None
    if base is not None:
        base = [torch.as_tensor(b, dtype=torch.float64).reshape(-1) for b in base]
        out_base, _ = run_with(patch, sampler, k, base)
        out_base = out_base.to(torch.float64)
    for ci, sz in enumerate(sizes):
        for o in range(sz):
            def prov(idx, size, ci=ci, o=o):
                if base is None:
                    z = torch.zeros(int(math.prod(size)), dtype=torch.float64)
                else:
                    z = base[idx].clone()
                if idx == ci:
                    z[o] += 1.0
                return z
            patch.calls = []
            patch.provider = prov
            r = sampler(k)
            if [s for s, _ in patch.calls] != [s for s, _ in plan]:
                raise RuntimeError("randn call pattern changed between calls: %r vs %r" % (patch.calls, plan))
            cols.append(r.to(torch.float64) if out_base is None else r.to(torch.float64) - out_base)
    if not cols:
        return None, offs
    return torch.stack(cols, -1), offs


class ciq_recorder:
    """Record the quadrature rule contour_integral_quad builds when the right-hand side has extra leading dimensions
    (the sampler's sample axis), together with the rule the SAME function builds for the first slice of that rhs alone
    (no extra dimension: its broadcast branch is not executed).  zero_mean_mvn_samples imports the function at call time,
    so replacing the module attribute is enough (no repo hook).  rules: list of dicts
    {Q, k (= product of the extra dims), B, w (Q,B), sh (Q+1,B), W (Q,k,B), S (Q+1,k,B)} as flat float lists."""

    def __init__(self, limit=2):
        self.rules, self.limit, self.errors = [], limit, []

    def __enter__(self):
        import importlib
        # (linear_operator.utils re-exports the function under the submodule's name: go through sys.modules)
        mod = importlib.import_module("linear_operator.utils.contour_integral_quad")
        self.mod, self.real = mod, mod.contour_integral_quad
        real, rec = self.real, self

        def wrapper(linear_op, rhs, *a, **kw):
            out = real(linear_op, rhs, *a, **kw)
            try:
                extra = rhs.dim() - linear_op.dim()
                if extra > 0 and kw.get("weights") is None and kw.get("shifts") is None and len(a) < 2 \
                        and len(rec.rules) < rec.limit:
                    ref = real(linear_op, rhs[(0,) * extra], *a, **kw)
                    w, sh, W, S = ref[1], ref[3], out[1], out[3]
                    B = int(math.prod(linear_op.batch_shape))
                    k = int(math.prod(rhs.shape[:extra]))
                    rec.rules.append({"Q": int(w.shape[0]), "k": k, "B": B,
                                      "w": [float(x) for x in w.reshape(-1).tolist()],
                                      "sh": [float(x) for x in sh.reshape(-1).tolist()],
                                      "W": [float(x) for x in W.reshape(-1).tolist()],
                                      "S": [float(x) for x in S.reshape(-1).tolist()],
                                      "W_shape": [int(x) for x in W.shape], "S_shape": [int(x) for x in S.shape]})
            except Exception as ex:       # the recorder must never change the outcome of the run
                rec.errors.append(repr(ex)[:200])
            return out
        mod.contour_integral_quad = wrapper
        return self

    def __exit__(self, *a):
        self.mod.contour_integral_quad = self.real
        return False
