"""C18 helper: the two input families that a single fresh-operator grid does not contain.

(a) HISTORIES — zero_mean_mvn_samples reads decompositions that OTHER public calls leave in the operator's memoize
    cache (`root_decomposition` is @cached and `_choose_root_method` looks for symeig / diagonalization / lanczos
    entries; `_root_inv_decomposition`, `add_low_rank` and `cat_rows` write the `root_decomposition` entry directly).
    A history is a list of such calls made on the operator object (or on its generic leaves) before it is sampled;
    a derivation builds a new operator from the (history-laden) one and samples that.  The predicate is unchanged:
    per batch member R_b R_b^T = A_b for the complete noise -> draws map.
(b) VAR — batches whose members have clearly different spectra and scales (never identical members): every member j
    gets its own rotation, its own condition number (2, 4 or 9) and its own scale (a power of 4 between 1/64 and 64),
    so that using another member's root / quadrature / diagonal is an O(1) relative error of that member.

Everything here is enumerated deterministically; the seed only picks values."""
import torch

from . import c18_noise as N

# ----------------------------------------------------------------------------------------- (b) members that differ

CONDS = [2.0, 4.0, 9.0]


def member_scale(j, off=0):
    return 4.0 ** (((j + off) * 3) % 7 - 3)


# family (d): members whose scales differ by many orders of magnitude (beyond 1 / (n * eps) of the dtype), so that any
# quantity reduced over the WHOLE batch instead of per member (a rank cut-off, a jitter, a tolerance) wipes out a member
XS_SCALES = {"float64": [1.0, 1e-9, 1e6, 1e-12], "float32": [1.0, 1e-9, 1e6]}
_XS = [None]


class xs_scales:
    def __init__(self, dtype):
        self.s = XS_SCALES[dtype]

    def __enter__(self):
        _XS[0] = {"s": self.s, "off": None}      # one offset per expression: all summands of a member share its scale

    def __exit__(self, *a):
        _XS[0] = None
        return False


def member_params(rng, B):
    off = rng.randrange(7)
    if _XS[0] is not None:
        if _XS[0]["off"] is None:
            _XS[0]["off"] = off
        xs, o = _XS[0]["s"], _XS[0]["off"]
        return [(xs[(j + o) % len(xs)], CONDS[(j + off) % 3]) for j in range(B)]
    return [(member_scale(j, off), CONDS[(j + off) % 3]) for j in range(B)]


def sing_xs(rng, batch, n):
    """like spd_var_tensor, but every member of the LARGEST scale is rank-deficient (a a^T, rank n-1, float data): its
    Cholesky factorization fails by round-off or needs jitter; LinearOperator.root_decomposition then falls back to symeig"""
    B = _prod(batch)
    g = torch.Generator().manual_seed(rng.randrange(1 << 30))
    ps = member_params(rng, B)
    big = max(s for s, _ in ps)
    mats = []
    for (s, c) in ps:
        if s == big and n > 1:
            a = N._real_randn(n, n - 1, generator=g, dtype=torch.float64)
            A = s * (a @ a.mT)
        else:
            Q, _ = torch.linalg.qr(N._real_randn(n, n, generator=g, dtype=torch.float64))
            ev = torch.linspace(1.0, c, n, dtype=torch.float64) if n > 1 else torch.tensor([(1.0 + c) / 2], dtype=torch.float64)
            A = (Q * (s * ev)) @ Q.mT
        mats.append((A + A.mT) / 2)
    return ft(torch.stack(mats).reshape(*batch, n, n))


def _prod(xs):
    p = 1
    for x in xs:
        p *= int(x)
    return p


def spd_var_tensor(rng, batch, n):
    """(*batch, n, n) SPD; member j = s_j * Q_j diag(linspace(1, c_j, n)) Q_j^T  (simple spectrum, kappa = c_j <= 9)"""
    B = _prod(batch)
    g = torch.Generator().manual_seed(rng.randrange(1 << 30))
    mats = []
    for (s, c) in member_params(rng, B):
        Q, _ = torch.linalg.qr(N._real_randn(n, n, generator=g, dtype=torch.float64))
        ev = torch.linspace(1.0, c, n, dtype=torch.float64) if n > 1 else torch.tensor([(1.0 + c) / 2], dtype=torch.float64)
        A = (Q * (s * ev)) @ Q.mT
        mats.append((A + A.mT) / 2)
    return torch.stack(mats).reshape(*batch, n, n)


def ft(x):
    return {"shape": list(x.shape), "data": [float(v) for v in x.reshape(-1).tolist()]}


def spd_var(rng, batch, n):
    return ft(spd_var_tensor(rng, batch, n))


def diag_var(rng, batch, n):
    B = _prod(batch)
    rows = []
    for (s, c) in member_params(rng, B):
        rows.append([s * rng.randint(4, 4 * int(c)) / 4 for _ in range(n)])
    return {"shape": list(batch) + [n], "data": [x for r in rows for x in r]}


def chol_var(rng, batch, n):
    """lower factor of the member matrices (exact Cholesky of spd_var, computed by plain torch)"""
    A = spd_var_tensor(rng, batch, n)
    return ft(torch.linalg.cholesky(A))


def root_var(rng, batch, n, r):
    B = _prod(batch)
    rows = []
    for (s, c) in member_params(rng, B):
        rows.append([(s ** 0.5) * rng.randint(-8, 8) / 4 for _ in range(n * r)])
    return {"shape": list(batch) + [n, r], "data": [x for row in rows for x in row]}


VAR_LEAVES = ["DenseVar", "DiagVar", "AddedDiagVar", "SumVar", "CholVar", "RootVar", "ConstantMulVar", "KronVar", "ConstantDiagVar"]
VAR_CHILD_ROT = ["DenseVar", "DiagVar", "AddedDiagVar", "CholVar", "SumVar", "RootVar"]


def gen_var_leaf(rng, cls, batch, n):
    batch = list(batch)
    if cls == "DenseVar":
        return {"cls": "Dense", "t": spd_var(rng, batch, n)}
    if cls == "DiagVar":
        return {"cls": "Diag", "d": diag_var(rng, batch, n)}
    if cls == "ConstantDiagVar":
        B = _prod(batch)
        return {"cls": "ConstantDiag", "c": {"shape": batch + [1], "data": [s * c for (s, c) in member_params(rng, B)]}, "n": n}
    if cls == "AddedDiagVar":
        return {"cls": "AddedDiag", "base": {"cls": "Dense", "t": spd_var(rng, batch, n)},
                "diag": {"cls": "Diag", "d": diag_var(rng, batch, n)}}
    if cls == "SumVar":
        return {"cls": "Sum", "ops": [{"cls": "Dense", "t": spd_var(rng, batch, n)},
                                      {"cls": "Diag", "d": diag_var(rng, batch, n)}]}
    if cls == "CholVar":
        return {"cls": "Chol", "t": chol_var(rng, batch, n), "upper": False}
    if cls == "RootVar":
        return {"cls": "Root", "root": root_var(rng, batch, n, n + rng.randrange(2))}
    if cls == "ConstantMulVar":
        B = _prod(batch)
        cs = [member_scale(j, 2) for j in range(B)]
        return {"cls": "ConstantMul", "base": {"cls": "Dense", "t": spd_var(rng, batch, n)},
                "c": {"shape": batch, "data": cs}}
    if cls == "KronVar":
        n1 = 2 if n % 2 == 0 and n > 2 else 1
        n2 = n // n1
        return {"cls": "Kron", "ops": [{"cls": "Dense", "t": spd_var(rng, batch, n1)},
                                       {"cls": "Dense", "t": spd_var(rng, batch, n2)}]}
    raise ValueError(cls)


# ----------------------------------------------------------------------------------------- (c) preconditioned operators
# AddedDiagLinearOperator is the class that supplies a preconditioner (pivoted Cholesky of the non-diagonal part);
# CIQ sampling then runs preconditioned CG / MINRES and a nested CIQ with the preconditioner's root.

PC_LEAVES = ["AddedDiagVar", "AddedDiagConstVar", "AddedDiagLRVar", "AddedDiag", "AddedDiagSpec"]
PC_STRUCT = ["BlockDiag(AD)", "BlockInterleaved(AD)", "SumBatch(AD)", "PsdSum(AD,Diag)", "PsdSum(AD,AD)", "Sum(AD,Dense)",
             "Interpolated(AD)"]
PC_ROT = ["AddedDiagVar", "AddedDiagConstVar", "AddedDiagLRVar"]


def lowrank_var(rng, batch, n, r):
    """(*batch, n, n) = a a^T with a:(n, r), member j scaled by s_j (rank r < n: the pivoted Cholesky of rank >= r is exact)"""
    B = _prod(batch)
    g = torch.Generator().manual_seed(rng.randrange(1 << 30))
    mats = []
    for (s, c) in member_params(rng, B):
        a = N._real_randn(n, r, generator=g, dtype=torch.float64) * (s * c / (2 * n)) ** 0.5
        mats.append(a @ a.mT)
    return ft(torch.stack(mats).reshape(*batch, n, n))


def gen_pc(rng, cls, batch, n, rot, interp):
    batch = list(batch)
    if cls == "AddedDiagConstVar":
        B = _prod(batch)
        return {"cls": "AddedDiag", "base": {"cls": "Dense", "t": spd_var(rng, batch, n)},
                "diag": {"cls": "ConstantDiag", "c": {"shape": batch + [1], "data": [s * c / 2 for (s, c) in member_params(rng, B)]}, "n": n}}
    if cls == "AddedDiagLRVar":
        return {"cls": "AddedDiag", "base": {"cls": "Dense", "t": lowrank_var(rng, batch, n, max(1, min(3, n - 1)))},
                "diag": {"cls": "Diag", "d": diag_var(rng, batch, n)}}
    if cls == "AddedDiagVar":
        return gen_var_leaf(rng, cls, batch, n)
    ad = lambda i, b, m: gen_pc(rng, PC_ROT[(rot + i) % len(PC_ROT)], b, m, rot, interp)
    if cls in ("BlockDiag(AD)", "BlockInterleaved(AD)", "SumBatch(AD)"):
        nb = 2 + rot % 2
        return {"cls": cls[:-4], "base": ad(0, batch + [nb], n), "block_dim": -3}
    if cls == "PsdSum(AD,Diag)":
        return {"cls": "PsdSum", "ops": [ad(0, batch, n), {"cls": "Diag", "d": diag_var(rng, batch, n)}]}
    if cls == "PsdSum(AD,AD)":
        return {"cls": "PsdSum", "ops": [ad(0, batch, n), ad(1, batch, n)]}
    if cls == "Sum(AD,Dense)":
        return {"cls": "Sum", "ops": [ad(0, batch, n), {"cls": "Dense", "t": spd_var(rng, batch, n)}]}
    if cls == "Interpolated(AD)":
        return interp(rng, ad(0, batch, 3 + rot % 3), batch, n)
    raise ValueError(cls)


# ----------------------------------------------------------------------------------------- (a) histories

def _rhs(op, g, cols):
    return N._real_randn(*op.batch_shape, op.shape[-1], cols, generator=g, dtype=op.dtype)


# name -> (call, flag): may the call leave a Lanczos-based (approximate) decomposition where the sampler finds it?
#   0 never   1 always   2 when the size exceeds settings.max_cholesky_size
STEPS = {
    "rd": (lambda op, g: op.root_decomposition(), 2),
    "rd_cholesky": (lambda op, g: op.root_decomposition(method="cholesky"), 0),
    "rd_lanczos": (lambda op, g: op.root_decomposition(method="lanczos"), 1),
    "rd_symeig": (lambda op, g: op.root_decomposition(method="symeig"), 0),
    "rd_svd": (lambda op, g: op.root_decomposition(method="svd"), 0),
    "rd_pivoted_cholesky": (lambda op, g: op.root_decomposition(method="pivoted_cholesky"), 0),
    "ri": (lambda op, g: op.root_inv_decomposition(), 2),
    "ri_lanczos": (lambda op, g: op.root_inv_decomposition(method="lanczos"), 1),
    "ri_lanczos_iv1": (lambda op, g: op.root_inv_decomposition(method="lanczos", initial_vectors=_rhs(op, g, 1)), 1),
    "ri_lanczos_iv3": (lambda op, g: op.root_inv_decomposition(method="lanczos", initial_vectors=_rhs(op, g, 3),
                                                              test_vectors=_rhs(op, g, 4)), 1),
    "ri_lanczos_iv2": (lambda op, g: op.root_inv_decomposition(method="lanczos", initial_vectors=_rhs(op, g, 2),
                                                              test_vectors=_rhs(op, g, 1)), 1),
    "ri_iv1": (lambda op, g: op.root_inv_decomposition(initial_vectors=_rhs(op, g, 1)), 2),
    "ri_iv3": (lambda op, g: op.root_inv_decomposition(initial_vectors=_rhs(op, g, 3), test_vectors=_rhs(op, g, 2)), 2),
    "ri_cholesky": (lambda op, g: op.root_inv_decomposition(method="cholesky"), 0),
    "ri_symeig": (lambda op, g: op.root_inv_decomposition(method="symeig"), 0),
    "ri_svd": (lambda op, g: op.root_inv_decomposition(method="svd"), 0),
    "ri_pinverse": (lambda op, g: op.root_inv_decomposition(method="pinverse"), 2),
    "cholesky": (lambda op, g: op.cholesky(), 0),
    "cholesky_upper": (lambda op, g: op.cholesky(upper=True), 0),
    "solve": (lambda op, g: op.solve(_rhs(op, g, 2)), 0),
    "solve_vec": (lambda op, g: op.solve(_rhs(op, g, 1)), 0),
    "inv_quad_logdet": (lambda op, g: op.inv_quad_logdet(_rhs(op, g, 2), logdet=True), 2),
    "inv_quad": (lambda op, g: op.inv_quad(_rhs(op, g, 1)), 0),
    "logdet": (lambda op, g: op.logdet(), 2),
    "diagonalization": (lambda op, g: op.diagonalization(), 2),
    "diagonalization_lanczos": (lambda op, g: op.diagonalization(method="lanczos"), 1),
    "diagonalization_symeig": (lambda op, g: op.diagonalization(method="symeig"), 2),   # the sampler then calls diagonalization() = lanczos above max_cholesky_size
    "eigh": (lambda op, g: torch.linalg.eigh(op), 0),
    "eigvalsh": (lambda op, g: torch.linalg.eigvalsh(op), 0),
    "svd": (lambda op, g: op.svd(), 0),
    "sqrt_inv_matmul": (lambda op, g: op.sqrt_inv_matmul(_rhs(op, g, 2)), 2),
    "sample": (lambda op, g: op.zero_mean_mvn_samples(2), 2),
    "pivoted_cholesky": (lambda op, g: op.pivoted_cholesky(rank=2), 0),
    "matmul": (lambda op, g: op.matmul(_rhs(op, g, 2)), 0),
    "to_dense": (lambda op, g: op.to_dense(), 0),
    "diagonal": (lambda op, g: op.diagonal(), 0),
    "evaluate_kernel": (lambda op, g: op.evaluate_kernel(), 0),
}

SINGLE = list(STEPS)
DOUBLE = [["ri_lanczos_iv1", "rd"], ["sample", "ri_lanczos_iv1"], ["sample", "ri_lanczos_iv3"], ["cholesky", "ri_lanczos_iv1"],
          ["rd_symeig", "ri_lanczos_iv1"], ["diagonalization_lanczos", "ri_iv1"], ["ri_lanczos_iv3", "ri_lanczos_iv1"],
          ["ri_lanczos", "cholesky"], ["solve", "sample"], ["inv_quad_logdet", "ri_iv1"], ["ri_iv1", "sample"],
          ["eigh", "ri_lanczos_iv2"]]
HISTORIES = [[s] for s in SINGLE] + DOUBLE


def history_approx(steps, n, max_chol):
    return any(STEPS[s][1] == 1 or (STEPS[s][1] == 2 and n > max_chol) for s in steps)


def apply_history(ops, steps, seed):
    """run the steps on every operator of `ops`; a step that raises is still part of the history (the operator must
    remain samplable afterwards).  Returns the list of (step, exception class) that raised."""
    raised = []
    g = torch.Generator().manual_seed(seed % (1 << 31))
    for op in ops:
        for s in steps:
            try:
                STEPS[s][0](op, g)
            except Exception as ex:           # noqa: a failing auxiliary call is not a C18 failure
                raised.append((s, type(ex).__name__))
    return raised


# derivations: new operator built from the history-laden one; (build, dense meaning, applicable)
def _low_rank(op, g):
    return _rhs(op, g, 1)


def derive(name, op, A, seed):
    """-> (derived operator, its dense meaning by plain torch)"""
    g = torch.Generator().manual_seed((seed + 17) % (1 << 31))
    n = A.shape[-1]
    eye = torch.eye(n, dtype=A.dtype)
    if name == "add_jitter":
        return op.add_jitter(0.5), A + 0.5 * eye
    if name == "add_diagonal":
        d = torch.rand(*A.shape[:-1], generator=g, dtype=A.dtype) + 0.25
        return op.add_diagonal(d), A + torch.diag_embed(d)
    if name == "mul_constant":
        return op * 2.5, A * 2.5
    if name == "getitem_batch":
        if A.dim() < 3 or A.shape[0] < 2:
            raise ValueError("not applicable")
        return op[1], A[1]
    if name == "unsqueeze":
        return op.unsqueeze(0), A.unsqueeze(0)
    if name == "expand":
        return op.expand(2, *A.shape), A.expand(2, *A.shape)
    if name == "add_low_rank":
        V = _rhs(op, g, 1)
        return op.add_low_rank(V), A + V @ V.mT
    if name == "add_low_rank2":
        V = _rhs(op, g, 2)
        return op.add_low_rank(V), A + V @ V.mT
    if name == "cat_rows":
        # [[A, B^T], [B, D]] kept positive definite: B = W A with small W, D = W A W^T + I
        W = 0.25 * N._real_randn(*A.shape[:-2], 2, n, generator=g, dtype=A.dtype)
        Bm = W @ A
        D = W @ A @ W.mT + torch.eye(2, dtype=A.dtype) * A.abs().amax(dim=(-2, -1), keepdim=True)
        C = torch.cat([torch.cat([A, Bm.mT], -1), torch.cat([Bm, D], -1)], -2)
        return op.cat_rows(Bm, D), C
    if name == "detach":
        return op.detach(), A
    if name == "clone":
        return op.clone(), A
    raise ValueError(name)


DERIVATIONS = ["add_jitter", "add_diagonal", "mul_constant", "getitem_batch", "unsqueeze", "expand", "add_low_rank",
               "add_low_rank2", "cat_rows", "detach", "clone"]
DERIVE_APPROX = {"add_low_rank", "add_low_rank2", "cat_rows"}      # their cached root comes from root_inv_decomposition
DERIVE_HIST = [[], ["ri_lanczos_iv1"], ["rd"], ["ri_lanczos_iv3"], ["cholesky"], ["sample"]]
