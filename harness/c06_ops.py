"""C06 — running one factorisation query on the real library, with the solver primitives observed.

A *case* is a JSON dict
  {"expr": <opbuild expression, float data allowed>, "op": cholesky|root|root_inv|eigh|eigvalsh|diag|svd|
            t_cholesky|t_eigh|t_eigvalsh|t_svd  (t_* = through torch.linalg.<fn>(op)),
   "method": None|str, "upper": bool,
   "mcs": max_cholesky_size, "mrs": max_root_decomposition_size, "fast": fast_computations.covar_root_decomposition,
   "inject": [cache names put on the operator with memoize.add_to_cache before the call],
   "pre": [ops called on the same object before the observed call]}

`run_case` builds the operator through the public constructors (opbuild.build), enters the settings contexts, calls the
public method and returns everything observable: outcome kind, the dense factors, and the *events*: which LAPACK-level /
Krylov primitives were run on which sizes (torch.linalg.cholesky_ex / eigh / svd / qr / pinverse / solve_triangular,
lanczos_tridiag, pivoted Cholesky) together with the (input, output) pairs of every eigh call — these are the oracle
answers the Coq model is run with.  The wrappers are installed in the harness process only (no repo hook).
"""
import contextlib
import math

import torch

from . import opbuild

torch.set_num_threads(1)
F64 = torch.float64


def lib():
    import linear_operator
    from linear_operator import settings
    from linear_operator.operators import LinearOperator
    from linear_operator.utils import lanczos, memoize
    from linear_operator.utils.errors import NanError, NotPSDError
    return dict(lo=linear_operator, settings=settings, LinearOperator=LinearOperator, lanczos=lanczos, memoize=memoize,
                NanError=NanError, NotPSDError=NotPSDError)


def tolist(x):
    return {"shape": list(x.shape), "data": [float(v) for v in x.detach().to(F64).reshape(-1).tolist()]}


def totensor(t):
    return torch.tensor(t["data"], dtype=F64).reshape(t["shape"])


def densify(x):
    if x is None:
        return None
    if torch.is_tensor(x):
        return x
    return x.to_dense()


class Recorder:
    """context manager: wraps the solver primitives the anchored code can reach and logs them.
    events  : (kind, size[, k]) of every primitive run
    eigh    : (input, evals, evecs) of every torch.linalg.eigh call on a tensor
    lzd     : (A, max_iter, evals, evecs) of every Diagonalization.apply   (A = dense matrix of the operator it ran on)
    lzr     : (A, max_iter, root, inverse) of every RootDecomposition.apply
    piv     : (A, rank, factor) of every pivoted_cholesky ;  pinv : (input, output) of every torch.pinverse
    chosen  : (class, n, method) returned by every _choose_root_method call"""

    def __init__(self):
        self.events, self.eigh, self.lzd, self.lzr, self.piv, self.pinv, self.chosen = [], [], [], [], [], [], []
        self._saved = []
        self._deleted = []

    def _patch(self, obj, name, new, own=True):
        if own or name in obj.__dict__:
            self._saved.append((obj, name, getattr(obj, name)))
        else:
            self._deleted.append((obj, name))
        setattr(obj, name, new)

    def __enter__(self):
        L = lib()
        rec = self
        from linear_operator.functions._diagonalization import Diagonalization
        from linear_operator.functions._root_decomposition import RootDecomposition
        o_chol_ex, o_eigh, o_svd, o_qr = torch.linalg.cholesky_ex, torch.linalg.eigh, torch.linalg.svd, torch.linalg.qr
        o_pinv, o_tri, o_chol = torch.pinverse, torch.linalg.solve_triangular, torch.linalg.cholesky
        o_choose = L["LinearOperator"]._choose_root_method
        o_piv = L["LinearOperator"].pivoted_cholesky
        o_dapply, o_rapply = Diagonalization.apply, RootDecomposition.apply

        def chol_ex(A, *a, **k):
            if not torch.is_tensor(A):
                return o_chol_ex(A, *a, **k)
            rec.events.append(("chol", int(A.shape[-1])))
            return o_chol_ex(A, *a, **k)

        def chol(A, *a, **k):
            if not torch.is_tensor(A):          # torch.linalg.cholesky(operator): dispatches into the library
                return o_chol(A, *a, **k)
            rec.events.append(("chol", int(A.shape[-1])))
            return o_chol(A, *a, **k)

        def eigh(A, *a, **k):
            if not torch.is_tensor(A):
                return o_eigh(A, *a, **k)
            r = o_eigh(A, *a, **k)
            rec.events.append(("eigh", int(A.shape[-1])))
            rec.eigh.append((A.detach().clone(), r[0].detach().clone(), r[1].detach().clone()))
            return r

        def svd(A, *a, **k):
            if not torch.is_tensor(A):
                return o_svd(A, *a, **k)
            rec.events.append(("svd", int(A.shape[-1])))
            return o_svd(A, *a, **k)

        def qr(A, *a, **k):
            if not torch.is_tensor(A):
                return o_qr(A, *a, **k)
            rec.events.append(("qr", int(A.shape[-2])))
            return o_qr(A, *a, **k)

        def pinv(A, *a, **k):
            if not torch.is_tensor(A):
                return o_pinv(A, *a, **k)
            r = o_pinv(A, *a, **k)
            rec.events.append(("pinv", int(A.shape[-2])))
            rec.pinv.append((A.detach().clone(), r.detach().clone()))
            return r

        def tri(A, B, *a, **k):
            rec.events.append(("trsolve", int(A.shape[-1])))
            return o_tri(A, B, *a, **k)

        def dapply(representation_tree, device, dtype, matrix_shape, max_iter, batch_shape, *matrix_args):
            evals, evecs = o_dapply(representation_tree, device, dtype, matrix_shape, max_iter, batch_shape, *matrix_args)
            A = representation_tree(*matrix_args).to_dense().detach().clone()
            rec.events.append(("lanczos", int(A.shape[-1]), int(evals.shape[-1])))
            rec.lzd.append((A, int(max_iter), evals.detach().clone(), evecs.detach().clone()))
            return evals, evecs

        def rapply(representation_tree, max_iter, dtype, device, batch_shape, matrix_shape, root, inverse, initial_vectors,
                   *matrix_args):
            R, Ri = o_rapply(representation_tree, max_iter, dtype, device, batch_shape, matrix_shape, root, inverse,
                             initial_vectors, *matrix_args)
            A = representation_tree(*matrix_args).to_dense().detach().clone()
            kk = int(R.shape[-1]) if R.numel() else int(Ri.shape[-1])
            rec.events.append(("lanczos", int(A.shape[-1]), kk))
            rec.lzr.append((A, int(max_iter), R.detach().clone(), Ri.detach().clone()))
            return R, Ri

        def piv(self_, rank, *a, **k):
            r = o_piv(self_, rank, *a, **k)
            if not a and not k:
                A = self_.to_dense().detach().clone()
                rec.events.append(("pivchol", int(A.shape[-1])))
                rec.piv.append((A, int(rank), r.detach().clone()))
            return r

        def choose(self_):
            m = o_choose(self_)
            rec.chosen.append((type(self_).__name__, int(self_.size(-1)), m))
            return m

        self._patch(torch.linalg, "cholesky_ex", chol_ex)
        self._patch(torch.linalg, "cholesky", chol)
        self._patch(torch.linalg, "eigh", eigh)
        self._patch(torch.linalg, "svd", svd)
        self._patch(torch.linalg, "qr", qr)
        self._patch(torch, "pinverse", pinv)
        self._patch(torch.linalg, "solve_triangular", tri)
        self._patch(Diagonalization, "apply", staticmethod(dapply), own=False)
        self._patch(RootDecomposition, "apply", staticmethod(rapply), own=False)
        self._patch(L["LinearOperator"], "pivoted_cholesky", piv)
        self._patch(L["LinearOperator"], "_choose_root_method", choose)
        return self

    def __exit__(self, *exc):
        for obj, name, old in reversed(self._saved):
            setattr(obj, name, old)
        for obj, name in self._deleted:
            try:
                delattr(obj, name)
            except AttributeError:
                pass
        self._saved, self._deleted = [], []
        return False


@contextlib.contextmanager
def settings_ctx(case):
    S = lib()["settings"]
    with contextlib.ExitStack() as st:
        st.enter_context(S.max_cholesky_size(int(case.get("mcs", 800))))
        st.enter_context(S.max_root_decomposition_size(int(case.get("mrs", 100))))
        st.enter_context(S.fast_computations(covar_root_decomposition=bool(case.get("fast", True))))
        if case.get("cj") is not None:
            st.enter_context(S.cholesky_jitter(double_value=float(case["cj"])))
        yield


def call_op(op, name, method=None, upper=False):
    """the public query `name` on operator `op`; returns dict of named factors (operators or tensors)"""
    if name == "cholesky":
        return {"L": op.cholesky(upper=upper)}
    if name == "t_cholesky":
        return {"L": torch.linalg.cholesky(op, upper=upper)}
    if name == "root":
        # no keyword when the default is wanted (as a user writes it, and as the library's internal calls do): the memoize
        # key includes the kwargs, and caches pre-filled with add_to_cache (cat_rows, add_low_rank, the Lanczos inverse
        # root) are only hit by the keyword-free call
        return {"R": (op.root_decomposition(method=method) if method is not None else op.root_decomposition()).root}
    if name == "root_inv":
        return {"R": (op.root_inv_decomposition(method=method) if method is not None else op.root_inv_decomposition()).root}
    if name == "eigh":
        w, q = op.eigh()
        return {"w": w, "Q": q}
    if name == "t_eigh":
        w, q = torch.linalg.eigh(op)
        return {"w": w, "Q": q}
    if name == "eigvalsh":
        return {"w": op.eigvalsh()}
    if name == "t_eigvalsh":
        return {"w": torch.linalg.eigvalsh(op)}
    if name == "diag":
        # no keyword when the default is wanted: the memoize key includes the kwargs, and the library's own internal calls
        # (root_decomposition(method="diagonalization"), _logdet, ...) are `self.diagonalization()`
        w, q = op.diagonalization(method=method) if method is not None else op.diagonalization()
        return {"w": w, "Q": q}
    if name == "logdet":                      # only as an earlier step of a history (fills the operator's caches)
        return {"ld": op.logdet()}
    if name == "svd":
        u, s, v = op.svd()
        return {"U": u, "S": s, "V": v}
    if name == "t_svd":
        u, s, vt = torch.linalg.svd(op)
        return {"U": u, "S": s, "V": densify(vt).mT}
    raise ValueError(name)


def exc_kind(ex):
    L = lib()
    if isinstance(ex, L["NotPSDError"]):
        return "NotPSD"
    if isinstance(ex, L["NanError"]):
        return "Nan"
    if isinstance(ex, NotImplementedError):
        return "NotImplemented"
    if isinstance(ex, RuntimeError):
        return "Runtime"
    return type(ex).__name__


def const_diag_expr(batch, n, c):
    return {"cls": "ConstantDiag", "c": tolist(torch.full((*batch, 1), float(c), dtype=F64)), "n": int(n)}


def jitter_expr(expr, c, op, target):
    """the opbuild expression of target = op.add_jitter(c), read off the composite the library built: an
    AddedDiag / KroneckerProductAddedDiag composite keeps `op` (or, when `op` is such a composite itself, op's inner
    operator) as its inner operator OBJECT — that sharing is what a history case exercises; any other result (e.g. a new
    Toeplitz operator) is an operator of its own and is modelled through its dense matrix.  The dense oracle of the
    composite is opbuild.dense(expr) + c I whatever the library did."""
    from linear_operator.operators import ConstantDiagLinearOperator
    A = opbuild.dense(expr, F64)
    n = A.shape[-1]
    want = A + float(c) * torch.eye(n, dtype=F64)
    name = type(target).__name__
    out = None
    if name in ("AddedDiagLinearOperator", "KroneckerProductAddedDiagLinearOperator"):
        inner, diag = target._linear_op, target._diag_tensor
        inner_expr = None
        if inner is op:
            inner_expr = expr
        elif expr["cls"] in ("AddedDiag", "KronAddedDiag") and inner is getattr(op, "_linear_op", None):
            inner_expr = expr["base" if expr["cls"] == "AddedDiag" else "kron"]
        if inner_expr is not None:
            if isinstance(diag, ConstantDiagLinearOperator):
                d_expr = {"cls": "ConstantDiag", "c": tolist(diag.diag_values), "n": int(diag.shape[-1])}
            else:
                d_expr = {"cls": "Diag", "d": tolist(diag._diag)}
            if name.startswith("AddedDiag"):
                out = {"cls": "AddedDiag", "base": inner_expr, "diag": d_expr}
            else:
                out = {"cls": "KronAddedDiag", "kron": inner_expr, "diag": d_expr}
            if not torch.allclose(opbuild.dense(out, F64), want, rtol=1e-13, atol=1e-13):
                out = None
    return out if out is not None else {"cls": "Dense", "t": tolist(want)}


def catrows_dense(case):
    """C = [[A, B^T], [B, D]] for a cat_rows case (A = dense matrix of the operator expression)"""
    A = opbuild.dense(case["expr"], F64)
    B, D = totensor(case["B"]), totensor(case["D"])
    return torch.cat([torch.cat([A, B.mT], dim=-1), torch.cat([B, D], dim=-1)], dim=-2)


def resolve(op, target):
    if target == "self":
        return op
    if target.startswith("jitter:"):
        return op.add_jitter(float(target[7:]))
    raise ValueError(target)


def run_case(case, seed_noise=0):
    """-> dict(kind, exc, msg, out{name: tensor dict}, cls{name: class name}, events, chosen, eigh[(A,w,Q)], lanczos[...],
            eff_expr = the opbuild expression of the operator the observed query ran on)
    case kinds: plain (default) | hist (a history of queries on the operator and on op.add_jitter(c) composites that SHARE
    it; the last step is observed) | catrows (op.cat_rows(B, D), then the query on the concatenated operator)"""
    L = lib()
    torch.manual_seed(int(case["torch_seed"]) if case.get("torch_seed") is not None else seed_noise)
    kind = case.get("kind", "plain")
    op = opbuild.build(case["expr"], F64)
    res = {"kind": "ok", "exc": None, "msg": None, "out": {}, "cls": {}, "events": [], "chosen": [], "eigh": [], "lzd": [], "lzr": [], "piv": [],
           "pinv": [], "eff_expr": case["expr"]}
    with settings_ctx(case):
        for nm in case.get("inject", []):
            L["memoize"].add_to_cache(op, nm, None)
        # the recorder also covers the earlier calls on the same object (`pre`): what they computed stays in the
        # operator's memoize cache and is re-used by the observed call, so the solver events / oracle answers of the whole
        # history are what the model (which computes everything afresh) is compared with
        with Recorder() as rec:
            mark = None
            target = op
            try:
                for pre in case.get("pre", []):
                    call_op(op, pre["op"], pre.get("method"), pre.get("upper", False))
                if kind == "hist":
                    for tgt, o, m, u in case["steps"]:
                        call_op(resolve(op, tgt), o, m, u)
                    target = resolve(op, case["target"])
                    if case["target"] != "self":
                        res["eff_expr"] = jitter_expr(case["expr"], float(case["target"][7:]), op, target)
                    mark = len(rec.events)
                elif kind == "catrows":
                    target = op.cat_rows(totensor(case["B"]), totensor(case["D"]))
                    res["eff_expr"] = {"cls": "Dense", "t": tolist(catrows_dense(case))}
                    mark = len(rec.events)
            except Exception as ex:  # noqa
                res.update(kind="raise", exc="pre:" + exc_kind(ex), msg=repr(ex)[:300])
            if res["kind"] == "ok":
                try:
                    out = call_op(target, case["op"], case.get("method"), case.get("upper", False))
                    for k, v in out.items():
                        if v is None:
                            res["out"][k] = None
                            res["cls"][k] = "None"
                        else:
                            res["cls"][k] = type(v).__name__
                            res["out"][k] = tolist(densify(v))
                except Exception as ex:  # noqa
                    res.update(kind="raise", exc=exc_kind(ex), msg=repr(ex)[:300])
        # history / cat_rows cases: only the primitives of the OBSERVED call (earlier results may be served from caches)
        res["events"] = sorted(set(rec.events if mark is None else rec.events[mark:]))
        res["chosen"] = rec.chosen
        res["eigh"], res["lzd"], res["lzr"], res["piv"], res["pinv"] = rec.eigh, rec.lzd, rec.lzr, rec.piv, rec.pinv
    if case.get("expr_rescaled") is not None:
        # the same query on the rescaled operator with the same torch seed (= the same Lanczos start vector)
        c2 = {k: v for k, v in case.items() if k not in ("expr_rescaled", "rescale")}
        c2["expr"] = case["expr_rescaled"]
        r2 = run_case(c2, seed_noise)
        res["rescaled_events"] = r2["events"]
    return res


# ------------------------------------------------------------------------------------------------
# the property predicate, evaluated directly on the implementation's outputs with the independent dense oracle

def maxabs(x):
    return float(x.abs().max()) if x.numel() else 0.0


def over(x, bound):
    """x > bound, with NaN counted as exceeding every bound (a factor containing NaN factorises nothing)"""
    return not (x <= bound)


def predicate_members(case, res, tol_direct=1e-8, tol_krylov=2e-4, skip=(), full_pass=True, strict=False):
    """the predicate on the whole batch (shapes) and then MEMBER BY MEMBER, each member relative to its own scale
    (a batch may mix members of very different scale or conditioning); `skip` = member indices not to be judged"""
    A = opbuild.dense(res.get("eff_expr", case["expr"]), F64)
    if A.dim() == 2 or res["kind"] != "ok":
        return predicate(case, res, tol_direct, tol_krylov, strict)
    if full_pass:
        w = predicate(case, res, tol_direct, tol_krylov, strict)
        if w:
            return w
    n, bs = A.shape[-1], list(A.shape[:-2])
    Af = A.reshape(-1, n, n)
    outs = {}
    for k, v in res["out"].items():
        if v is None:
            outs[k] = None
            continue
        x = totensor(v)
        tr = 1 if k in ("w", "S") else 2
        if list(x.shape[:x.dim() - tr]) != bs:
            try:
                x = x.expand(*bs, *x.shape[x.dim() - tr:])
            except RuntimeError:
                return "output %s of shape %s does not broadcast to the batch shape %s" % (k, list(x.shape), bs)
        outs[k] = x.reshape(-1, *x.shape[len(bs):])
    for i in range(Af.shape[0]):
        if i in skip:
            continue
        sub = {"cls": "Dense", "t": tolist(Af[i])}
        w = predicate(dict(case, expr=sub), dict(res, out={k: (None if v is None else tolist(v[i])) for k, v in outs.items()}, eff_expr=sub),
                      tol_direct, tol_krylov, strict)
        if w:
            return "batch member %d: %s" % (i, w)
    return None


def predicate(case, res, tol_direct=1e-8, tol_krylov=2e-4, strict=False):
    """None if the observed result satisfies C06 for this query, else a short description.
    Only meaningful for kind == ok.  Direct methods: relative tolerance tol_direct; a Krylov-based path (any lanczos
    event, or method pivoted_cholesky / lanczos) is exact only up to the documented tridiagonal jitter and only when the
    rank bound reaches n: tolerance tol_krylov then, no residual check otherwise (rank-deficient by design)."""
    if res["kind"] != "ok":
        return None
    A = opbuild.dense(res.get("eff_expr", case["expr"]), F64)
    n = A.shape[-1]
    scale = maxabs(A) or 1.0          # RELATIVE to the operator's own scale (no floor at 1: operators of scale 1e-4 count)
    krylov = any(e[0] == "lanczos" for e in res["events"]) or case.get("method") in ("lanczos", "pivoted_cholesky")
    full_rank = all(e[2] >= e[1] for e in res["events"] if e[0] == "lanczos")
    if case.get("method") == "pivoted_cholesky":
        full_rank = int(case.get("mrs", 100)) >= n
    if strict:
        # judge a Krylov-truncated result as if it had to be exact (used when the MODEL says the requested route is a
        # direct one): Lanczos accuracy is allowed, a rank-deficient root is not
        full_rank = True
    tol = tol_krylov if krylov else tol_direct
    out = {k: (None if v is None else totensor(v)) for k, v in res["out"].items()}
    eye = torch.eye(n, dtype=F64)
    op = case["op"]
    if op in ("cholesky", "t_cholesky"):
        Lf = out["L"]
        if list(Lf.shape) != list(A.shape):
            return "factor shape %s, operator shape %s" % (list(Lf.shape), list(A.shape))
        up = bool(case.get("upper", False))
        tri = torch.triu(Lf) if up else torch.tril(Lf)
        if over(maxabs(tri - Lf), 0):
            return "factor is not %s triangular" % ("upper" if up else "lower")
        P = Lf.mT @ Lf if up else Lf @ Lf.mT
        if over(maxabs(P - A), tol * scale):
            return "%s differs from A by %.3g" % ("R^T R" if up else "L L^T", maxabs(P - A))
        return None
    def batch_ok(X):
        """rows = n and batch dims broadcast to the operator's (RootDecomposition drops a leading batch dim of size 1)"""
        try:
            return X.shape[-2] == n and list(torch.broadcast_shapes(X.shape[:-2], A.shape[:-2])) == list(A.shape[:-2])
        except RuntimeError:
            return False

    if op == "root":
        R = out["R"]
        if not batch_ok(R):
            return "root shape %s, operator shape %s" % (list(R.shape), list(A.shape))
        if krylov and not full_rank:
            return None
        if over(maxabs(R @ R.mT - A), tol * scale):
            return "R R^T differs from A by %.3g" % maxabs(R @ R.mT - A)
        return None
    if op == "root_inv":
        R = out["R"]
        if not batch_ok(R):
            return "inverse root shape %s, operator shape %s" % (list(R.shape), list(A.shape))
        if krylov and not full_rank:
            return None
        Ainv = torch.linalg.inv(A)
        sc = maxabs(Ainv) or 1.0
        if over(maxabs(R @ R.mT - Ainv), tol * sc * max(1.0, float(torch.linalg.cond(A).max()))):
            return "R R^T differs from A^-1 by %.3g" % maxabs(R @ R.mT - Ainv)
        return None
    if op in ("eigh", "t_eigh", "diag", "eigvalsh", "t_eigvalsh"):
        w = out["w"]
        if list(w.shape) != list(A.shape[:-1]) and not (krylov and not full_rank):
            return "eigenvalue shape %s, operator shape %s" % (list(w.shape), list(A.shape))
        if krylov and not full_rank:
            return None
        ref = torch.linalg.eigvalsh(A)
        if over(maxabs(torch.sort(w, dim=-1)[0] - ref), tol * scale):
            return "sorted spectrum differs from eigvalsh(A) by %.3g" % maxabs(torch.sort(w, dim=-1)[0] - ref)
        if op in ("eigvalsh", "t_eigvalsh"):
            return None
        Q = out.get("Q")
        if Q is None:
            return "eigenvectors missing (None returned)"
        if list(Q.shape) != list(A.shape):
            return "eigenvector shape %s, operator shape %s" % (list(Q.shape), list(A.shape))
        if over(maxabs(Q.mT @ Q - eye), tol):
            return "Q^T Q differs from I by %.3g" % maxabs(Q.mT @ Q - eye)
        rec = Q @ torch.diag_embed(w) @ Q.mT
        if over(maxabs(rec - A), tol * scale):
            return "Q diag(w) Q^T differs from A by %.3g" % maxabs(rec - A)
        return None
    if op in ("svd", "t_svd"):
        U, S, V = out["U"], out["S"], out["V"]
        if list(S.shape) != list(A.shape[:-1]):
            return "singular value shape %s, operator shape %s" % (list(S.shape), list(A.shape))
        if not (float(S.min()) >= 0):
            return "negative singular value %.3g" % float(S.min())
        if over(maxabs(U.mT @ U - eye), tol):
            return "U^T U differs from I by %.3g" % maxabs(U.mT @ U - eye)
        if over(maxabs(V.mT @ V - eye), tol):
            return "V^T V differs from I by %.3g" % maxabs(V.mT @ V - eye)
        rec = U @ torch.diag_embed(S) @ V.mT
        if over(maxabs(rec - A), tol * scale):
            return "U diag(S) V^T differs from A by %.3g" % maxabs(rec - A)
        return None
    raise ValueError(op)
