"""C20 — stable_qr / stable_pinverse: correspondence of coq/C20/ModelQR.v (PrimFloat binary64 / binary32) with
linear_operator.utils.qr.stable_qr and linear_operator.utils.pinverse.stable_pinverse.

The oracle torch.linalg.qr is NOT modelled: its output on the very same input is handed to the Coq model as a literal
(the implementation calls it on the same tensor; it is deterministic on CPU).  What is compared:
  stable_qr       -> (Q', R') entry by entry, EXACTLY (binary64 / binary32 operations are the same IEEE operations);
                     raises-or-not (fat matrices with a near-zero R diagonal raise for k >= 2);
  stable_pinverse -> norm-wise with a tolerance (LAPACK trsm vs the model's back substitution), see TOL below.
Independently of the model, the property predicates are evaluated on the implementation's outputs with plain torch:
  Q' R' = A up to the jitter, Q'^T Q' = I, R' upper triangular, |R'_ii| >= 1e-6 (tall / square);
  P A = I (tall, full column rank), A P = I (fat, full row rank), P = torch.linalg.pinv(A) on well-conditioned inputs.
"""
import math
import random

from . import common

# tolerance of the pinverse comparison: rounding differences between two triangular solves are bounded by
# eps * cond(R') * O(n); families are chosen so that cond(R') <= ~1e2 ("generic") or ~1e7 ("near-singular", float64 only)
TOL = {("float64", "generic"): 1e-9, ("float64", "singular"): 1e-5, ("float32", "generic"): 1e-3}

SHAPES_QUICK = [(1, 1), (2, 2), (3, 3), (5, 5), (2, 1), (4, 2), (6, 3), (5, 4), (1, 3), (2, 4), (3, 5)]
SHAPES_THOROUGH = SHAPES_QUICK + [(4, 4), (6, 6), (8, 8), (3, 1), (3, 2), (6, 2), (7, 5), (8, 3), (1, 2), (2, 3), (2, 6), (4, 5), (5, 8)]
BATCHES = [(), (2,), (2, 3)]
FAMILIES = ["generic", "zero_col", "dup_col", "tiny_col", "diag_thresh", "one_member_singular"]


def torch_():
    import torch
    torch.set_num_threads(1)
    return torch


def shape_kind(m, n):
    return "tall" if m > n else ("square" if m == n else "fat")


def gen_member(rng, m, n, family, singular):
    """m x n matrix with dyadic entries (exact in float32 and float64)"""
    k = min(m, n)
    if family == "diag_thresh":
        # diagonal input: Q = +-I, R = +-diag(d) exactly -> the R diagonal sits exactly at / next to the threshold
        cand = [1e-6, 9.5e-7, 1.0000001e-6, -1e-6, -9.9e-7, 0.0, 5e-7, -5e-7, 1.0, -2.0, 1.000001e-6, 2.0 ** -20, -(2.0 ** -20), 2.0 ** -19]
        A = [[0.0] * n for _ in range(m)]
        for i in range(k):
            A[i][i] = rng.choice(cand) if singular else rng.choice([1.0, -2.0, 0.5, 3.0])
        return A
    # well-conditioned base: identity-dominant plus small dyadic noise
    A = [[(4.0 if i == j else 0.0) + rng.randint(-8, 8) / 8.0 for j in range(n)] for i in range(m)]
    if not singular or family == "generic":
        return A
    if m >= n:      # make a column (of the tall matrix) degenerate
        j = rng.randrange(n)
        j2 = rng.randrange(n)
        for i in range(m):
            if family == "zero_col":
                A[i][j] = 0.0
            elif family == "dup_col" and n >= 2:
                if j2 == j:
                    j2 = (j + 1) % n
                A[i][j] = A[i][j2]
            elif family == "tiny_col":
                A[i][j] = A[i][j] * 2.0 ** -24
            elif family == "dup_col":
                A[i][j] = 0.0
    else:           # fat: degenerate row (column of the transpose) or a zero leading column
        r = rng.randrange(m)
        for j in range(n):
            if family == "zero_col":
                A[r][j] = 0.0
            elif family == "tiny_col":
                A[r][j] = A[r][j] * 2.0 ** -24
            elif family == "dup_col":
                A[r][j] = A[(r + 1) % m][j] if m >= 2 else 0.0
        if family == "zero_col":
            for i in range(m):
                A[i][0] = 0.0
    return A


def cells(quick):
    out = []
    shapes = SHAPES_QUICK if quick else SHAPES_THOROUGH
    for fn in ("stable_qr", "stable_pinverse"):
        for (m, n) in shapes:
            for b in BATCHES:
                for fam in FAMILIES:
                    if fam == "one_member_singular" and not b:
                        continue
                    if quick and b == (2, 3) and fam in ("tiny_col", "dup_col"):
                        continue
                    for dt in ("float64", "float32"):
                        out.append({"fn": fn, "m": m, "n": n, "b": list(b), "family": fam, "dtype": dt,
                                    "shape_kind": shape_kind(m, n)})
    return out


def make(cell, rng):
    nb = int(math.prod(cell["b"]))
    fam = cell["family"]
    mats = []
    for q in range(nb):
        if fam == "one_member_singular":
            mats.append(gen_member(rng, cell["m"], cell["n"], "zero_col" if q == nb - 1 else "generic", q == nb - 1))
        else:
            mats.append(gen_member(rng, cell["m"], cell["n"], fam, True))
    return {"kernel": cell["fn"], "cell": cell, "mats": mats}


def to_tensor(case):
    torch = torch_()
    c = case["cell"]
    dt = torch.float64 if c["dtype"] == "float64" else torch.float32
    t = torch.tensor(case["mats"], dtype=dt)
    return t.reshape(*c["b"], c["m"], c["n"])


def members(t):
    """batched tensor -> list of members as nested float lists (exact: float32 values are widened)"""
    r, c = t.shape[-2], t.shape[-1]
    return t.reshape(-1, r, c).double().tolist()


def run_impl(case):
    """-> oracle output (list of (Q, R)), observation"""
    torch = torch_()
    from linear_operator.utils.qr import stable_qr
    from linear_operator.utils.pinverse import stable_pinverse
    A = to_tensor(case)
    fn = case["cell"]["fn"]
    arg = A
    if fn == "stable_pinverse" and A.shape[-2] < A.shape[-1]:
        arg = A.mT
    Q0, R0 = torch.linalg.qr(arg)
    oracle = list(zip(members(Q0), members(R0)))
    try:
        if fn == "stable_qr":
            Q, R = stable_qr(A)
            obs = {"qr": list(zip(members(Q), members(R)))}
        else:
            P = stable_pinverse(A)
            obs = {"p": members(P)}
    except Exception as ex:
        obs = {"err": type(ex).__name__, "msg": str(ex)[:160]}
    return oracle, obs


def predicate(case, oracle, obs):
    """the property evaluated directly on the implementation's output with plain torch; -> None | reason"""
    torch = torch_()
    c = case["cell"]
    A = to_tensor(case).double().reshape(-1, c["m"], c["n"])
    eps = 1e-12 if c["dtype"] == "float64" else 1e-4
    fam = c["family"]
    if c["fn"] == "stable_qr":
        if "err" in obs:
            # only the fat / near-zero-diagonal cell may raise (k x n plus k x k does not broadcast)
            R0 = [torch.tensor(r, dtype=torch.float64) for _, r in oracle]
            zeroish = any(bool((torch.diagonal(r).abs() < 1e-6).any()) for r in R0)
            if c["shape_kind"] == "fat" and min(c["m"], c["n"]) >= 2 and zeroish:
                return None
            return "raises"
        for q, ((Q, R), (Q0, R0)) in enumerate(zip(obs["qr"], oracle)):
            Q, R, Q0, R0 = (torch.tensor(x, dtype=torch.float64) for x in (Q, R, Q0, R0))
            k = min(c["m"], c["n"])
            if not torch.equal(Q, Q0):
                return "Q changed"
            if (Q.mT @ Q - torch.eye(Q.shape[-1], dtype=torch.float64)).abs().max() > 1e3 * eps:
                return "Q not orthonormal"
            if c["shape_kind"] != "fat":
                if torch.tril(R, -1).abs().max() > 0:
                    return "R not upper triangular"
                if torch.diagonal(R).abs().min() < 1e-6 * (1 - 1e-6):
                    return "R diagonal still near zero"
                if (Q @ R - A[q]).abs().max() > 1.0000001e-6 + 1e3 * eps * max(1.0, float(A[q].abs().max())):
                    return "QR differs from A by more than the jitter"
                D = R - R0
                if (D - torch.diag(torch.diagonal(D))).abs().max() > 0:
                    return "off-diagonal of R changed"
        return None
    # stable_pinverse
    if "err" in obs:
        return "raises"
    for q, P in enumerate(obs["p"]):
        P = torch.tensor(P, dtype=torch.float64)
        if list(P.shape) != [c["n"], c["m"]]:
            return "shape"
        if not bool(torch.isfinite(P).all()):
            return "non-finite"
        wellcond = fam == "generic" or (fam == "one_member_singular" and q != len(obs["p"]) - 1) or \
            (fam == "diag_thresh" and False)
        if wellcond:
            I = torch.eye(min(c["m"], c["n"]), dtype=torch.float64)
            PA = P @ A[q] if c["m"] >= c["n"] else A[q] @ P
            if (PA - I).abs().max() > 1e4 * eps:
                return "not an inverse on the range"
            if (P - torch.linalg.pinv(A[q])).abs().max() > 1e4 * eps:
                return "differs from the Moore-Penrose pseudo-inverse"
    return None


def fl(x):
    return common.flit(x)


def mat_lit(M):
    return "[" + "; ".join("[" + "; ".join(fl(x) for x in row) + "]" for row in M) + "]"


def term(case, oracle, obs):
    c = case["cell"]
    arith = "FA64" if c["dtype"] == "float64" else "FA32"
    ora = "[" + "; ".join("(%s, %s)" % (mat_lit(q), mat_lit(r)) for q, r in oracle) + "]"
    mats = "[" + "; ".join(mat_lit(m) for m in to_tensor(case).reshape(-1, c["m"], c["n"]).double().tolist()) + "]"
    if c["fn"] == "stable_qr":
        o = "ORaise" if "err" in obs else "(OQR [%s])" % "; ".join("(%s, %s)" % (mat_lit(q), mat_lit(r)) for q, r in obs["qr"])
        return "chk_qr %s %s %s %s" % (arith, ora, mats, o)
    tol = pinv_tol(c)
    o = "PRaise" if "err" in obs else "(OP [%s])" % "; ".join(mat_lit(p) for p in obs["p"])
    return "chk_pinv %s %s %s %s %s" % (arith, fl(tol), ora, mats, o)


def pinv_tol(c):
    kind = "generic" if c["family"] == "generic" else "singular"
    return TOL.get((c["dtype"], kind))


def shard_src(terms):
    return ("From Coq Require Import List Floats.\nImport ListNotations.\n"
            "Require Import C20.ModelQR C20.CheckQR.\nOpen Scope float_scope.\n"
            "Definition cases : list bool := [\n %s].\n"
            "Eval vm_compute in (bad_cases cases 0).\n" % ";\n ".join(terms))


SHARD = 60


def build_cases(ctx):
    out = []
    rng = random.Random("%s/qr" % ctx.seed)
    for cell in cells(ctx.quick):
        out.append(make(cell, rng))
    return out


def key_of(case, reason):
    c = case["cell"]
    return {"kernel": c["fn"], "shape_kind": c["shape_kind"], "family": c["family"], "dtype": c["dtype"],
            "batched": bool(c["b"]), "fail": reason}


def correspondence(ctx):
    cases = build_cases(ctx)
    terms, owners = [], []
    evals = 0
    pred_fail = []
    jitter_cases = raise_cases = 0
    for ci, case in enumerate(cases):
        oracle, obs = run_impl(case)
        evals += 1
        case["_oracle"], case["_obs"] = oracle, obs
        why = predicate(case, oracle, obs)
        if why:
            pred_fail.append((ci, why))
        if "err" in obs:
            raise_cases += 1
        elif case["cell"]["fn"] == "stable_qr" and any(qr != o for qr, o in zip(obs["qr"], oracle)):
            jitter_cases += 1
        c = case["cell"]
        if c["fn"] == "stable_pinverse" and pinv_tol(c) is None:
            continue        # float32 near-singular pseudo-inverses: rounding dominates, predicates only
        terms.append(term(case, oracle, obs))
        owners.append(ci)
    shards = [("c20qr_%d" % (i // SHARD), shard_src(terms[i:i + SHARD])) for i in range(0, len(terms), SHARD)]
    res = common.run_shards(ctx, shards)
    mism = []
    for si, (name, _) in enumerate(shards):
        rc, out = res[name]
        bad = common.parse_coq_list_of_nat(out) if rc == 0 else None
        if bad is None:
            ctx.violation({"kind": "shard-failed", "shard": name, "out": out[-700:]}, no_input=True)
            continue
        mism += [owners[si * SHARD + b] for b in bad]
    failed = dict(pred_fail)
    for ci in mism:
        case = cases[ci]
        pub = {k: v for k, v in case.items() if not k.startswith("_")}
        if ci in failed:
            continue
        ctx.violation({"kind": "model-implementation-disagreement", "case": pub, "observed": case["_obs"],
                       "oracle_qr": case["_oracle"],
                       "note": "the implementation satisfies the property predicates but coq/C20/ModelQR.v computes something else"},
                      no_input=True)
    for ci, why in pred_fail:
        case = cases[ci]
        pub = {k: v for k, v in case.items() if not k.startswith("_")}
        ctx.violation({"kind": "qr-kernel-violates-its-definition", "case": pub, "observed": case["_obs"], "oracle_qr": case["_oracle"],
                       "reason": why, "model_agrees_with_implementation": ci not in mism}, key=key_of(case, why))
    nontrivial = len({(c["cell"]["fn"], c["cell"]["m"], c["cell"]["n"], tuple(c["cell"]["b"]), c["cell"]["family"], c["cell"]["dtype"])
                      for c in cases if c["cell"]["family"] != "generic" or min(c["cell"]["m"], c["cell"]["n"]) >= 2})
    sample = {k: v for k, v in cases[len(cases) // 2].items() if not k.startswith("_")}
    return {"evaluations": evals, "terms": len(terms), "mismatches": len(mism), "predicate_failures": len(pred_fail),
            "jitter_applied": jitter_cases, "raises": raise_cases, "distinct_nontrivial": nontrivial, "sample": sample}


def replay(rp):
    case = rp["case"]
    oracle, obs = run_impl(case)
    why = predicate(case, oracle, obs)
    print("observed:", {k: v for k, v in obs.items() if k != "msg"})
    print("property holds on this case" if not why else "property FAILS on this case: %s" % why)
    return 1 if why else 0
