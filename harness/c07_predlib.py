"""C07 (gradients through operators == gradients through the dense computation): building blocks of the
direct property predicate (harness/c07_pred.py is the driver: grid, workers, shrinking, API).

One *comparison* is: an operator expression `e` (harness/opbuild.py JSON dict), an entry point `fn` with its
arguments, a requires_grad mask over the float leaves, memory_efficient on/off, max_cholesky_size default/0.
The real operator (opbuild.build) and the dense assembly (opbuild.dense, plain torch) are built FROM THE VERY SAME
leaf tensor objects (opbuild.tt is patched by a memoising version keyed by id(spec dict)), so that
torch.autograd.grad delivers gradients w.r.t. the same tensors on both sides.

Nothing here writes files or depends on /tmp; importing the module has no side effects (linear_operator is imported
lazily, through common.REPO).
"""
import contextlib
import json
import math
import random
import sys
import zlib

import torch

from . import common
from . import opbuild as ob

F64 = torch.float64

TOL_DIRECT = 1e-6      # float64, direct / Cholesky paths (observed max error on the pinned tree ~1e-11)
TOL_CG = 1e-4          # CG / Lanczos paths under max_cholesky_size(0) with cg_tolerance 1e-10 (observed ~1e-9; the
#                        Lanczos root adds tridiagonal_jitter 1e-6 relative, hence not tighter than 1e-4)
TOL_CIQ = 1e-3         # contour integral quadrature (sqrt_inv_matmul): 15 quadrature nodes, measured forward error
#                        up to ~2e-5 relative on the grid, gradients up to ~1e-4
TOL_MEMEFF = 1e-10
# CG / stochastic Lanczos quadrature WITH a preconditioner P: the probes are z ~ N(0, P) and the estimator normalises them,
# so it is exact only when the directions of P^(-1/2) z_k form an equal-norm tight frame.  The harness replaces the random
# sampler `zero_mean_mvn_samples` (not part of any gradient code) by  z_k = P^(1/2) sqrt(n) q_k, q_k orthonormal, k = 1..n
# (exact_probe_sampler below): then (1/n) sum z_k z_k^T = P and P^(-1/2) z_k are orthogonal of equal norm, and both the
# logdet value and its gradient are exact (measured 1e-15), with or without preconditioner.

SYM_FNS = {"solve", "solve_lhs", "inv_quad", "logdet", "inv_quad_logdet", "root_decomposition",
           "root_inv_decomposition", "cholesky", "pivoted_cholesky", "sqrt_inv_matmul", "sqrt_inv_matmul_lhs"}
# functions whose code path depends on max_cholesky_size
CHOL0_FNS = {"solve", "solve_lhs", "inv_quad", "logdet", "inv_quad_logdet", "root_decomposition",
             "root_inv_decomposition"}
# functions that are approximations (their forward value is allowed to be off; then the cell is skipped)
APPROX_FNS_CHOL0 = {"root_decomposition", "root_inv_decomposition"}
CIQ_FNS = {"sqrt_inv_matmul", "sqrt_inv_matmul_lhs"}
RHS_FNS = {"matmul", "rmatmul", "solve", "solve_lhs", "inv_quad", "inv_quad_logdet", "sqrt_inv_matmul",
           "sqrt_inv_matmul_lhs", "iql_split", "chol_seq"}
# entry points with SEVERAL outputs / cache by-products, differentiated through each output separately and in combination
# (kind selects the outputs), incl. outputs obtained later from the cache on the same object
MULTI_FNS = {"root_inv_root", "diag_lanczos", "diag_symeig", "diag_default", "eigh", "svd", "iql_split", "chol_seq"}
SYM_FNS |= MULTI_FNS
CHOL0_FNS |= {"diag_default", "iql_split"}
# Lanczos-based: the forward value is an approximation (compared first; the cell is skipped when it is off)
LANCZOS_FNS = {"root_inv_root", "diag_lanczos"}
SPEC_SCALE = 4.0         # matrix function exp(S / SPEC_SCALE): spectra of the grid stay below ~30


class Ungenerated(Exception):
    pass


def lo():
    """import linear_operator from common.REPO (never a hard-coded path)"""
    if "linear_operator" not in sys.modules:
        if common.REPO not in sys.path:
            sys.path.insert(0, common.REPO)
    import linear_operator  # noqa
    return linear_operator


def crc(obj):
    return zlib.crc32(json.dumps(obj, sort_keys=True, default=str).encode())


def mix(seed, obj):
    return (int(seed) * 1000003 + crc(obj)) % (2 ** 61 - 1)


# ------------------------------------------------------------------------------------------- expressions

CHILD_KEYS = ("base", "l", "r", "kron", "diag", "a", "b", "root")


def children(e):
    """[(key, index-or-None, child expr)]"""
    out = []
    for i, x in enumerate(e.get("ops", [])):
        out.append(("ops", i, x))
    for k in CHILD_KEYS:
        v = e.get(k)
        if isinstance(v, dict) and "cls" in v:
            out.append((k, None, v))
    return out


def walk(e):
    yield e
    for _, _, c in children(e):
        yield from walk(c)


def classes_of(e):
    return sorted({x["cls"] for x in walk(e)})


def reshare(e):
    """re-establish tensor sharing that a JSON round trip destroys (Interpolated li/ri, lv/rv; Kernel x1/x2).
    Applied to every expression (fresh or replayed) so that both are treated identically."""
    for x in walk(e):
        if x["cls"] == "Interpolated":
            if x["li"] == x["ri"] and x["lv"] == x["rv"]:
                x["ri"] = x["li"]
                x["rv"] = x["lv"]
        if x["cls"] == "Kernel":
            if x.get("x1") == x.get("x2"):
                x["x2"] = x["x1"]
    return e


def valid_shapes(e):
    """shape side conditions of the constructors that the library itself does not check (opbuild.gen occasionally nests a
    rectangular operator where the class needs a matching / square one, and plain torch then broadcasts silently)"""
    try:
        for _, _, k in children(e):
            if not valid_shapes(k):
                return False
        c = e["cls"]
        shp = lambda x: ob.shape_of(x)[-2:]
        kids = [k for _, _, k in children(e)]
        if c in ("AddedDiag", "KronAddedDiag", "LowRankRootAddedDiag", "SumKron"):
            return shp(kids[0]) == shp(kids[1]) and shp(kids[0])[0] == shp(kids[0])[1]
        if c in ("Sum", "PsdSum"):
            return len({tuple(shp(x)) for x in e["ops"]}) == 1
        if c == "Matmul":
            return shp(e["l"])[1] == shp(e["r"])[0]
        if c == "Mul":
            return shp(e["l"]) == shp(e["r"])
        if c == "BlockDiag":
            return shp(e["base"])[0] == shp(e["base"])[1]
        if c == "Masked":
            return [len(e["row_mask"]["data"]), len(e["col_mask"]["data"])] == shp(e["base"])
        return True
    except Exception:  # noqa
        return False


FLOAT_FIELDS = {
    "Dense": ["t"], "UserMinimal": ["t"], "Diag": ["d"], "ConstantDiag": ["c"], "Toeplitz": ["col"],
    "Triangular": ["t"], "Chol": ["t"], "Root": ["root"], "LowRankRoot": ["root"], "ConstantMul": ["c"],
    "Interpolated": ["lv", "rv"], "Kernel": ["x1", "x2", "c"],
}


def annotate(e):
    """id(spec) -> (owner class, field, sym) for every float tensor spec of the expression.
    sym: the leaf is a square matrix that enters the operator through a map commuting with transposition
    (so that, for functions defined on symmetric matrices only, its gradient is compared after g + g^T)."""
    out = {}

    def rec(x, sym):
        c = x["cls"]
        for f in FLOAT_FIELDS.get(c, []):
            v = x.get(f)
            if isinstance(v, dict) and "cls" not in v and "data" in v:
                s = sym and c in ("Dense", "UserMinimal")
                if id(v) in out:
                    s = s and out[id(v)][2]
                tri = None
                if c in ("Triangular", "Chol") and f == "t":
                    tri = "upper" if x.get("upper") else "lower"
                out[id(v)] = (c, f, s, tri)
        for k, _, ch in children(x):
            if c in ("Root", "LowRankRoot", "Matmul", "Cat", "KronTriangular"):
                s = False
            elif c == "LowRankRootAddedDiag":
                s = sym if k == "diag" else False
            elif c == "Interpolated":
                s = sym and (x["li"] is x["ri"]) and (x["lv"] is x["rv"])
            elif c == "Masked":
                s = sym and x["row_mask"] == x["col_mask"]
            else:
                s = sym
            rec(ch, s)
    rec(e, True)
    return out


class Leaves:
    """memoising replacement of opbuild.tt: one torch leaf per float tensor spec (by identity of the spec dict)"""

    def __init__(self, e, rg_mask=None):
        self.e = e
        self.rg_mask = rg_mask
        self.memo = {}          # id(spec) -> tensor handed to the constructors (the leaf or an expanded view)
        self.recs = []          # creation order == representation order
        self.ann = annotate(e)
        self._orig = ob.tt
        self._keep = []         # keep spec dicts alive (ids stay unique)
        self.e_shape = ob.shape_of(e)
        # materialise the leaves in the order of opbuild.build (== representation order); the operator built here is
        # the one used for the (single) operator-side run of this Leaves object
        self.op, self.build_err = None, None
        try:
            self.op = self.build()
        except Exception as ex:  # noqa
            self.build_err = ("%s: %s" % (type(ex).__name__, str(ex)[:300]), type(ex).__name__)
            self.dense()

    def tt(self, t, dtype=F64):
        if t.get("bool") or t.get("long"):
            return self._orig(t, dtype)
        k = id(t)
        if k in self.memo:
            return self.memo[k]
        i = len(self.recs)
        rg = True if self.rg_mask is None else bool(self.rg_mask[i]) if i < len(self.rg_mask) else True
        leaf = torch.tensor(t["data"], dtype=F64).reshape(t["shape"])
        if rg:
            leaf.requires_grad_(True)
        given = leaf.expand(*t["expand"]) if t.get("expand") else leaf
        owner, field, sym, tri = self.ann.get(k, ("?", "?", False, None))
        self.recs.append({"leaf": leaf, "rg": rg, "owner": owner, "field": field, "sym": sym, "tri": tri, "spec": t})
        self.memo[k] = given
        self._keep.append(t)
        return given

    @contextlib.contextmanager
    def patched(self):
        old = ob.tt
        ob.tt = self.tt
        try:
            yield self
        finally:
            ob.tt = old

    def build(self):
        with self.patched():
            return ob.build(self.e)

    def dense(self):
        with self.patched():
            return ob.dense(self.e)


def count_leaves(e):
    return len(Leaves(e).recs)


# ------------------------------------------------------------------------------------------- arguments

def targ(spec, rg=True):
    if spec is None:
        return None
    t = torch.tensor(spec["data"], dtype=F64).reshape(spec["shape"])
    if rg:
        t.requires_grad_(True)
    return t


def make_index(ix):
    out = []
    for it in ix:
        if it == "...":
            out.append(Ellipsis)
        elif isinstance(it, list) and it and it[0] == "slice":
            out.append(slice(it[1], it[2]))
        elif isinstance(it, list) and it and it[0] == "tensor":
            out.append(torch.tensor(it[1], dtype=torch.long))
        else:
            out.append(int(it))
    return tuple(out)


def index_src(ix):
    out = []
    for it in ix:
        if it == "...":
            out.append("...")
        elif isinstance(it, list) and it and it[0] == "slice":
            out.append("%s:%s" % ("" if it[1] is None else it[1], "" if it[2] is None else it[2]))
        elif isinstance(it, list) and it and it[0] == "tensor":
            out.append("torch.tensor(%r)" % (it[1],))
        else:
            out.append(str(int(it)))
    return ", ".join(out)


def gen_fn_args(rng, fn, kind, shape):
    """fn arguments (JSON-able) for an operator of shape `shape` = batch + [m, n]"""
    batch, m, n = list(shape[:-2]), shape[-2], shape[-1]
    a = {"kind": kind}

    def bigger():
        return ([3] + batch) if batch else [2]

    def smaller():
        if not batch:
            return []
        if len(batch) == 1:
            return [1]
        return batch[1:]

    def rshape(kind, rows, cols=2):
        if kind == "vec":
            return [rows]
        if kind == "mat":
            return [rows, cols]
        if kind == "batched":
            return batch + [rows, cols]
        if kind == "bcast":
            return bigger() + [rows, cols]
        if kind == "smaller":
            return smaller() + [rows, cols]
        if kind == "inner1":                # same rank as the operator, an INTERIOR size-1 batch dimension that is broadcast
            return (batch[:-1] + [1] if len(batch) >= 2 else ([1] if batch else [])) + [rows, cols]
        if kind == "lead1":                 # same rank, a LEADING size-1 batch dimension
            return ([1] + batch[1:] if batch else []) + [rows, cols]
        if kind == "mid1":                  # fewer dimensions than the operator and a size-1 dimension that is broadcast
            return (batch[1:-1] + [1] if len(batch) >= 2 else [1]) + [rows, cols]
        if kind == "bcast3":                # one more leading dimension, and the operator's size-1 batch dimensions expanded
            return [2] + [3 if b == 1 else b for b in batch] + [rows, cols]
        raise ValueError(kind)

    if fn == "matmul":
        a["rhs"] = ob.rand_t(rng, rshape(kind, n, rng.choice([1, 2, 3])))
    elif fn == "rmatmul":
        if kind == "vec":
            a["lhs"] = ob.rand_t(rng, [m])
        else:
            p = rng.choice([1, 2])
            a["lhs"] = ob.rand_t(rng, rshape(kind, p, m) if kind in ("inner1", "lead1", "mid1", "bcast3") else
                                 {"mat": [p, m], "batched": batch + [p, m], "bcast": bigger() + [p, m],
                                  "smaller": smaller() + [p, m]}[kind])
    elif fn in ("solve", "sqrt_inv_matmul"):
        a["rhs"] = ob.rand_t(rng, rshape(kind, n, rng.choice([1, 2])))
    elif fn in ("solve_lhs", "sqrt_inv_matmul_lhs"):
        a["rhs"] = ob.rand_t(rng, rshape(kind, n, rng.choice([1, 2])))
        bl = batch if kind in ("batched", "vec") else ([] if kind == "mat" else (bigger() if kind == "bcast" else smaller()))
        a["lhs"] = ob.rand_t(rng, list(bl) + [rng.choice([1, 2]), n])
    elif fn == "inv_quad":
        k2 = "mat" if kind == "noreduce" else kind
        a["rhs"] = ob.rand_t(rng, rshape(k2, n, 2))
        a["reduce"] = kind != "noreduce"
    elif fn == "inv_quad_logdet":
        a["rhs"] = ob.rand_t(rng, rshape(kind, n, 2))
    elif fn in ("iql_split", "chol_seq"):
        a["rhs"] = ob.rand_t(rng, rshape("batched", n, 2))
    elif fn == "getitem":
        r = max(1, m - 1)
        if kind == "row_slice":
            a["index"] = ["...", ["slice", 0, r], ["slice", None, None]]
        elif kind == "col_slice":
            a["index"] = ["...", ["slice", None, None], ["slice", max(0, n - 2), None]]
        elif kind == "int_row":
            a["index"] = ["...", rng.randrange(m), ["slice", None, None]]
        elif kind == "tensor_idx":
            ln = rng.choice([2, 3])
            a["index"] = ["...", ["tensor", [rng.randrange(m) for _ in range(ln)]],
                          ["tensor", [rng.randrange(n) for _ in range(ln)]]]
        elif kind == "batch_idx":
            if batch:
                a["index"] = [rng.randrange(batch[0])]
            else:
                a["index"] = ["...", ["slice", None, None], rng.randrange(n)]
        else:
            raise ValueError(kind)
    elif fn == "sum":
        if kind == "batch":
            if not batch:
                raise Ungenerated("sum over a batch dim needs a batch")
            a["dim"] = 0
        else:
            a["dim"] = int(kind)
    return a


# ------------------------------------------------------------------------------------------- entry points

def _dn(x):
    return x.to_dense() if hasattr(x, "to_dense") and not isinstance(x, torch.Tensor) else x


def _solve_ref(D, rhs):
    if rhs.dim() == 1:
        return torch.linalg.solve(D, rhs.unsqueeze(-1)).squeeze(-1)
    return torch.linalg.solve(D, rhs)


def inv_sqrt_ref(D, iters=40):
    """A^{-1/2} by the Denman-Beavers iteration (plain torch, differentiable also at repeated eigenvalues, where the
    derivative of torch.linalg.eigh is undefined). Cross-checked against eigh in the forward value."""
    n = D.shape[-1]
    s = D.diagonal(dim1=-2, dim2=-1).sum(-1).detach()[..., None, None] / n      # scale to spectrum around 1
    Y = D / s
    Z = torch.eye(n, dtype=D.dtype).expand_as(D)
    for _ in range(iters):
        Yi = torch.linalg.inv(Y)
        Zi = torch.linalg.inv(Z)
        Y, Z = 0.5 * (Y + Zi), 0.5 * (Z + Yi)
    return Z / s.sqrt()


def apply_fn(fn, A, a, is_op, n=None):
    """-> list of output tensors. A is the operator (is_op) or the dense matrix."""
    rhs, lhs = a.get("_rhs"), a.get("_lhs")
    if fn == "matmul":
        return [A.matmul(rhs)] if is_op else [A @ rhs]
    if fn == "rmatmul":
        return [A.rmatmul(lhs)] if is_op else [lhs @ A]
    if fn == "solve":
        return [A.solve(rhs)] if is_op else [_solve_ref(A, rhs)]
    if fn == "solve_lhs":
        if is_op:
            return [A.solve(rhs, lhs)]
        s = _solve_ref(A, rhs)
        return [lhs @ s]
    if fn == "inv_quad":
        if is_op:
            return [A.inv_quad(rhs, reduce_inv_quad=a.get("reduce", True))]
        R = rhs.unsqueeze(-1) if rhs.dim() == 1 else rhs
        q = (R * torch.linalg.solve(A, R)).sum(-2)
        return [q.sum(-1) if a.get("reduce", True) else q]
    if fn == "logdet":
        return [A.logdet()] if is_op else [torch.logdet(A)]
    if fn == "inv_quad_logdet":
        if is_op:
            iq, ld = A.inv_quad_logdet(inv_quad_rhs=rhs, logdet=True)
            return [iq, ld]
        R = rhs.unsqueeze(-1) if rhs.dim() == 1 else rhs
        return [(R * torch.linalg.solve(A, R)).sum((-2, -1)), torch.logdet(A)]
    if fn == "diagonal":
        return [A.diagonal()] if is_op else [A.diagonal(dim1=-2, dim2=-1)]
    if fn == "to_dense":
        return [A.to_dense()] if is_op else [A]
    if fn == "getitem":
        ix = make_index(a["index"])
        return [_dn(A[ix])]
    if fn == "sum":
        return [_dn(A.sum(a["dim"]))]
    if fn == "root_decomposition":
        return [A.root_decomposition().to_dense()] if is_op else [A]
    if fn == "root_inv_decomposition":
        return [A.root_inv_decomposition().to_dense()] if is_op else [torch.linalg.inv(A)]
    if fn == "cholesky":
        return [A.cholesky().to_dense()] if is_op else [torch.linalg.cholesky(A)]
    if fn == "pivoted_cholesky":
        if is_op:
            L = A.pivoted_cholesky(rank=A.size(-1), error_tol=0.0)
            return [L @ L.mT]
        return [A]
    if fn in MULTI_FNS:
        return apply_multi(fn, A, a, is_op)
    if fn == "sqrt_inv_matmul":
        if is_op:
            return [A.sqrt_inv_matmul(rhs)]
        R = rhs.unsqueeze(-1) if rhs.dim() == 1 else rhs
        r = inv_sqrt_ref(A) @ R
        return [r.squeeze(-1) if rhs.dim() == 1 else r]
    if fn == "sqrt_inv_matmul_lhs":
        if is_op:
            r, q = A.sqrt_inv_matmul(rhs, lhs)
            return [r, q]
        r = lhs @ (inv_sqrt_ref(A) @ rhs)
        q = (lhs * torch.linalg.solve(A, lhs.mT).mT).sum(-1)
        return [r, q]
    raise ValueError("unknown fn %s" % fn)


def spec_outs(S, Q, kind):
    """scalarisable outputs of an eigendecomposition that are well defined for distinct eigenvalues (independent of the
    order and of the signs the routine returns) and are NOT spectral invariants once contracted with random weights:
    matfun: Q exp(S/c) Q^T   evecs: Q diag(1/n..1) Q^T with eigenvalues sorted (eigenvectors only)   evals: sorted S"""
    S, idx = torch.sort(S, dim=-1)
    Q = torch.gather(Q, -1, idx.unsqueeze(-2).expand_as(Q))
    n = S.shape[-1]
    c = torch.arange(1, n + 1, dtype=S.dtype) / n
    mat = Q @ torch.diag_embed(torch.exp(S / SPEC_SCALE)) @ Q.mT
    evo = Q @ torch.diag_embed(c.expand_as(S)) @ Q.mT
    return {"matfun": [mat], "evecs_only": [evo], "evals_only": [S], "all": [mat, evo, S]}[kind]


def apply_multi(fn, A, a, is_op):
    kind, rhs = a.get("kind"), a.get("_rhs")
    if fn == "root_inv_root":
        # both / root_only / inv_only: root_inv_decomposition(lanczos) also fills the root cache, root_decomposition() then
        # returns that cached root;  rev_*: the two decompositions as two separate calls, root first
        if is_op:
            if kind.startswith("rev"):
                R = A.root_decomposition(method="lanczos")
                Ri = A.root_inv_decomposition(method="lanczos")
            else:
                Ri = A.root_inv_decomposition(method="lanczos")
                R = A.root_decomposition()
            outs = {"inv": Ri.to_dense(), "root": R.to_dense()}
        else:
            outs = {"inv": torch.linalg.inv(A), "root": A}
        sel = {"both": ["inv", "root"], "rev_both": ["inv", "root"], "root_only": ["root"], "inv_only": ["inv"]}[kind]
        return [outs[k] for k in sel]
    if fn in ("diag_lanczos", "diag_symeig", "diag_default", "eigh"):
        if is_op:
            if fn == "eigh":
                S, Q = A.eigh()
            else:
                S, Q = A.diagonalization(method={"diag_lanczos": "lanczos", "diag_symeig": "symeig", "diag_default": None}[fn])
            Q = _dn(Q)
        else:
            S, Q = torch.linalg.eigh(A)
        return spec_outs(S, Q, kind)
    if fn == "svd":
        if is_op:
            U, S, V = A.svd()
            U, V = _dn(U), _dn(V)
        else:
            U, S, Vh = torch.linalg.svd(A)
            V = Vh.mT
        S2, idx = torch.sort(S, dim=-1)
        U = torch.gather(U, -1, idx.unsqueeze(-2).expand_as(U))
        V = torch.gather(V, -1, idx.unsqueeze(-2).expand_as(V))
        mat = U @ torch.diag_embed(torch.exp(S2 / SPEC_SCALE)) @ V.mT
        return {"matfun": [mat], "evals_only": [S2], "all": [mat, S2]}[kind]
    if fn == "iql_split":
        if is_op:
            iq, ld = A.inv_quad_logdet(inv_quad_rhs=rhs, logdet=True)
        else:
            iq, ld = (rhs * torch.linalg.solve(A, rhs)).sum((-2, -1)), torch.logdet(A)
        return {"iq_only": [iq], "ld_only": [ld]}[kind]
    if fn == "chol_seq":
        # cholesky() fills the cache that logdet / solve then use: one graph through the cached factor
        if is_op:
            Lc = A.cholesky().to_dense()
            ld, sv = A.logdet(), A.solve(rhs)
        else:
            Lc, ld, sv = torch.linalg.cholesky(A), torch.logdet(A), torch.linalg.solve(A, rhs)
        return {"all": [Lc, ld, sv], "later_only": [ld, sv], "chol_only": [Lc]}[kind]
    raise ValueError(fn)


# ------------------------------------------------------------------------------------------- settings / randomness

class DetRandn:
    """replacement for torch.randn inside the harness process: deterministic (seeded) and, for the probe vectors of
    the stochastic logdet estimate (shape (S, *batch, m) with S == probe_n >= m), sqrt(S) * (orthonormal columns):
    then (1/S) sum_k z_k z_k^T = I_m exactly and the 'stochastic' gradient A^{-1} is exact."""

    def __init__(self, seed, probe_n=None, dim=None):
        self.gen = torch.Generator().manual_seed(int(seed) % (2 ** 31))
        self.probe_n = probe_n
        self.dim = dim if dim is not None else (probe_n or 0)      # matrix size (probe_n > dim with a preconditioner)
        self.offset = 0
        self.calls = []
        self.orig = torch.randn

    def __call__(self, *size, **kw):
        if len(size) == 1 and isinstance(size[0], (tuple, list, torch.Size)):
            size = tuple(size[0])
        size = tuple(int(s) for s in size)
        dtype = kw.get("dtype") or torch.get_default_dtype()
        self.calls.append(size)
        n = self.probe_n
        if n is not None and len(size) >= 2 and size[0] == n and 1 <= size[-1] <= n:
            # S = n probes of dimension m = size[-1] <= S, samples-first layout (S, *batch, m) (the identity / diagonal
            # samplers; m < dim happens when a block operator hands the logdet down to its blocks):
            # Z = sqrt(S) * (m columns of an S x S orthogonal matrix), so Z^T Z = S * I_m
            m = size[-1]
            z = self._block(m).to(dtype)                               # z[k, i]: k-th probe
            return z.reshape((n,) + (1,) * (len(size) - 2) + (m,)).expand(*size).contiguous()
        if n is not None and len(size) >= 2 and size[-1] == n and 1 <= size[-2] <= n:
            # samples-last layout (*batch, r, S) (the generic root-based sampler, e.g. the low-rank part L e1 of a
            # preconditioner P = L L^T + D, followed by a samples-first draw for D^(1/2) e2): successive draws get DISJOINT
            # columns of the same orthogonal matrix, so (1/S) sum_k z_k z_k^T = L L^T + D = P exactly (S >= rank + size)
            z = self._block(size[-2]).mT.to(dtype)                     # z[i, k]: component i of the k-th draw
            return z.expand(*size).contiguous()
        return self.orig(*size, generator=self.gen, dtype=dtype)

    def _block(self, count):
        n = self.probe_n
        if count < self.dim or self.offset + count > n:      # a low-rank part starts a new sample; never run off the end
            self.offset = 0
        g = torch.Generator().manual_seed(12345 + n)
        q, _ = torch.linalg.qr(self.orig(n, n, generator=g, dtype=F64))
        z = math.sqrt(n) * q[:, self.offset:self.offset + count]
        self.offset += count
        return z

    @contextlib.contextmanager
    def patched(self):
        old = torch.randn
        torch.randn = self
        try:
            yield self
        finally:
            torch.randn = old


@contextlib.contextmanager
def exact_probe_sampler():
    """replace every class's zero_mean_mvn_samples by the deterministic equal-norm tight frame  P^(1/2) sqrt(n) q_k
    (samples-first layout (S, *batch, n), S <= n), P = the operator's dense matrix"""
    import linear_operator.operators as O

    def exact_samples(self, num_samples):
        Pm = self.to_dense().detach()
        n = Pm.shape[-1]
        ev, Q = torch.linalg.eigh(Pm)
        root = Q @ torch.diag_embed(ev.clamp_min(0).sqrt()) @ Q.mT
        g = torch.Generator().manual_seed(12345 + n)
        q, _ = torch.linalg.qr(torch.empty(n, n, dtype=F64).normal_(generator=g))
        z = root @ (math.sqrt(n) * q).to(Pm.dtype)
        return z.movedim(-1, 0).contiguous()[:num_samples]
    saved = {}
    for nm in dir(O):
        c = getattr(O, nm)
        if isinstance(c, type) and "zero_mean_mvn_samples" in c.__dict__:
            saved[c] = c.__dict__["zero_mean_mvn_samples"]
            c.zero_mean_mvn_samples = exact_samples
    try:
        yield
    finally:
        for c, f in saved.items():
            c.zero_mean_mvn_samples = f


@contextlib.contextmanager
def lo_settings(me, chol0, n, spectral=False, precond=False):
    S = lo().settings
    with contextlib.ExitStack() as st:
        st.enter_context(S.memory_efficient(bool(me)))
        st.enter_context(S.cg_tolerance(1e-10))
        for nm, v in (("eval_cg_tolerance", 1e-10), ("minres_tolerance", 1e-10)):
            if hasattr(S, nm):          # eval_cg_tolerance does not exist in every version of the library
                st.enter_context(getattr(S, nm)(v))
        st.enter_context(S.max_cg_iterations(200))
        if precond:
            # an ACTIVE pivoted-Cholesky preconditioner (rank 2 < n) for AddedDiag-type operators on the CG / SLQ path
            st.enter_context(S.min_preconditioning_size(1))
            st.enter_context(S.max_preconditioner_size(2))
        if spectral and hasattr(S, "tridiagonal_jitter"):
            st.enter_context(S.tridiagonal_jitter(1e-9))
        if chol0:
            st.enter_context(S.max_cholesky_size(0))
            st.enter_context(S.num_trace_samples(int(n)))
            st.enter_context(S.max_lanczos_quadrature_iterations(max(20, int(n))))
        yield


# ------------------------------------------------------------------------------------------- one comparison

def weights_for(seed, shapes, far_from_one=False):
    """fixed random upstream gradients for every element of every output (so no loss is a plain sum and batch members /
    outputs are weighted differently); far_from_one: in [-6, -4] (w and w^2 differ in sign and size)"""
    g = torch.Generator().manual_seed(int(seed) % (2 ** 31) + 7)
    if far_from_one:
        return [-(torch.rand(tuple(s), generator=g, dtype=F64) * 2 + 4) for s in shapes]
    return [torch.rand(tuple(s), generator=g, dtype=F64) * 2 - 1 for s in shapes]


def _inf(x):
    return float(x.abs().max()) if x.numel() else 0.0


def close(a, b, tol):
    if a.shape != b.shape:
        return False, float("inf")
    if not (bool(torch.isfinite(a).all()) and bool(torch.isfinite(b).all())):
        return False, float("nan")
    err = _inf(a - b)
    scale = max(1.0, _inf(a), _inf(b))
    return err <= tol * scale, err / scale


def where_of(ex):
    """innermost frame inside the library: 'file.py:function' (no line numbers: stable under harmless edits)"""
    import os
    import traceback
    best = None
    for fr in traceback.extract_tb(ex.__traceback__):
        fn = fr.filename.replace(os.sep, "/")
        if "/linear_operator/" in fn:
            best = "%s:%s" % (fn.rsplit("/", 1)[-1], fr.name)
    return best


def exc_str(ex):
    return "%s: %s" % (type(ex).__name__, str(ex).replace("\n", " ")[:300])


def tol_of(fn, chol0, gap=None):
    if fn in ("diag_lanczos", "diag_symeig", "diag_default", "eigh", "svd"):
        # eigenvector derivatives carry 1/(s_i - s_j): errors of the eigenvalues are amplified by 1/gap (gap relative to the
        # largest eigenvalue).  symeig / eigh: both sides are LAPACK eigh.  Lanczos (harness: tridiagonal_jitter 1e-9):
        # measured <= 2.4e-8/gap on the pinned tree (its jitter touches all entries of T), <= 3e-9/gap on the repaired one;
        # in addition Diagonalization.backward uses 1/(s_i - s_j + 1e-10), whose symmetric part -2e-10/(s_i - s_j)^2 does
        # not cancel for losses through Q g(S) Q^T: measured 7e-11/gap^2.  Dropping a coupling term altogether is O(1).
        g = max(float(gap or 1e-2), 1e-6)
        lanczos_like = fn == "diag_lanczos" or (fn == "diag_default" and chol0)
        if lanczos_like:
            return max(TOL_DIRECT, 4e-8 / g, 4e-10 / g ** 2)
        return max(TOL_DIRECT, 1e-11 / g)
    if fn == "root_inv_root":
        return TOL_CG
    if fn in CIQ_FNS:
        return TOL_CIQ
    if chol0 and fn in CHOL0_FNS:
        return TOL_CG
    return TOL_DIRECT


class Side:
    pass


def run_side(leaves, fn, a, is_op, me, chol0, seed, weights=None, precond=False):
    """forward + backward on one side. Returns dict: outs (detached), grads (list aligned with inputs), err, phase"""
    res = {"outs": None, "grads": None, "err": None, "phase": None, "exc_type": None}
    if leaves.build_err is not None and is_op:
        res.update(err=leaves.build_err[0], exc_type=leaves.build_err[1], phase="build")
        return res
    inputs = [r["leaf"] for r in leaves.recs if r["rg"]]
    for k in ("_rhs", "_lhs"):
        if a.get(k) is not None and a[k].requires_grad:
            inputs.append(a[k])
    n = int(leaves.e_shape[-1])
    ctx_set = lo_settings(me, chol0, n, spectral=fn in MULTI_FNS, precond=precond) if is_op else contextlib.nullcontext()
    ctx_rnd = DetRandn(seed, probe_n=n if chol0 else None, dim=n).patched() if is_op else contextlib.nullcontext()
    ctx_smp = exact_probe_sampler() if (is_op and chol0 and precond) else contextlib.nullcontext()
    ctx_set.__enter__()          # harness-side failures here must propagate (never classified as operator errors)
    ctx_rnd.__enter__()
    ctx_smp.__enter__()
    try:
        if is_op:
            op = leaves.op
            if True:
                outs = apply_fn(fn, op, a, True)
                res["outs"] = [o.detach().clone() for o in outs]
                res["phase"] = "backward"
                W = weights if weights is not None else weights_for(seed, [o.shape for o in outs], precond)
                res["W"] = W
                if any(w.shape != o.shape for w, o in zip(W, outs)):
                    res["err"] = "output shapes %s differ from the dense side %s" % (
                        [tuple(o.shape) for o in outs], [tuple(w.shape) for w in W])
                    res["exc_type"] = "OutputShape"
                    return res
                s = sum((w * o).sum() for w, o in zip(W, outs))
                if s.requires_grad and inputs:
                    g = torch.autograd.grad(s, inputs, allow_unused=True)
                else:
                    g = [None] * len(inputs)
        else:
            D = leaves.dense()
            outs = apply_fn(fn, D, a, False)
            res["outs"] = [o.detach().clone() for o in outs]
            res["phase"] = "backward"
            W = weights if weights is not None else weights_for(seed, [o.shape for o in outs], precond)
            res["W"] = W
            s = sum((w * o).sum() for w, o in zip(W, outs))
            if s.requires_grad and inputs:
                g = torch.autograd.grad(s, inputs, allow_unused=True)
            else:
                g = [None] * len(inputs)
        res["grads"] = [None if x is None else x.detach().clone() for x in g]
    except Exception as ex:  # noqa
        res["err"] = exc_str(ex)
        res["exc_type"] = type(ex).__name__
        res["where"] = where_of(ex)
        if res["phase"] is None:
            res["phase"] = "forward"
    finally:
        ctx_smp.__exit__(None, None, None)
        ctx_rnd.__exit__(None, None, None)
        ctx_set.__exit__(None, None, None)
    return res


def input_names(leaves, a):
    names = []
    for i, r in enumerate(leaves.recs):
        if r["rg"]:
            names.append({"i": i, "owner": r["owner"], "field": r["field"], "sym": r["sym"], "tri": r["tri"],
                          "shape": list(r["leaf"].shape), "expanded": bool(r["spec"].get("expand"))})
    for k, nm in (("_rhs", "rhs"), ("_lhs", "lhs")):
        if a.get(k) is not None and a[k].requires_grad:
            names.append({"i": nm, "owner": nm, "field": nm, "sym": False, "tri": None, "shape": list(a[k].shape),
                          "expanded": False})
    return names


def zeros_like_input(shape):
    return torch.zeros(tuple(shape), dtype=F64)


def compare_grads(names, g_op, g_ref, tol, symmetric_fn):
    """-> (fail kind or None, offending input descriptor or None, max relative error, per-input errors)"""
    worst = 0.0
    for nm, a, b in zip(names, g_op, g_ref):
        za = zeros_like_input(nm["shape"]) if a is None else a
        zb = zeros_like_input(nm["shape"]) if b is None else b
        if za.shape != zb.shape:
            return "shape", nm, float("inf"), "op grad %s vs dense grad %s" % (tuple(za.shape), tuple(zb.shape))
        if symmetric_fn and nm["sym"] and za.dim() >= 2 and za.shape[-1] == za.shape[-2]:
            za = za + za.mT
            zb = zb + zb.mT
        if nm.get("tri"):
            # the tensor of a Triangular/Chol operator denotes a triangular matrix: entries outside the triangle are
            # structurally zero (the library may or may not read them), so only the triangle's gradient is compared
            za = torch.triu(za) if nm["tri"] == "upper" else torch.tril(za)
            zb = torch.triu(zb) if nm["tri"] == "upper" else torch.tril(zb)
        ok, err = close(za, zb, tol)
        if not ok:
            kind = "none" if (a is None or _inf(za) == 0.0) and _inf(zb) > 0 else "value"
            return kind, nm, err, {"op": _small(za), "dense": _small(zb)}
        worst = max(worst, err)
    return None, None, worst, None


def _small(t, lim=64):
    v = t.reshape(-1).tolist()
    return {"shape": list(t.shape), "data": [round(x, 10) for x in v[:lim]], "truncated": len(v) > lim}


def prepare_args(fn_args, rhs_rg=True):
    a = dict(fn_args)
    a["_rhs"] = targ(fn_args.get("rhs"), rhs_rg)
    a["_lhs"] = targ(fn_args.get("lhs"), rhs_rg)
    return a


def compare(case):
    """case: {expr, fn, fn_args, rg_mask, rhs_rg (default True), me, chol0, seed} -> raw result dict
    (status ok/fail/skip, fail kind, offending input, errors).  The expression must already be `reshare`d."""
    e = case["expr"]
    fn, me, chol0, seed = case["fn"], bool(case["me"]), bool(case["chol0"]), int(case["seed"])
    tol = tol_of(fn, chol0, case["fn_args"].get("gap"))
    out = {"status": "ok", "fail": None, "tol": tol}
    leaves = Leaves(e, case.get("rg_mask"))
    a = prepare_args(case["fn_args"], case.get("rhs_rg", True))
    ref = run_side(leaves, fn, a, False, me, chol0, seed, precond=bool(case.get("precond")))
    names = input_names(leaves, a)
    out["inputs"] = names
    if ref["err"] is not None:
        W = None
    else:
        W = ref["W"]
    opr = run_side(leaves, fn, a, True, me, chol0, seed, weights=W, precond=bool(case.get("precond")))
    names = input_names(leaves, a)
    out["inputs"] = names
    if ref["err"] is not None and opr["err"] is not None:
        out.update(status="skip", reason="both sides raise: op[%s] dense[%s]" % (opr["err"], ref["err"]))
        return out, leaves, opr, ref
    if ref["err"] is not None:
        out.update(status="skip", reason="dense oracle raises (%s): %s" % (ref["phase"], ref["err"]))
        return out, leaves, opr, ref
    # forward agreement (recorded only)
    fwd = None
    if opr["outs"] is not None:
        fwd = True
        ferr = 0.0
        for o, r in zip(opr["outs"], ref["outs"]):
            ok, err = close(o, r, max(tol, 1e-6))
            fwd = fwd and ok
            ferr = max(ferr, err) if err == err else float("inf")
        out["forward_err"] = ferr
    out["forward_agrees"] = fwd
    if chol0 and fn in APPROX_FNS_CHOL0 and (
            (opr["err"] is not None and opr["phase"] == "backward") or
            (opr["grads"] is not None and any(g is not None and not bool(torch.isfinite(g).all()) for g in opr["grads"]))):
        # Lanczos / eigh based roots: the derivative of the eigendecomposition is undefined at repeated eigenvalues, which
        # the structured integer test data produce; NaN gradients (and what they trigger downstream) are not comparable
        out.update(status="skip", reason="approximate method (%s): non-finite gradient of the eigendecomposition" % fn)
        return out, leaves, opr, ref
    if opr["err"] is not None:
        m = opr["err"]
        kind = "raises"
        if "incorrect number of gradients" in m:
            kind = "count"
        elif "invalid gradient at index" in m and "shape" in m:
            kind = "shape"
        elif opr["exc_type"] == "OutputShape":
            kind = "shape"
        out.update(status="fail", fail=kind, phase=opr["phase"], error=m, dense_raises=False, where=opr.get("where"),
                   offender={"owner": "output" if opr["exc_type"] == "OutputShape" else "?"})
        return out, leaves, opr, ref
    if (chol0 and fn in APPROX_FNS_CHOL0 or fn in CIQ_FNS or fn in LANCZOS_FNS or (chol0 and fn == "diag_default")) and not fwd:
        out.update(status="skip", reason="approximate method (%s) did not reproduce the forward value "
                   "(rel err %.3g): gradient of the approximation is not comparable" % (fn, out["forward_err"]))
        return out, leaves, opr, ref
    kind, nm, err, detail = compare_grads(names, opr["grads"], ref["grads"], tol, fn in SYM_FNS)
    out["max_err"] = err
    if kind is not None:
        out.update(status="fail", fail=kind, offender=nm, detail=detail)
        if fwd and not case.get("_nearby"):
            # Two functions that agree on a neighbourhood have the same gradient.  So a gradient mismatch with an agreeing
            # forward value is a defect of the backward code only if the forward values ALSO agree at generic nearby points;
            # if they differ there, the entry point computes another function that merely coincides at this (special, e.g.
            # zero off-diagonal) input: a forward defect, not C07's.
            near = forward_agrees_nearby(case, tol)
            if near is False:
                out["forward_agrees"] = False
                out["forward_differs_nearby"] = True
    return out, leaves, opr, ref


def perturbed_expr(e, seed, eps=0.25):
    """a copy of the expression with every float leaf moved by eps * (seeded noise), keeping what the leaf must satisfy:
    symmetric where it enters symmetrically, zero outside the triangle of a triangular factor"""
    import copy as _copy
    e2 = reshare(_copy.deepcopy(e))
    lv = Leaves(e2)
    g = torch.Generator().manual_seed(int(seed) % (2 ** 31) + 991)
    for r in lv.recs:
        spec = r["spec"]
        x = torch.tensor(spec["data"], dtype=F64).reshape(spec["shape"])
        nz = torch.rand(x.shape, generator=g, dtype=F64) * 2 - 1
        if r["sym"] and x.dim() >= 2 and x.shape[-1] == x.shape[-2]:
            nz = (nz + nz.mT) / 2
        if r["tri"]:
            nz = torch.triu(nz) if r["tri"] == "upper" else torch.tril(nz)
        spec["data"] = [float(v) for v in (x + eps * nz).reshape(-1).tolist()]
    return e2


def forward_agrees_nearby(case, tol, points=2):
    """True / False / None (inconclusive: a side raises at the nearby point)"""
    fn, me, chol0, seed = case["fn"], bool(case["me"]), bool(case["chol0"]), int(case["seed"])
    verdicts = []
    for j in range(points):
        try:
            e2 = perturbed_expr(case["expr"], seed + 17 * j)
            lv = Leaves(e2, case.get("rg_mask"))
            a = prepare_args(case["fn_args"], case.get("rhs_rg", True))
            ref = run_side(lv, fn, a, False, me, chol0, seed, precond=bool(case.get("precond")))
            if ref["err"] is not None:
                continue
            opr = run_side(lv, fn, a, True, me, chol0, seed, weights=ref["W"], precond=bool(case.get("precond")))
            if opr["outs"] is None:
                continue
            ok = all(close(o, r, max(tol, 1e-6))[0] for o, r in zip(opr["outs"], ref["outs"]))
            verdicts.append(ok)
        except Exception:  # noqa
            continue
    if not verdicts:
        return None
    return all(verdicts)


def memeff_compare(names, g_a, g_b):
    for nm, a, b in zip(names, g_a, g_b):
        za = zeros_like_input(nm["shape"]) if a is None else a
        zb = zeros_like_input(nm["shape"]) if b is None else b
        ok, err = close(za, zb, TOL_MEMEFF)
        if not ok:
            return nm, err, {"me_off": _small(za), "me_on": _small(zb)}
    return None, 0.0, None


# ------------------------------------------------------------------------------------------- stand-alone reproduction

_HELPERS = {
    "bkron": '''def bkron(a, b):
    bs = torch.broadcast_shapes(a.shape[:-2], b.shape[:-2])
    a = a.expand(*bs, *a.shape[-2:]); b = b.expand(*bs, *b.shape[-2:])
    return torch.einsum("...ij,...kl->...ikjl", a, b).reshape(*bs, a.shape[-2] * b.shape[-2], a.shape[-1] * b.shape[-1])
''',
    "interp": '''def interp(idx, val, ncols):      # W[.., i, idx[.., i, k]] += val[.., i, k]
    W = torch.zeros(*idx.shape[:-1], ncols, dtype=val.dtype)
    return W.scatter_add(-1, idx, val)
''',
    "toep": '''def toep(col):
    n = col.shape[-1]
    return col[..., (torch.arange(n)[:, None] - torch.arange(n)[None, :]).abs()]
''',
    "blocks": '''def blocks(base, kind):          # base (..., k, m, n) -> block diagonal / interleaved (..., k*m, k*n)
    k, m, n = base.shape[-3:]
    out = torch.zeros(*base.shape[:-3], k * m, k * n, dtype=base.dtype)
    for i in range(k):
        if kind == "diag":
            out[..., i * m:(i + 1) * m, i * n:(i + 1) * n] = base[..., i, :, :]
        else:
            out[..., i::k, i::k] = base[..., i, :, :]
    return out
''',
    "lin_kernel": '''def lin_kernel(x1, x2, **params):
    k = x1 @ x2.mT
    if params.get("square"):
        k = k * k
    if params.get("c") is not None:
        k = k * params["c"]
    return k
''',
    "UserMinimal": '''class UserMinimal(LinearOperator):
    def __init__(self, mat):
        super().__init__(mat); self.mat = mat
    def _matmul(self, rhs):
        return self.mat.matmul(rhs)
    def _size(self):
        return self.mat.shape
    def _transpose_nonbatch(self):
        return UserMinimal(self.mat.mT)
''',
    "inv_sqrt": '''def inv_sqrt(D, iters=40):         # Denman-Beavers iteration for D^{-1/2}
    n = D.shape[-1]
    s = D.diagonal(dim1=-2, dim2=-1).sum(-1).detach()[..., None, None] / n
    Y, Z = D / s, torch.eye(n, dtype=D.dtype).expand_as(D)
    for _ in range(iters):
        Y, Z = 0.5 * (Y + torch.linalg.inv(Z)), 0.5 * (Z + torch.linalg.inv(Y))
    return Z / s.sqrt()
''',
}


class _Emit:
    def __init__(self, rg_mask):
        self.lines = []
        self.names = {}        # id(spec) -> (variable given to constructors)
        self.leaf_vars = []    # [(leaf var, requires_grad)]
        self.helpers = []
        self.rg_mask = rg_mask
        self.nfloat = 0

    def need(self, h):
        if h not in self.helpers:
            self.helpers.append(h)

    def tens(self, t):
        k = id(t)
        if k in self.names:
            return self.names[k]
        if t.get("bool") or t.get("long"):
            v = "i%d" % len(self.names)
            self.lines.append("%s = torch.tensor(%r, dtype=torch.%s).reshape(%r)" % (
                v, t["data"], "bool" if t.get("bool") else "long", list(t["shape"])))
            self.names[k] = v
            return v
        i = self.nfloat
        self.nfloat += 1
        rg = True if self.rg_mask is None or i >= len(self.rg_mask) else bool(self.rg_mask[i])
        v = "t%d" % i
        self.lines.append("%s = torch.tensor(%r, dtype=torch.float64).reshape(%r)%s" % (
            v, [float(x) for x in t["data"]], list(t["shape"]), ".requires_grad_(True)" if rg else ""))
        self.leaf_vars.append((v, rg))
        given = v
        if t.get("expand"):
            given = "%s_x" % v
            self.lines.append("%s = %s.expand(%r)" % (given, v, list(t["expand"])))
        self.names[k] = given
        return given

    # operator source (the order of tens() calls follows opbuild.build, i.e. the leaf numbering of rg_mask)
    def op(self, e):
        c = e["cls"]
        T, O = self.tens, self.op
        if c == "Dense":
            return "DenseLinearOperator(%s)" % T(e["t"])
        if c == "Diag":
            return "DiagLinearOperator(%s)" % T(e["d"])
        if c == "ConstantDiag":
            return "ConstantDiagLinearOperator(%s, diag_shape=%d)" % (T(e["c"]), e["n"])
        if c == "Identity":
            return "IdentityLinearOperator(%d, batch_shape=torch.Size(%r), dtype=torch.float64)" % (e["n"], list(e.get("batch", [])))
        if c == "Zero":
            return "ZeroLinearOperator(*%r, dtype=torch.float64)" % (list(e["shape"]),)
        if c == "Toeplitz":
            return "ToeplitzLinearOperator(%s)" % T(e["col"])
        if c == "Triangular":
            return "TriangularLinearOperator(%s, upper=%r)" % (T(e["t"]), bool(e["upper"]))
        if c == "Chol":
            return "CholLinearOperator(TriangularLinearOperator(%s, upper=%r), upper=%r)" % (T(e["t"]), bool(e["upper"]), bool(e["upper"]))
        if c in ("Root", "LowRankRoot"):
            inner = O(e["root"]) if "cls" in e["root"] else T(e["root"])
            return "%s(%s)" % ("RootLinearOperator" if c == "Root" else "LowRankRootLinearOperator", inner)
        if c in ("Kron", "KronDiag"):
            return "%s(%s)" % ("KroneckerProductLinearOperator" if c == "Kron" else "KroneckerProductDiagLinearOperator",
                               ", ".join(O(x) for x in e["ops"]))
        if c == "KronTriangular":
            return "KroneckerProductTriangularLinearOperator(%s, upper=%r)" % (", ".join(O(x) for x in e["ops"]), bool(e["upper"]))
        if c == "KronAddedDiag":
            a = O(e["kron"]); b = O(e["diag"])
            return "KroneckerProductAddedDiagLinearOperator(%s, %s)" % (a, b)
        if c == "SumKron":
            a = O(e["a"]); b = O(e["b"])
            return "SumKroneckerLinearOperator(%s, %s)" % (a, b)
        if c == "AddedDiag":
            a = O(e["base"]); b = O(e["diag"])
            return "AddedDiagLinearOperator(%s, %s)" % (a, b)
        if c == "LowRankRootAddedDiag":
            a = O(e["root"]); b = O(e["diag"])
            return "LowRankRootAddedDiagLinearOperator(%s, %s)" % (a, b)
        if c in ("Sum", "PsdSum"):
            return "%s(%s)" % ("SumLinearOperator" if c == "Sum" else "PsdSumLinearOperator", ", ".join(O(x) for x in e["ops"]))
        if c in ("Matmul", "Mul"):
            a = O(e["l"]); b = O(e["r"])
            return "%s(%s, %s)" % ("MatmulLinearOperator" if c == "Matmul" else "MulLinearOperator", a, b)
        if c == "ConstantMul":
            a = O(e["base"]); b = T(e["c"])
            return "ConstantMulLinearOperator(%s, %s)" % (a, b)
        if c in ("BlockDiag", "BlockInterleaved", "SumBatch"):
            nm = {"BlockDiag": "BlockDiagLinearOperator", "BlockInterleaved": "BlockInterleavedLinearOperator",
                  "SumBatch": "SumBatchLinearOperator"}[c]
            return "%s(%s, block_dim=%d)" % (nm, O(e["base"]), e.get("block_dim", -3))
        if c == "BatchRepeat":
            return "BatchRepeatLinearOperator(%s, batch_repeat=torch.Size(%r))" % (O(e["base"]), list(e["rep"]))
        if c == "Cat":
            return "CatLinearOperator(%s, dim=%d)" % (", ".join(O(x) for x in e["ops"]), e["dim"])
        if c == "Interpolated":
            a = O(e["base"]); li = T(e["li"]); lv = T(e["lv"]); ri = T(e["ri"]); rv = T(e["rv"])
            return "InterpolatedLinearOperator(%s, %s, %s, %s, %s)" % (a, li, lv, ri, rv)
        if c == "Masked":
            a = O(e["base"]); r = T(e["row_mask"]); cm = T(e["col_mask"])
            return "MaskedLinearOperator(%s, %s, %s)" % (a, r, cm)
        if c == "Permutation":
            return "PermutationLinearOperator(%s)" % T(e["perm"])
        if c == "TransposePermutation":
            return "TransposePermutationLinearOperator(%d)" % e["m"]
        if c == "Kernel":
            self.need("lin_kernel")
            kw = ""
            if e.get("c") is not None:
                kw += ", c=%s" % T(e["c"])
            if e.get("square"):
                kw += ", square=True"
            x1 = T(e["x1"]); x2 = T(e["x2"])
            return "KernelLinearOperator(%s, %s, covar_func=lin_kernel%s)" % (x1, x2, kw)
        if c == "UserMinimal":
            self.need("UserMinimal")
            return "UserMinimal(%s)" % T(e["t"])
        raise ValueError(c)

    # dense assembly source (plain torch)
    def dn(self, e):
        c = e["cls"]
        T, D = self.tens, self.dn
        if c in ("Dense", "UserMinimal", "Triangular"):
            return T(e["t"])
        if c == "Diag":
            return "torch.diag_embed(%s)" % T(e["d"])
        if c == "ConstantDiag":
            v = T(e["c"])
            return "torch.diag_embed(%s.expand(*%s.shape[:-1], %d))" % (v, v, e["n"])
        if c == "Identity":
            return "torch.eye(%d, dtype=torch.float64).expand(%s)" % (e["n"], ", ".join(str(x) for x in list(e.get("batch", [])) + [e["n"], e["n"]]))
        if c == "Zero":
            return "torch.zeros(%r, dtype=torch.float64)" % (list(e["shape"]),)
        if c == "Toeplitz":
            self.need("toep")
            return "toep(%s)" % T(e["col"])
        if c == "Chol":
            v = T(e["t"])
            return "(%s.mT @ %s)" % (v, v) if e["upper"] else "(%s @ %s.mT)" % (v, v)
        if c in ("Root", "LowRankRoot"):
            v = D(e["root"]) if "cls" in e["root"] else T(e["root"])
            return "(%s @ %s.mT)" % (v, v)
        if c in ("Kron", "KronTriangular", "KronDiag"):
            self.need("bkron")
            r = None
            for x in e["ops"]:
                r = D(x) if r is None else "bkron(%s, %s)" % (r, D(x))
            return r
        if c in ("KronAddedDiag",):
            return "(%s + %s)" % (D(e["kron"]), D(e["diag"]))
        if c == "SumKron":
            return "(%s + %s)" % (D(e["a"]), D(e["b"]))
        if c == "AddedDiag":
            return "(%s + %s)" % (D(e["base"]), D(e["diag"]))
        if c == "LowRankRootAddedDiag":
            return "(%s + %s)" % (D(e["root"]), D(e["diag"]))
        if c in ("Sum", "PsdSum"):
            return "(" + " + ".join(D(x) for x in e["ops"]) + ")"
        if c == "Matmul":
            return "(%s @ %s)" % (D(e["l"]), D(e["r"]))
        if c == "Mul":
            return "(%s * %s)" % (D(e["l"]), D(e["r"]))
        if c == "ConstantMul":
            return "(%s * %s[..., None, None])" % (D(e["base"]), T(e["c"]))
        if c in ("BlockDiag", "BlockInterleaved", "SumBatch"):
            b = D(e["base"])
            bd = e.get("block_dim", -3)
            if bd != -3:
                b = "torch.movedim(%s, %d, -3)" % (b, bd)
            if c == "SumBatch":
                return "%s.sum(-3)" % b
            self.need("blocks")
            return "blocks(%s, %r)" % (b, "diag" if c == "BlockDiag" else "interleaved")
        if c == "BatchRepeat":
            rep = list(e["rep"])
            nb = len(ob.shape_of(e["base"])) - 2
            b = D(e["base"])
            pad = len(rep) - nb
            if pad > 0:
                b = "%s.reshape(%s*%s.shape)" % (b, "".join("1, " for _ in range(pad)), b) if False else \
                    "%s[%s]" % (b, ", ".join(["None"] * pad + ["..."]))
                nb = len(rep)
            return "%s.repeat(%s)" % (b, ", ".join(str(x) for x in [1] * (nb - len(rep)) + rep + [1, 1]))
        if c == "Cat":
            return "torch.cat([%s], dim=%d)" % (", ".join(D(x) for x in e["ops"]), e["dim"])
        if c == "Interpolated":
            self.need("interp")
            bs = ob.shape_of(e["base"])
            b = D(e["base"])
            return "(interp(%s, %s, %d) @ %s @ interp(%s, %s, %d).mT)" % (
                T(e["li"]), T(e["lv"]), bs[-2], b, T(e["ri"]), T(e["rv"]), bs[-1])
        if c == "Masked":
            return "%s[..., %s, :][..., :, %s]" % (D(e["base"]), T(e["row_mask"]), T(e["col_mask"]))
        if c == "Permutation":
            p = T(e["perm"])
            return "torch.eye(%s.shape[-1], dtype=torch.float64)[%s]" % (p, p)
        if c == "Kernel":
            x1, x2 = T(e["x1"]), T(e["x2"])
            k = "(%s @ %s.mT)" % (x1, x2)
            if e.get("square"):
                k = "(%s * %s)" % (k, k)
            if e.get("c") is not None:
                k = "(%s * %s)" % (k, T(e["c"]))
            return k
        raise ValueError(c)


def _fn_src(fn, a):
    """(operator-side expression list, dense-side expression list) as source strings over `op`, `D`, `rhs`, `lhs`"""
    if fn == "matmul":
        return ["op.matmul(rhs)"], ["D @ rhs"]
    if fn == "rmatmul":
        return ["op.rmatmul(lhs)"], ["lhs @ D"]
    vec = a.get("rhs") is not None and len(a["rhs"]["shape"]) == 1
    R = "rhs.unsqueeze(-1)" if vec else "rhs"
    sq = ".squeeze(-1)" if vec else ""
    if fn == "solve":
        return ["op.solve(rhs)"], ["torch.linalg.solve(D, %s)%s" % (R, sq)]
    if fn == "solve_lhs":
        return ["op.solve(rhs, lhs)"], ["lhs @ torch.linalg.solve(D, %s)%s" % (R, sq)]
    if fn == "inv_quad":
        red = a.get("reduce", True)
        return ["op.inv_quad(rhs, reduce_inv_quad=%r)" % red], \
               ["(%s * torch.linalg.solve(D, %s)).sum(-2)%s" % (R, R, ".sum(-1)" if red else "")]
    if fn == "logdet":
        return ["op.logdet()"], ["torch.logdet(D)"]
    if fn == "inv_quad_logdet":
        return ["*op.inv_quad_logdet(inv_quad_rhs=rhs, logdet=True)"], \
               ["(%s * torch.linalg.solve(D, %s)).sum((-2, -1))" % (R, R), "torch.logdet(D)"]
    if fn == "diagonal":
        return ["op.diagonal()"], ["D.diagonal(dim1=-2, dim2=-1)"]
    if fn == "to_dense":
        return ["op.to_dense()"], ["D"]
    if fn == "getitem":
        ix = index_src(a["index"])
        return ["to_dense(op[%s])" % ix], ["D[%s]" % ix]
    if fn == "sum":
        return ["to_dense(op.sum(%d))" % a["dim"]], ["D.sum(%d)" % a["dim"]]
    if fn == "root_decomposition":
        return ["op.root_decomposition().to_dense()"], ["D"]
    if fn == "root_inv_decomposition":
        return ["op.root_inv_decomposition().to_dense()"], ["torch.linalg.inv(D)"]
    if fn == "cholesky":
        return ["op.cholesky().to_dense()"], ["torch.linalg.cholesky(D)"]
    if fn == "pivoted_cholesky":
        return ["(lambda Lp: Lp @ Lp.mT)(op.pivoted_cholesky(rank=op.size(-1), error_tol=0.0))"], ["D"]
    if fn in MULTI_FNS:
        k = a.get("kind")
        return ["*c07_multi(%r, op, %r, True, rhs)" % (fn, k)], ["*c07_multi(%r, D, %r, False, rhs)" % (fn, k)]
    if fn == "sqrt_inv_matmul":
        return ["op.sqrt_inv_matmul(rhs)"], ["(inv_sqrt(D) @ %s)%s" % (R, sq)]
    if fn == "sqrt_inv_matmul_lhs":
        return ["*op.sqrt_inv_matmul(rhs, lhs)"], ["lhs @ (inv_sqrt(D) @ rhs)", "(lhs * torch.linalg.solve(D, lhs.mT).mT).sum(-1)"]
    raise ValueError(fn)


def emit(replay):
    """stand-alone python source reproducing one comparison (prints both gradients and their difference)"""
    import copy as _copy
    e = reshare(_copy.deepcopy(replay["expr"]))
    fn, a = replay["fn"], replay["fn_args"]
    em = _Emit(replay.get("rg_mask"))
    op_src = em.op(e)
    dn_src = em.dn(e)
    ops, dns = _fn_src(fn, a)
    if fn in CIQ_FNS:
        em.need("inv_sqrt")
    rhs_rg = replay.get("rhs_rg", True)
    multi_src = ""
    if fn in MULTI_FNS:
        import inspect
        multi_src = ("SPEC_SCALE = %r\n_dn = lambda x: x.to_dense() if not torch.is_tensor(x) else x\n" % SPEC_SCALE
                     + inspect.getsource(spec_outs) + "\n" + inspect.getsource(apply_multi)
                     + "\ndef c07_multi(fn, A, kind, is_op, rhs=None):\n    return apply_multi(fn, A, {'kind': kind, '_rhs': rhs}, is_op)\n")
    out = ["import torch", "import linear_operator", "from linear_operator import settings",
           "from linear_operator.operators import *   # noqa", "from linear_operator.operators import LinearOperator, to_dense",
           "torch.set_num_threads(1)", ""]
    for h in em.helpers:
        out.append(_HELPERS[h])
    if multi_src:
        out.append(multi_src)
        if a.get("rhs") is None:
            out.append("rhs = None")
    out += em.lines
    inputs = [v for v, rg in em.leaf_vars if rg]
    for nm in ("rhs", "lhs"):
        if a.get(nm) is not None:
            out.append("%s = torch.tensor(%r, dtype=torch.float64).reshape(%r)%s" % (
                nm, [float(x) for x in a[nm]["data"]], list(a[nm]["shape"]), ".requires_grad_(True)" if rhs_rg else ""))
            if rhs_rg:
                inputs.append(nm)
    out.append("inputs = [%s]" % ", ".join(inputs))
    out.append("")
    out.append("D = %s          # dense assembly from the same leaves" % dn_src)
    out.append("ref = [%s]" % ", ".join(dns))
    out.append("g = torch.Generator().manual_seed(%d)" % (int(replay.get("seed", 0)) % (2 ** 31) + 7))
    if replay.get("precond"):
        out.append("W = [-(torch.rand(tuple(o.shape), generator=g, dtype=torch.float64) * 2 + 4) for o in ref]")
    else:
        out.append("W = [torch.rand(tuple(o.shape), generator=g, dtype=torch.float64) * 2 - 1 for o in ref]")
    out.append("g_ref = torch.autograd.grad(sum((w * o).sum() for w, o in zip(W, ref)), inputs, allow_unused=True)")
    out.append("")
    ctxs = ["settings.memory_efficient(%r)" % bool(replay.get("me"))]
    if replay.get("precond"):
        ctxs += ["settings.min_preconditioning_size(1)", "settings.max_preconditioner_size(2)"]
    if replay.get("chol0"):
        ctxs += ["settings.max_cholesky_size(0)", "settings.cg_tolerance(1e-10)", "settings.max_cg_iterations(200)"]
        if fn in ("logdet", "inv_quad_logdet"):
            out.append("# NOTE: under max_cholesky_size(0) the logdet gradient is a stochastic estimate (random probe vectors);")
            out.append("# the harness makes it exact with orthogonal probes - here expect agreement only up to sampling noise")
            ctxs.append("settings.num_trace_samples(%d)" % (20000 if replay.get("precond") else 500))
    out.append("op = %s" % op_src)
    out.append("with %s:" % ", ".join(ctxs))
    out.append("    res = [%s]" % ", ".join(ops))
    out.append("    print('forward max |op - dense|:', [float((o - r).abs().max()) for o, r in zip(res, ref)])")
    out.append("    g_op = torch.autograd.grad(sum((w * o).sum() for w, o in zip(W, res)), inputs, allow_unused=True)")
    out.append("for nm, a, b in zip(%r, g_op, g_ref):" % (inputs,))
    out.append("    print(nm, 'operator grad:', None if a is None else a.tolist(), ' dense grad:', None if b is None else b.tolist())")
    if fn in SYM_FNS:
        out.append("# (%s is defined on symmetric matrices only: compare a + a.mT with b + b.mT for square matrix-valued leaves)" % fn)
    return "\n".join(out) + "\n"
