"""C20 — utility kernels equal their dense definitions.

model    : coq/C20/Model.v (Gallina transcription of the kernels in linear_operator/utils/{toeplitz,interpolation,
           sparse,permutation,broadcasting}.py and functions/_dsmm.py over Z; tensors as index functions),
           coq/C20/ModelQR.v (stable_qr / stable_pinverse)
theorems : coq/C20/Property.v  (every kernel = its dense definition, all sizes / batch shapes)
tie      : correspondence.  Every generated case is run on the implementation (float64 and float32), the observed
           output (exact integers) is written next to the inputs into a shard and Coq evaluates the model on the same
           inputs (vm_compute) and compares.  Independently, the dense definition is evaluated with plain torch on
           dense tensors for every case (direct property predicate = the triage oracle).
"""
import itertools
import json
import math
import os
import random
import traceback

from . import common
from . import c20_qr
from . import c20_large

PROP = "C20"


def torch_():
    import torch
    return torch


# ------------------------------------------------------------------------------------------------
# canonical values

def tns(x):
    """torch tensor -> {"shape", "data"} with exact integer data (or a 'nonint' marker)."""
    torch = torch_()
    if x.is_sparse:
        # torch does not validate COO indices: densifying an ill-formed tensor is undefined behaviour (heap corruption)
        ind, size = x._indices(), list(x.shape)
        if ind.shape[0] != len(size) or ind.shape[1] != x._values().shape[0]:
            raise ValueError("ill-formed sparse tensor: indices %s values %s size %s" % (list(ind.shape), list(x._values().shape), size))
        if ind.numel() and (int(ind.min()) < 0 or any(int(ind[k].max()) >= size[k] for k in range(len(size)))):
            raise ValueError("ill-formed sparse tensor: index out of bounds for size %s" % size)
        x = x.to_dense()
    x = x.detach()
    shape = list(x.shape)
    if x.dtype in (torch.long, torch.int32, torch.bool, torch.int64):
        return {"shape": shape, "data": [int(v) for v in x.reshape(-1).tolist()]}
    tol = 1e-6 if x.dtype == torch.float64 else 2e-3
    vals = x.reshape(-1).to(torch.float64).tolist()
    data = []
    for v in vals:
        if v != v or abs(v) == float("inf") or abs(v - round(v)) > tol:
            return {"shape": shape, "nonint": vals}
        data.append(int(round(v)))
    return {"shape": shape, "data": data}


def mk(shape, data, dtype=None, long=False):
    torch = torch_()
    if long:
        return torch.tensor(data, dtype=torch.long).reshape(shape)
    return torch.tensor(data, dtype=dtype).reshape(shape)


def rand_ints(rng, shape, lo=-3, hi=3, zero_p=0.0):
    n = int(math.prod(shape))
    out = []
    for _ in range(n):
        if zero_p and rng.random() < zero_p:
            out.append(0)
        else:
            out.append(rng.randint(lo, hi))
    return {"shape": list(shape), "data": out}


def observe(f):
    """run the implementation; -> {"err": kind} | {"shape","data"} | {"py": int}"""
    torch = torch_()
    try:
        r = f()
    except Exception as ex:  # the library raises
        return {"err": type(ex).__name__, "msg": str(ex)[:160]}
    if isinstance(r, torch.Tensor):
        try:
            return tns(r)
        except Exception as ex:  # the result is an ill-formed (sparse) tensor that cannot even be densified
            return {"err": "IllFormedResult:" + type(ex).__name__, "msg": str(ex)[:160]}
    if isinstance(r, (tuple, torch.Size, list)):
        return {"shape": [int(v) for v in r], "data": []}
    if isinstance(r, (int, float)):
        return tns(torch.tensor(float(r), dtype=torch.float64))
    return {"err": "UnexpectedType:" + type(r).__name__}


def same_obs(a, b):
    if "err" in a or "err" in b:
        return "err" in a and "err" in b
    if "nonint" in a or "nonint" in b:
        return False
    return a["shape"] == b["shape"] and a["data"] == b["data"]


# ------------------------------------------------------------------------------------------------
# Coq literals (shapes LAST DIMENSION FIRST)

def sh_lit(shape):
    return common.natlist(list(reversed(list(shape))))


def t_lit(t):
    return "(T %s %s)" % (sh_lit(t["shape"]), common.zlist(t["data"]))


def e_lit(obs):
    if "err" in obs:
        return "EErr"
    return "(EOut %s %s)" % (sh_lit(obs["shape"]), common.zlist(obs["data"]))


BATCHES = [(), (2,), (2, 3)]
# (batch of the structured operand, batch of the right-hand side): equal, one-sided, broadcasting both ways
BATCH_PAIRS = [((), ()), ((2,), ()), ((), (2,)), ((2,), (2,)), ((2, 3), (2, 3)), ((2, 3), ()), ((), (2, 3)),
               ((2, 3), (3,)), ((3,), (2, 3)), ((2, 1), (1, 3)), ((1,), (2,)), ((2, 1), (3,)), ((1, 3), (2, 1))]


def bshape(*xs):
    torch = torch_()
    return tuple(torch.broadcast_shapes(*xs))


# ------------------------------------------------------------------------------------------------
# kernels.  Each kernel: cells(quick, rng) -> list of cell dicts (structure only),
#                        make(cell, rng) -> case (cell + integer inputs),
#                        impl(case, dtype) -> torch result (may raise), oracle(case) -> obs from the dense definition,
#                        term(case, obs) -> Coq bool term, key(case) -> structural key of a failure

def sizes_for(quick, rng, lo=1, hi=8, always=(1, 2), extra=2):
    if not quick:
        return list(range(lo, hi + 1))
    rest = [n for n in range(lo, hi + 1) if n not in always]
    return sorted(set([a for a in always if lo <= a <= hi] + rng.sample(rest, min(extra, len(rest)))))


def dense_toeplitz(c, r):
    """dense definition T[i,j] = c[i-j] if i>=j else r[j-i]; c, r: (..., n) float64 tensors (same shape)"""
    torch = torch_()
    n = c.shape[-1]
    if n > 16:      # the same definition, assembled by index arithmetic (the explicit loops below are O(n^2) Python steps)
        ar = torch.arange(n)
        d = ar.unsqueeze(-1) - ar.unsqueeze(0)                       # d[i, j] = i - j
        return torch.where(d >= 0, c.to(torch.float64)[..., d.clamp(min=0)], r.to(torch.float64)[..., (-d).clamp(min=0)])
    Tm = torch.zeros(*c.shape, n, dtype=torch.float64)
    for i in range(n):
        for j in range(n):
            Tm[..., i, j] = c[..., i - j] if i >= j else r[..., j - i]
    return Tm


class K:
    name = None

    def key(self, case):
        k = {"kernel": self.name}
        k.update({a: v for a, v in case["cell"].items() if a in self.key_attrs})
        return k
    key_attrs = ()


class KToeplitz(K):
    name = "toeplitz"
    key_attrs = ("sym", "bad")

    def cells(self, quick, rng):
        out = []
        for sym in (False, True):
            for n in sizes_for(quick, rng, extra=3):
                out.append({"sym": sym, "n": n, "bad": None})
        out += [{"sym": False, "n": 3, "bad": "c0_ne_r0"}, {"sym": False, "n": 3, "bad": "len"},
                {"sym": False, "n": 2, "bad": "ndim"}, {"sym": False, "n": 1, "bad": "c0_ne_r0"}]
        return out

    def make(self, cell, rng):
        n = cell["n"]
        c = rand_ints(rng, (n,))
        r = rand_ints(rng, (n,))
        r["data"][0] = c["data"][0]
        if cell["bad"] == "c0_ne_r0":
            r["data"][0] = c["data"][0] + 1
        if cell["bad"] == "len":
            r = rand_ints(rng, (n + 1,))
            r["data"][0] = c["data"][0]
        if cell["bad"] == "ndim":
            c = rand_ints(rng, (1, n))
            r = rand_ints(rng, (1, n))
            r["data"][0] = c["data"][0]
        return {"c": c, "r": r}

    def impl(self, case, dtype):
        from linear_operator.utils import toeplitz as tz
        c = mk(**case["c"], dtype=dtype)
        if case["cell"]["sym"]:
            return tz.sym_toeplitz(c)
        return tz.toeplitz(c, mk(**case["r"], dtype=dtype))

    def oracle(self, case):
        torch = torch_()
        if case["cell"]["bad"]:
            return {"err": "spec"}
        c = mk(**case["c"], dtype=torch.float64)
        r = c if case["cell"]["sym"] else mk(**case["r"], dtype=torch.float64)
        return tns(dense_toeplitz(c, r))

    def term(self, case, obs):
        if case["cell"]["sym"]:
            return "chk (sym_toeplitz 424242%%Z %s) %s" % (t_lit(case["c"]), e_lit(obs))
        return "chk (toeplitz 424242%%Z %s %s) %s" % (t_lit(case["c"]), t_lit(case["r"]), e_lit(obs))


class KToeplitzGetitem(K):
    name = "toeplitz_getitem"
    key_attrs = ("sym",)

    def cells(self, quick, rng):
        out = []
        for sym in (False, True):
            for n in sizes_for(quick, rng, extra=2):
                out.append({"sym": sym, "n": n})
        return out

    def make(self, cell, rng):
        n = cell["n"]
        c = rand_ints(rng, (n,), -9, 9)
        r = rand_ints(rng, (n,), -9, 9)
        r["data"][0] = c["data"][0]
        return {"c": c, "r": r}

    def expand(self, case):
        """one case = ALL (i, j) pairs of the n x n matrix"""
        n = case["cell"]["n"]
        return [(i, j) for i in range(n) for j in range(n)]

    def impl(self, case, dtype):
        torch = torch_()
        from linear_operator.utils import toeplitz as tz
        c = mk(**case["c"], dtype=dtype)
        r = mk(**case["r"], dtype=dtype)
        n = case["cell"]["n"]
        res = torch.zeros(n, n, dtype=dtype)
        for i in range(n):
            for j in range(n):
                res[i, j] = tz.sym_toeplitz_getitem(c, i, j) if case["cell"]["sym"] else tz.toeplitz_getitem(c, r, i, j)
        return res

    def oracle(self, case):
        torch = torch_()
        c = mk(**case["c"], dtype=torch.float64)
        r = c if case["cell"]["sym"] else mk(**case["r"], dtype=torch.float64)
        return tns(dense_toeplitz(c, r))

    def term(self, case, obs):
        n = case["cell"]["n"]
        if case["cell"]["sym"]:
            return "chk_getitem (sym_toeplitz_getitem %s) %d %s" % (t_lit(case["c"]), n, e_lit(obs))
        return "chk_getitem (toeplitz_getitem %s %s) %d %s" % (t_lit(case["c"]), t_lit(case["r"]), n, e_lit(obs))


class KToeplitzMatmul(K):
    name = "toeplitz_matmul"
    key_attrs = ("sym", "rhs", "bad")

    def cells(self, quick, rng):
        out = []
        for sym in (False, True):
            for (tb, mb) in BATCH_PAIRS:
                for rhs in ("vec", "mat1", "mat"):
                    if rhs == "vec" and mb != ():
                        continue   # a 1-D rhs has no batch
                    for n in sizes_for(quick, rng, extra=1 if quick else 0):
                        out.append({"sym": sym, "tb": list(tb), "mb": list(mb), "rhs": rhs, "n": n, "bad": None})
        out += [{"sym": False, "tb": [], "mb": [], "rhs": "mat", "n": 3, "bad": "c0_ne_r0"},
                {"sym": False, "tb": [2], "mb": [2], "rhs": "mat", "n": 3, "bad": "c0_ne_r0_second_member"},
                {"sym": False, "tb": [], "mb": [], "rhs": "mat", "n": 3, "bad": "rows"},
                {"sym": False, "tb": [2], "mb": [3], "rhs": "mat", "n": 2, "bad": "batch"}]
        return out

    def make(self, cell, rng):
        n = cell["n"]
        tb, mb = tuple(cell["tb"]), tuple(cell["mb"])
        c = rand_ints(rng, tb + (n,))
        r = rand_ints(rng, tb + (n,))
        nb = int(math.prod(tb))
        for b in range(nb):
            r["data"][b * n] = c["data"][b * n]
        if cell["bad"] == "c0_ne_r0":
            r["data"][0] += 1
        if cell["bad"] == "c0_ne_r0_second_member":
            r["data"][n] += 1
        p = {"vec": None, "mat1": 1, "mat": rng.choice([2, 3])}[cell["rhs"]]
        rows = n + 1 if cell["bad"] == "rows" else n
        M = rand_ints(rng, mb + ((rows,) if p is None else (rows, p)))
        return {"c": c, "r": r, "M": M}

    def impl(self, case, dtype):
        from linear_operator.utils import toeplitz as tz
        c = mk(**case["c"], dtype=dtype)
        M = mk(**case["M"], dtype=dtype)
        if case["cell"]["sym"]:
            return tz.sym_toeplitz_matmul(c, M)
        return tz.toeplitz_matmul(c, mk(**case["r"], dtype=dtype), M)

    def oracle(self, case):
        torch = torch_()
        if case["cell"]["bad"]:
            return {"err": "spec"}
        c = mk(**case["c"], dtype=torch.float64)
        r = c if case["cell"]["sym"] else mk(**case["r"], dtype=torch.float64)
        M = mk(**case["M"], dtype=torch.float64)
        return tns(torch.matmul(dense_toeplitz(c, r), M))

    variants = {"pinned_1d_rhs_raises": "false"}

    def term(self, case, obs, variant=None):
        flag = self.variants[variant] if variant else "true"
        if case["cell"]["sym"]:
            return "chk (sym_toeplitz_matmul %s %s %s) %s" % (flag, t_lit(case["c"]), t_lit(case["M"]), e_lit(obs))
        return "chk (toeplitz_matmul %s %s %s %s) %s" % (flag, t_lit(case["c"]), t_lit(case["r"]), t_lit(case["M"]), e_lit(obs))


class KToeplitzDQF(K):
    name = "sym_toeplitz_derivative_quadratic_form"
    key_attrs = ("kind",)

    def cells(self, quick, rng):
        out = []
        for kind in ("vec", "mat"):
            for b in (BATCHES if kind == "mat" else [()]):
                for m in sizes_for(quick, rng, extra=2):
                    for s in ([None] if kind == "vec" else ([1, 3] if quick else [1, 2, 3, 4])):
                        out.append({"kind": kind, "b": list(b), "m": m, "s": s})
        return out

    def make(self, cell, rng):
        b, m, s = tuple(cell["b"]), cell["m"], cell["s"]
        shp = (m,) if cell["kind"] == "vec" else b + (m, s)
        return {"left": rand_ints(rng, shp), "right": rand_ints(rng, shp)}

    def impl(self, case, dtype):
        from linear_operator.utils import toeplitz as tz
        return tz.sym_toeplitz_derivative_quadratic_form(mk(**case["left"], dtype=dtype), mk(**case["right"], dtype=dtype))

    def oracle(self, case):
        """res[..., d] = sum_s u_s^T (dT/dc_d) v_s with dT/dc_d = ones on the d-th sub- and super-diagonal,
        computed by autograd-free explicit dense matrices"""
        torch = torch_()
        left = mk(**case["left"], dtype=torch.float64)
        right = mk(**case["right"], dtype=torch.float64)
        if left.dim() == 1:
            left, right = left.unsqueeze(-1), right.unsqueeze(-1)
        m = left.shape[-2]
        res = torch.zeros(*left.shape[:-2], m, dtype=torch.float64)
        ar = torch.arange(m)
        dist = (ar.unsqueeze(-1) - ar.unsqueeze(0)).abs()             # dist[i, k] = |i - k|
        for d in range(m):
            D = (dist == d).to(torch.float64)                         # ones on the d-th sub- and super-diagonal
            res[..., d] = (left * (D @ right)).sum((-2, -1))
        return tns(res)

    def term(self, case, obs):
        return "chk (sym_toeplitz_derivative_quadratic_form %s %s) %s" % (t_lit(case["left"]), t_lit(case["right"]), e_lit(obs))


# ---------------------------------------------------------------------------------------------- sparse helpers

def sp_lit(sp):
    """sp = {"shape": [...], "idx": [[i0, i1, ...] per entry], "val": [...]} -> Coq literal (index tuples reversed)"""
    ents = "; ".join("(%s, %s)" % (common.natlist(list(reversed(ix))), common.zlit(v)) for ix, v in zip(sp["idx"], sp["val"]))
    return "(SP %s [%s])" % (sh_lit(sp["shape"]), ents)


def sp_torch(sp, dtype):
    torch = torch_()
    nd = len(sp["shape"])
    if sp["idx"]:
        ind = torch.tensor(sp["idx"], dtype=torch.long).t().contiguous()
    else:
        ind = torch.zeros(nd, 0, dtype=torch.long)
    return torch.sparse_coo_tensor(ind, torch.tensor(sp["val"], dtype=dtype), tuple(sp["shape"]))


def sp_dense(sp):
    torch = torch_()
    d = torch.zeros(*sp["shape"], dtype=torch.float64)
    for ix, v in zip(sp["idx"], sp["val"]):
        d[tuple(ix)] += v
    return d


def rand_sparse(rng, shape, fill, dups=False):
    """fill in {'empty','sparse','dense'}; entries are NOT coalesced; dups adds repeated index tuples"""
    cells = list(itertools.product(*[range(d) for d in shape]))
    if fill == "empty" or not cells:
        return {"shape": list(shape), "idx": [], "val": []}
    k = max(1, len(cells) // 3) if fill == "sparse" else len(cells)
    pick = rng.sample(cells, k)
    if dups:
        pick = pick + [rng.choice(pick) for _ in range(min(3, len(pick)))]
    rng.shuffle(pick)
    vals = [rng.choice([-3, -2, -1, 1, 2, 3]) for _ in pick]
    return {"shape": list(shape), "idx": [list(c) for c in pick], "val": vals}


def rand_interp(rng, bshape_, rows, ninterp, ndata, dup, zeros):
    """index / value tensors of shape bshape + (rows, ninterp); dup: force duplicate indices inside rows;
    zeros in {'none','some','all'}"""
    shp = tuple(bshape_) + (rows, ninterp)
    n = int(math.prod(shp))
    idx = [rng.randrange(ndata) for _ in range(n)]
    if dup and ninterp >= 2:
        for r0 in range(0, n, ninterp):
            idx[r0 + 1] = idx[r0]
    if zeros == "all":
        val = [0] * n
    else:
        val = [rng.choice([-3, -2, -1, 1, 2, 3]) for _ in range(n)]
        if zeros == "some":
            for q in range(0, n, 3):
                val[q] = 0
    return {"shape": list(shp), "data": idx}, {"shape": list(shp), "data": val}


def dense_interp_matrix(idx, val, ndata):
    """W[..., r, k] = sum_q [idx[..., r, q] == k] val[..., r, q]   (explicit loops, float64)"""
    torch = torch_()
    W = torch.zeros(*idx.shape[:-1], ndata, dtype=torch.float64)
    flat_i = idx.reshape(-1, idx.shape[-1])
    flat_v = val.reshape(-1, idx.shape[-1])
    Wf = W.reshape(-1, ndata)
    for r in range(flat_i.shape[0]):
        for q in range(flat_i.shape[1]):
            Wf[r, int(flat_i[r, q])] += float(flat_v[r, q])
    return Wf.reshape(W.shape)


class KLeftInterp(K):
    name = "left_interp"
    key_attrs = ("rhs", "bad")

    def cells(self, quick, rng):
        out = []
        for rhs in ("vec", "mat"):
            pairs = [(ib, ()) for ib in BATCHES] if rhs == "vec" else BATCH_PAIRS
            for (ib, rb) in pairs:
                for dup in (False, True):
                    for zeros in ("none", "some", "all"):
                        if quick and zeros == "all" and (ib, rb) not in [((), ()), ((2,), (2,))]:
                            continue
                        for n in sizes_for(quick, rng, always=(1,), extra=1):
                            out.append({"rhs": rhs, "ib": list(ib), "rb": list(rb), "dup": dup, "zeros": zeros, "n": n, "bad": None})
        out.append({"rhs": "mat", "ib": [], "rb": [], "dup": False, "zeros": "none", "n": 3, "bad": "index_out_of_range"})
        out.append({"rhs": "vec", "ib": [], "rb": [], "dup": False, "zeros": "none", "n": 3, "bad": "index_out_of_range"})
        return out

    def make(self, cell, rng):
        n = cell["n"]                     # num_data
        rows = rng.randint(1, 5)
        ninterp = rng.randint(2, 4) if cell["dup"] else rng.randint(1, 4)
        idx, val = rand_interp(rng, cell["ib"], rows, ninterp, n, cell["dup"], cell["zeros"])
        if cell["bad"]:
            idx["data"][-1] = n
        p = None if cell["rhs"] == "vec" else rng.randint(1, 3)
        rhs = rand_ints(rng, tuple(cell["rb"]) + ((n,) if p is None else (n, p)))
        return {"idx": idx, "val": val, "x": rhs}

    def impl(self, case, dtype):
        from linear_operator.utils.interpolation import left_interp
        return left_interp(mk(**case["idx"], long=True), mk(**case["val"], dtype=dtype), mk(**case["x"], dtype=dtype))

    def oracle(self, case):
        torch = torch_()
        if case["cell"]["bad"]:
            return {"err": "spec"}
        idx = mk(**case["idx"], long=True)
        val = mk(**case["val"], dtype=torch.float64)
        x = mk(**case["x"], dtype=torch.float64)
        W = dense_interp_matrix(idx, val, case["cell"]["n"])
        return tns(torch.matmul(W, x))

    def term(self, case, obs):
        return "chk (left_interp %s %s %s) %s" % (t_lit(case["idx"]), t_lit(case["val"]), t_lit(case["x"]), e_lit(obs))


class KLeftTInterp(K):
    name = "left_t_interp"
    key_attrs = ("rhs", "bad")

    def cells(self, quick, rng):
        out = []
        for rhs in ("vec", "mat"):
            pairs = [(ib, ()) for ib in BATCHES] if rhs == "vec" else BATCH_PAIRS
            for (ib, rb) in pairs:
                for dup in (False, True):
                    for zeros in ("none", "some", "all"):
                        if quick and zeros == "all" and (ib, rb) not in [((), ()), ((2,), (2,))]:
                            continue
                        for n in sizes_for(quick, rng, always=(1,), extra=1):
                            out.append({"rhs": rhs, "ib": list(ib), "rb": list(rb), "dup": dup, "zeros": zeros, "n": n, "bad": None})
        out.append({"rhs": "mat", "ib": [], "rb": [], "dup": False, "zeros": "none", "n": 3, "bad": "index_out_of_range"})
        return out

    def make(self, cell, rng):
        n = cell["n"]                     # output_dim
        rows = rng.randint(1, 5)          # num_data
        ninterp = rng.randint(2, 4) if cell["dup"] else rng.randint(1, 4)
        idx, val = rand_interp(rng, cell["ib"], rows, ninterp, n, cell["dup"], cell["zeros"])
        if cell["bad"]:
            idx["data"][-1] = n
        p = None if cell["rhs"] == "vec" else rng.randint(1, 3)
        rhs = rand_ints(rng, tuple(cell["rb"]) + ((rows,) if p is None else (rows, p)))
        return {"idx": idx, "val": val, "x": rhs, "output_dim": n}

    def impl(self, case, dtype):
        from linear_operator.utils.interpolation import left_t_interp
        return left_t_interp(mk(**case["idx"], long=True), mk(**case["val"], dtype=dtype), mk(**case["x"], dtype=dtype),
                             case["output_dim"])

    def oracle(self, case):
        torch = torch_()
        if case["cell"]["bad"]:
            return {"err": "spec"}
        idx = mk(**case["idx"], long=True)
        val = mk(**case["val"], dtype=torch.float64)
        x = mk(**case["x"], dtype=torch.float64)
        W = dense_interp_matrix(idx, val, case["output_dim"])
        return tns(torch.matmul(W.transpose(-1, -2), x))

    def term(self, case, obs):
        return "chk (left_t_interp stride_dense %s %s %s %d) %s" % (t_lit(case["idx"]), t_lit(case["val"]), t_lit(case["x"]),
                                                                   case["output_dim"], e_lit(obs))


class KMakeSparse(K):
    name = "make_sparse_from_indices_and_values"
    key_attrs = ("zeros", "bad")

    def cells(self, quick, rng):
        out = []
        for b in BATCHES + [(1,), (3, 1)]:
            for dup in (False, True):
                for zeros in ("none", "some", "all"):
                    for n in sizes_for(quick, rng, always=(1,), extra=2):
                        out.append({"b": list(b), "dup": dup, "zeros": zeros, "n": n, "bad": None})
        return out

    def make(self, cell, rng):
        n = cell["n"]                     # num_rows of the result
        rows = rng.randint(1, 5)
        ninterp = rng.randint(2, 4) if cell["dup"] else rng.randint(1, 4)
        idx, val = rand_interp(rng, cell["b"], rows, ninterp, n, cell["dup"], cell["zeros"])
        if cell["bad"]:
            idx["data"][-1] = n
        return {"idx": idx, "val": val, "num_rows": n}

    def impl(self, case, dtype):
        from linear_operator.utils.sparse import make_sparse_from_indices_and_values
        return make_sparse_from_indices_and_values(mk(**case["idx"], long=True), mk(**case["val"], dtype=dtype), case["num_rows"])

    def oracle(self, case):
        torch = torch_()
        if case["cell"]["bad"]:
            return {"err": "spec"}
        W = dense_interp_matrix(mk(**case["idx"], long=True), mk(**case["val"], dtype=torch.float64), case["num_rows"])
        return tns(W.transpose(-1, -2))

    def term(self, case, obs):
        return "chkS (make_sparse_from_indices_and_values %s %s %d) %s" % (t_lit(case["idx"]), t_lit(case["val"]), case["num_rows"], e_lit(obs))


class KBdsmm(K):
    name = "bdsmm"
    key_attrs = ("branch", "bad", "via")

    def cells(self, quick, rng):
        out = []
        for via in ("bdsmm", "dsmm"):
            for (sb, db) in BATCH_PAIRS:
                branch = "sparse_batched" if sb else ("dense_batched" if db else "plain")
                for fill in ("sparse", "dense", "empty"):
                    for dups in (False, True):
                        if fill == "empty" and dups:
                            continue
                        if quick and via == "dsmm" and (fill != "sparse" or dups):
                            continue
                        for n in sizes_for(quick, rng, always=(1,), extra=1):
                            out.append({"via": via, "sb": list(sb), "db": list(db), "branch": branch, "fill": fill, "dups": dups, "n": n, "bad": None})
        out.append({"via": "bdsmm", "sb": [], "db": [], "branch": "plain", "fill": "sparse", "dups": False, "n": 3, "bad": "inner"})
        out.append({"via": "bdsmm", "sb": [2], "db": [3], "branch": "sparse_batched", "fill": "sparse", "dups": False, "n": 2, "bad": "batch"})
        return out

    def make(self, cell, rng):
        n = cell["n"]
        m, p = rng.randint(1, 4), rng.randint(1, 3)
        sp = rand_sparse(rng, tuple(cell["sb"]) + (m, n), cell["fill"], cell["dups"])
        d = rand_ints(rng, tuple(cell["db"]) + ((n + 1) if cell["bad"] == "inner" else n, p))
        return {"S": sp, "D": d}

    def impl(self, case, dtype):
        from linear_operator.utils.sparse import bdsmm
        from linear_operator import dsmm
        f = bdsmm if case["cell"]["via"] == "bdsmm" else dsmm
        return f(sp_torch(case["S"], dtype), mk(**case["D"], dtype=dtype))

    def oracle(self, case):
        torch = torch_()
        if case["cell"]["bad"]:
            return {"err": "spec"}
        return tns(torch.matmul(sp_dense(case["S"]), mk(**case["D"], dtype=torch.float64)))

    def term(self, case, obs):
        return "chk (bdsmm stride_dense %s %s) %s" % (sp_lit(case["S"]), t_lit(case["D"]), e_lit(obs))


class KDsmmBackward(K):
    name = "dsmm_backward"
    key_attrs = ("branch",)

    def cells(self, quick, rng):
        out = []
        for (sb, db) in BATCH_PAIRS:
            branch = "sparse_batched" if sb else ("dense_batched" if db else "plain")
            ob = bshape(tuple(sb), tuple(db))
            for fill in ("sparse", "dense", "empty"):
                for n in sizes_for(quick, rng, always=(1,), extra=1):
                    out.append({"sb": list(sb), "db": list(db), "branch": branch, "fill": fill, "n": n,
                                "dense_is_broadcast": tuple(db) != tuple(ob)})
        return out

    def make(self, cell, rng):
        n = cell["n"]
        m, p = rng.randint(1, 4), rng.randint(1, 3)
        sp = rand_sparse(rng, tuple(cell["sb"]) + (m, n), cell["fill"], True)
        d = rand_ints(rng, tuple(cell["db"]) + (n, p))
        ob = bshape(tuple(cell["sb"]), tuple(cell["db"]))
        g = rand_ints(rng, tuple(ob) + (m, p))
        return {"S": sp, "D": d, "G": g}

    def impl(self, case, dtype):
        from linear_operator import dsmm
        D = mk(**case["D"], dtype=dtype).requires_grad_(True)
        out = dsmm(sp_torch(case["S"], dtype), D)
        out.backward(mk(**case["G"], dtype=dtype))
        return D.grad

    def oracle(self, case):
        """gradient of <G, S D> w.r.t. D through dense autograd-free algebra: S^T G, summed over broadcast dims of D"""
        torch = torch_()
        S = sp_dense(case["S"])
        G = mk(**case["G"], dtype=torch.float64)
        full = torch.matmul(S.transpose(-1, -2), G)
        Dshape = case["D"]["shape"]
        return tns(full.sum_to_size(*Dshape) if list(full.shape) != list(Dshape) else full)

    def term(self, case, obs):
        if case["cell"]["dense_is_broadcast"]:
            return None      # autograd sums the returned gradient over the broadcast dimensions: direct predicate only
        return "chk (dsmm_backward stride_dense %s %s) %s" % (sp_lit(case["S"]), t_lit(case["G"]), e_lit(obs))


class KSparseEye(K):
    name = "sparse_eye"

    def cells(self, quick, rng):
        return [{"n": n} for n in range(1, 9)]

    def make(self, cell, rng):
        return {}

    def impl(self, case, dtype):
        from linear_operator.utils.sparse import sparse_eye
        return sparse_eye(case["cell"]["n"])

    def oracle(self, case):
        torch = torch_()
        return tns(torch.eye(case["cell"]["n"], dtype=torch.float64))

    def term(self, case, obs):
        return "chkS (Ok (sparse_eye %d)) %s" % (case["cell"]["n"], e_lit(obs))


def idx_lit(ix):
    if ix[0] == "int":
        return "(IInt %s)" % common.zlit(ix[1])
    o = lambda v: "None" if v is None else "(Some %s)" % common.zlit(v)
    return "(ISlice %s %s %s)" % (o(ix[1]), o(ix[2]), o(ix[3]))


def idx_py(ix):
    return ix[1] if ix[0] == "int" else slice(ix[1], ix[2], ix[3])


class KSparseGetitem(K):
    name = "sparse_getitem"
    key_attrs = ("index", "bad")

    def index_kinds(self):
        return ["int", "negint", "full", "slice", "negslice", "open_lo", "open_hi", "overlong", "empty_slice", "reversed_slice", "step1"]

    def cells(self, quick, rng):
        out = []
        kinds = self.index_kinds()
        for nd in (1, 2):
            combos = [(k,) for k in kinds] if nd == 1 else \
                     [(k,) for k in kinds] + [(a, b) for a in kinds for b in kinds
                                              if (not quick) or a in ("int", "slice", "negint", "full") or b in ("int", "slice")]
            for combo in combos:
                for fill in ("sparse", "dense", "empty"):
                    if quick and fill == "empty" and combo[0] not in ("int", "slice"):
                        continue
                    for dups in ((False, True) if fill != "empty" else (False,)):
                        if quick and dups and len(combo) == 2 and combo[0] != combo[1]:
                            continue
                        index = "empty_slice" if any(k in ("empty_slice", "reversed_slice") for k in combo) else \
                                ("negint" if "negint" in combo else "ok")
                        out.append({"nd": nd, "combo": list(combo), "fill": fill, "dups": dups, "index": index, "bad": None})
        out.append({"nd": 2, "combo": ["step2"], "fill": "sparse", "dups": False, "index": "ok", "bad": "step"})
        return out

    def mk_index(self, kind, size, rng):
        if kind == "int":
            return ("int", rng.randrange(size))
        if kind == "negint":
            return ("int", -rng.randint(1, size))
        if kind == "full":
            return ("slice", None, None, None)
        lo = rng.randrange(size)
        hi = rng.randint(lo + 1, size)
        if kind == "slice":
            return ("slice", lo, hi, None)
        if kind == "step1":
            return ("slice", lo, hi, 1)
        if kind == "step2":
            return ("slice", 0, size, 2)
        if kind == "negslice":
            return ("slice", lo - size, (hi - size) if hi < size else None, None)
        if kind == "open_lo":
            return ("slice", None, hi, None)
        if kind == "open_hi":
            return ("slice", lo, None, None)
        if kind == "overlong":
            return ("slice", lo, size + 3, None)
        if kind == "empty_slice":
            return ("slice", lo, lo, None)
        if kind == "reversed_slice":
            return ("slice", min(lo + 1, size), lo, None) if size > 1 else ("slice", 1, 0, None)
        raise ValueError(kind)

    def make(self, cell, rng):
        shape = tuple(rng.randint(1, 8) for _ in range(cell["nd"]))
        if "reversed_slice" in cell["combo"]:
            shape = tuple(max(2, s) for s in shape)
        sp = rand_sparse(rng, shape, cell["fill"], cell["dups"])
        idxs = [self.mk_index(k, shape[i], rng) for i, k in enumerate(cell["combo"])]
        return {"S": sp, "idxs": idxs, "as_tuple": len(idxs) > 1 or rng.random() < 0.5}

    def impl(self, case, dtype):
        from linear_operator.utils.sparse import sparse_getitem
        idxs = [idx_py(tuple(ix)) for ix in case["idxs"]]
        arg = tuple(idxs) if case["as_tuple"] else idxs[0]
        return sparse_getitem(sp_torch(case["S"], dtype), arg)

    def oracle(self, case):
        if case["cell"]["bad"]:
            return {"err": "spec"}
        d = sp_dense(case["S"])
        return tns(d[tuple(idx_py(tuple(ix)) for ix in case["idxs"])])

    variants = {"pinned": "false"}

    def term(self, case, obs, variant=None):
        flag = self.variants[variant] if variant else "true"
        return "chkS (sparse_getitem %s %s [%s]) %s" % (flag, sp_lit(case["S"]), "; ".join(idx_lit(tuple(ix)) for ix in case["idxs"]), e_lit(obs))


class KSparseRepeat(K):
    name = "sparse_repeat"
    key_attrs = ("repeats_dim_gt1", "call")

    def cells(self, quick, rng):
        out = []
        shapes = [(1,), (3,), (1, 1), (1, 3), (2, 1), (2, 3), (1, 2, 3), (1, 1, 2, 2), (2, 2, 2)] if quick else \
                 [(1,), (2,), (5,), (1, 1), (1, 3), (3, 1), (2, 3), (4, 4), (1, 2, 3), (2, 1, 3), (1, 1, 4, 2), (2, 2, 2), (1, 3, 1, 2)]
        for shp in shapes:
            nd = len(shp)
            reps_list = []
            for extra in (0, 1, 2):
                base = [1] * (nd + extra)
                reps_list.append(tuple(base))
                for pos in range(nd + extra):
                    for r in (2, 3):
                        rr = list(base)
                        rr[pos] = r
                        reps_list.append(tuple(rr))
                reps_list.append(tuple([2] * (nd + extra)))
                reps_list.append(tuple([3 if (i % 2 == 0) else 2 for i in range(nd + extra)]))
            if quick:
                reps_list = reps_list[::2] + reps_list[-2:]
            for reps in dict.fromkeys(reps_list):
                padded = (1,) * (len(reps) - nd) + tuple(shp)
                gt1 = any(r > 1 and s > 1 for r, s in zip(reps, padded))
                for fill in ("sparse", "empty"):
                    if fill == "empty" and (quick and len(reps) > nd):
                        continue
                    as_tuple = len(out) % 3 == 0
                    out.append({"shape": list(shp), "reps": list(reps), "fill": fill, "repeats_dim_gt1": gt1, "as_tuple": as_tuple,
                                "call": "single_int_vararg" if (len(reps) == 1 and not as_tuple) else "ok"})
        return out

    def make(self, cell, rng):
        return {"S": rand_sparse(rng, tuple(cell["shape"]), cell["fill"], True)}

    def impl(self, case, dtype):
        from linear_operator.utils.sparse import sparse_repeat
        sp = sp_torch(case["S"], dtype)
        reps = case["cell"]["reps"]
        return sparse_repeat(sp, tuple(reps)) if case["cell"]["as_tuple"] else sparse_repeat(sp, *reps)

    def oracle(self, case):
        return tns(sp_dense(case["S"]).repeat(*case["cell"]["reps"]))

    variants = {"pinned_stride": "true stride_pinned", "pinned_call": "false stride_dense", "pinned_both": "false stride_pinned"}

    def term(self, case, obs, variant=None):
        flags = self.variants[variant] if variant else "true stride_dense"
        args = "(%s %s)" % ("RTuple" if case["cell"]["as_tuple"] else "RVarargs", common.natlist(case["cell"]["reps"]))
        return "chkS (sparse_repeat_call %s %s %s) %s" % (flags, sp_lit(case["S"]), args, e_lit(obs))


class KToSparse(K):
    name = "to_sparse"
    key_attrs = ("zeros",)

    def cells(self, quick, rng):
        out = []
        for shp in [(1,), (4,), (1, 1), (2, 3), (8, 8), (5, 1), (2, 3, 2), (2, 1, 2, 2)]:
            for zeros in ("none", "some", "all"):
                out.append({"shape": list(shp), "zeros": zeros})
        return out

    def make(self, cell, rng):
        zp = {"none": 0.0, "some": 0.6, "all": 1.0}[cell["zeros"]]
        d = rand_ints(rng, tuple(cell["shape"]), 1, 5, zero_p=zp)
        d["data"] = [v if rng.random() < 0.5 else -v for v in d["data"]]     # both signs: `ne(0)` is not `gt(0)`
        return {"D": d}

    def impl(self, case, dtype):
        from linear_operator.utils.sparse import to_sparse
        return to_sparse(mk(**case["D"], dtype=dtype))

    def oracle(self, case):
        torch = torch_()
        return tns(mk(**case["D"], dtype=torch.float64))

    def term(self, case, obs):
        return "chkS (to_sparse %s) %s" % (t_lit(case["D"]), e_lit(obs))


def rand_perm(rng, bshape_, n, k):
    """batch of (partial) permutations: k distinct entries of range(n) per member"""
    data = []
    for _ in range(int(math.prod(bshape_))):
        data += rng.sample(range(n), k)
    return {"shape": list(bshape_) + [k], "data": data}


class KApplyPermutation(K):
    name = "apply_permutation"
    key_attrs = ("which", "input")

    def cells(self, quick, rng):
        out = []
        pairs = [((), ()), ((2,), ()), ((), (2,)), ((2,), (2,)), ((2, 3), (2, 3)), ((2, 3), ()), ((2, 3), (3,)),
                 ((3,), (2, 3)), ((2, 1), (1, 3)), ((1,), (2,))]
        for inp in ("tensor", "dense_operator"):
            for which in ("left", "right", "both", "none"):
                for (mb, pb) in pairs:
                    if which == "none" and pb != ():
                        continue
                    for part in ("full", "partial"):
                        if which == "none" and part == "partial":
                            continue
                        if quick and inp == "dense_operator" and (part == "partial" and which != "both"):
                            continue
                        for n in sizes_for(quick, rng, always=(1,), extra=1):
                            if part == "partial" and n == 1:
                                continue
                            out.append({"input": inp, "which": which, "mb": list(mb), "pb": list(pb), "part": part, "n": n})
        return out

    def make(self, cell, rng):
        n = cell["n"]
        M = rand_ints(rng, tuple(cell["mb"]) + (n, n), -9, 9)
        kl = n if cell["part"] == "full" else rng.randint(1, n - 1)
        kr = n if cell["part"] == "full" else rng.randint(1, n - 1)
        left = rand_perm(rng, cell["pb"], n, kl) if cell["which"] in ("left", "both") else None
        # the right permutation gets a different batch shape in the broadcasting cells when both are given
        rpb = cell["pb"] if cell["which"] != "both" or len(cell["pb"]) < 2 else cell["pb"][1:]
        right = rand_perm(rng, rpb, n, kr) if cell["which"] in ("right", "both") else None
        return {"M": M, "left": left, "right": right}

    def impl(self, case, dtype):
        from linear_operator.utils.permutation import apply_permutation
        M = mk(**case["M"], dtype=dtype)
        if case["cell"]["input"] == "dense_operator":
            from linear_operator.operators import DenseLinearOperator
            M = DenseLinearOperator(M)
        l = mk(**case["left"], long=True) if case["left"] else None
        r = mk(**case["right"], long=True) if case["right"] else None
        return apply_permutation(M, l, r)

    def oracle(self, case):
        """Pi_left K Pi_right^T with explicit one-hot (partial) permutation matrices and batched matmul"""
        torch = torch_()
        K_ = mk(**case["M"], dtype=torch.float64)
        n = case["cell"]["n"]

        def onehot(p):
            P = torch.zeros(*p["shape"], n, dtype=torch.float64)
            Pf = P.reshape(-1, n)
            for r, v in enumerate(p["data"]):
                Pf[r, v] = 1.0
            return Pf.reshape(P.shape)
        res = K_
        if case["left"]:
            res = torch.matmul(onehot(case["left"]), res)
        if case["right"]:
            res = torch.matmul(res, onehot(case["right"]).transpose(-1, -2))
        return tns(res)

    def term(self, case, obs):
        o = lambda p: "None" if p is None else "(Some %s)" % t_lit(p)
        return "chk (apply_permutation %s %s %s) %s" % (t_lit(case["M"]), o(case["left"]), o(case["right"]), e_lit(obs))


class KInversePermutation(K):
    name = "inverse_permutation"

    def cells(self, quick, rng):
        out = []
        for b in BATCHES + [(1,), (3, 1, 2)]:
            for n in sizes_for(quick, rng, extra=2):
                out.append({"b": list(b), "n": n})
        return out

    def make(self, cell, rng):
        return {"perm": rand_perm(rng, cell["b"], cell["n"], cell["n"])}

    def impl(self, case, dtype):
        from linear_operator.utils.permutation import inverse_permutation
        return inverse_permutation(mk(**case["perm"], long=True))

    def oracle(self, case):
        """inv[p[k]] = k, by explicit loops per batch member"""
        n = case["cell"]["n"]
        data = case["perm"]["data"]
        out = [0] * len(data)
        for b in range(0, len(data), n):
            for k in range(n):
                out[b + data[b + k]] = k
        return {"shape": case["perm"]["shape"], "data": out}

    def term(self, case, obs):
        return "chk (inverse_permutation %s) %s" % (t_lit(case["perm"]), e_lit(obs))


class KMatmulBroadcastShape(K):
    name = "_matmul_broadcast_shape"
    key_attrs = ("bad",)

    def cells(self, quick, rng):
        out = []
        batches = [(), (1,), (2,), (3,), (2, 3), (2, 1), (1, 3), (4, 2, 3), (1, 1), (3, 1, 1)]
        for ab in batches:
            for bb in batches + ["vec"]:
                for inner_ok in (True, False):
                    out.append({"ab": list(ab), "bb": bb if bb == "vec" else list(bb), "inner_ok": inner_ok, "bad": None})
        return out

    def make(self, cell, rng):
        m, n, p = rng.randint(1, 8), rng.randint(1, 8), rng.randint(1, 8)
        n2 = n if cell["inner_ok"] else n + 1
        a = list(cell["ab"]) + [m, n]
        b = [n2] if cell["bb"] == "vec" else list(cell["bb"]) + [n2, p]
        return {"a": a, "b": b}

    def impl(self, case, dtype):
        torch = torch_()
        from linear_operator.utils.broadcasting import _matmul_broadcast_shape
        return _matmul_broadcast_shape(torch.Size(case["a"]), torch.Size(case["b"]))

    def oracle(self, case):
        """torch's own rule: the shape torch.matmul produces (or its refusal)"""
        torch = torch_()
        try:
            return {"shape": list(torch.matmul(torch.zeros(*case["a"]), torch.zeros(*case["b"])).shape), "data": []}
        except RuntimeError:
            return {"err": "torch.matmul raises"}

    def term(self, case, obs):
        return "chk_shape (matmul_broadcast_shape %s %s) %s" % (sh_lit(case["a"]), sh_lit(case["b"]), e_lit(obs))


class KPadWithSingletons(K):
    name = "_pad_with_singletons"

    def cells(self, quick, rng):
        out = []
        for shp in [(1,), (3,), (2, 3), (2, 1, 3), ()]:
            for before in (0, 1, 3):
                for after in (0, 2):
                    if shp == () and before == 0 and after == 0:
                        continue      # torch quirk: x.view() without arguments is a TypeError
                    out.append({"shape": list(shp), "before": before, "after": after})
        return out

    def make(self, cell, rng):
        return {"x": rand_ints(rng, tuple(cell["shape"]), -9, 9)}

    def impl(self, case, dtype):
        from linear_operator.utils.broadcasting import _pad_with_singletons
        return _pad_with_singletons(mk(**case["x"], dtype=dtype), case["cell"]["before"], case["cell"]["after"])

    def oracle(self, case):
        c = case["cell"]
        return {"shape": [1] * c["before"] + list(c["shape"]) + [1] * c["after"], "data": list(case["x"]["data"])}

    def term(self, case, obs):
        c = case["cell"]
        return "chk (Ok (pad_with_singletons %s %d %d)) %s" % (t_lit(case["x"]), c["before"], c["after"], e_lit(obs))


KERNELS = [KToeplitz(), KToeplitzGetitem(), KToeplitzMatmul(), KToeplitzDQF(), KLeftInterp(), KLeftTInterp(), KMakeSparse(),
           KBdsmm(), KDsmmBackward(), KSparseEye(), KSparseGetitem(), KSparseRepeat(), KToSparse(), KApplyPermutation(),
           KInversePermutation(), KMatmulBroadcastShape(), KPadWithSingletons()]


# ------------------------------------------------------------------------------------------------

def regenerate():
    os.makedirs(os.path.join(common.COQ, PROP, "gen"), exist_ok=True)
    return None


def build_cases(ctx, kernels=None):
    """deterministic grid; the seed picks values (and, at quick, the sizes inside each structural cell)"""
    cases = []
    for kn in (kernels or KERNELS):
        rng = random.Random("%s/%s" % (ctx.seed, kn.name))
        for cell in kn.cells(ctx.quick, rng):
            case = kn.make(cell, rng)
            case["kernel"] = kn.name
            case["cell"] = cell
            cases.append((kn, case))
    return cases


def run_impl(kn, case):
    """-> list of (dtype name, obs)"""
    torch = torch_()
    res = []
    for dn, dt in (("float64", torch.float64), ("float32", torch.float32)):
        res.append((dn, observe(lambda: kn.impl(case, dt))))
    return res


SHARD = 120


def shard_src(terms):
    body = ";\n ".join(terms)
    return ("From Coq Require Import List ZArith Bool.\nImport ListNotations.\n"
            "Require Import C20.Model C20.Check.\nOpen Scope nat_scope.\n"
            "Definition cases : list bool := [\n %s].\n"
            "Eval vm_compute in (bad_cases cases 0).\n" % body)


def strip(obs):
    return {k: v for k, v in obs.items() if k != "msg"}


def fail_kind(obs, exp):
    """structural kind of a disagreement between the implementation and the dense definition"""
    if "err" in obs and "err" not in exp:
        return "raises"
    if "err" in exp and "err" not in obs:
        return "does_not_raise"
    if "nonint" in obs:
        return "non_integer_values"
    if obs.get("shape") != exp.get("shape"):
        return "shape"
    return "values"


def full_key(kn, case, obs, exp):
    k = kn.key(case)
    k["fail"] = fail_kind(obs, exp)
    return k


def kterm(kn, case, obs, variant=None):
    if variant is None:
        return kn.term(case, obs)
    return kn.term(case, obs, variant)


def correspondence(ctx, cases, report=True):
    """runs implementation + dense oracle + Coq model on every case.

    Per (case, dtype): `direct` = the property predicate (observed == dense definition), `spec` = the Coq model of the
    specified behaviour reproduces the observation.  Where the predicate fails and the kernel has transcriptions of
    pinned-tree defects (K.variants), those are evaluated too: the failure key carries `matches_transcribed_defect`,
    so a known finding only ever absorbs failures that are EXACTLY the transcribed defect."""
    terms, meta = [], []            # meta[i] = (owner index, variant or None)
    owners = []                     # (ci, dn, obs, exp)
    owner_of = {}                   # (ci, dn) -> owner index (float32 is folded into float64 when identical)
    direct_fail = []
    evals = 0
    per_kernel = {}
    nonint = 0
    for ci, (kn, case) in enumerate(cases):
        exp = kn.oracle(case)
        seen = []
        for dn, obs in run_impl(kn, case):
            evals += 1
            per_kernel[kn.name] = per_kernel.get(kn.name, 0) + 1
            if "nonint" in obs:
                nonint += 1
                direct_fail.append((ci, dn, obs, exp))
                continue
            ok = same_obs(obs, exp)
            if not ok:
                direct_fail.append((ci, dn, obs, exp))
            dup = [oi for (o, oi) in seen if same_obs(obs, o) and ("err" in obs) == ("err" in o)]
            if dup:
                owner_of[(ci, dn)] = dup[0]
                continue
            tm = kterm(kn, case, obs)
            if tm is None:
                continue
            oi = len(owners)
            owners.append((ci, dn, obs, exp))
            owner_of[(ci, dn)] = oi
            seen.append((obs, oi))
            terms.append(tm)
            meta.append((oi, None))
            if not ok:
                for v in getattr(kn, "variants", {}):
                    terms.append(kterm(kn, case, obs, v))
                    meta.append((oi, v))
    shards = [("c20_%d" % (i // SHARD), shard_src(terms[i:i + SHARD])) for i in range(0, len(terms), SHARD)]
    res = common.run_shards(ctx, shards)
    bad_terms = set()
    shard_fail = []
    for si, (name, _) in enumerate(shards):
        rc, out = res[name]
        bad = common.parse_coq_list_of_nat(out) if rc == 0 else None
        if bad is None:
            shard_fail.append((name, out[-700:]))
            bad_terms |= set(range(si * SHARD, min(len(terms), (si + 1) * SHARD)))
            continue
        bad_terms |= {si * SHARD + b for b in bad}
    spec_ok = {}
    variant_ok = {}
    term_of = {}
    for ti, (oi, v) in enumerate(meta):
        if v is None:
            spec_ok[oi] = ti not in bad_terms
            term_of[oi] = ti
        elif ti not in bad_terms:
            variant_ok.setdefault(oi, []).append(v)
    mism = [oi for oi, okk in spec_ok.items() if not okk]
    n_model_wrong = 0
    transcribed = 0
    transcribed_keys = set()
    if report:
        for name, out in shard_fail:
            ctx.violation({"kind": "shard-failed", "shard": name, "out": out}, no_input=True)
        if not shard_fail:
            for oi in mism:
                ci, dn, obs, exp = owners[oi]
                kn, case = cases[ci]
                if same_obs(obs, exp):
                    n_model_wrong += 1
                    ctx.violation({"kind": "model-implementation-disagreement", "case": case, "dtype": dn, "observed": strip(obs),
                                   "note": "the implementation satisfies the dense definition but coq/C20/Model.v computes something else",
                                   "coq_term": terms[term_of[oi]][:2000]}, no_input=True)
        for (ci, dn, obs, exp) in direct_fail:
            kn, case = cases[ci]
            oi = owner_of.get((ci, dn))
            key = full_key(kn, case, obs, exp)
            vs = variant_ok.get(oi, []) if oi is not None else []
            if vs:
                transcribed_keys.add(json.dumps(dict(key, matches_transcribed_defect=True), sort_keys=True))
            key["matches_transcribed_defect"] = bool(vs)
            transcribed += 1 if vs else 0
            ctx.violation({"kind": "kernel-differs-from-dense-definition", "case": case, "dtype": dn,
                           "observed": strip(obs), "expected_dense_definition": exp,
                           "spec_model_agrees_with_implementation": spec_ok.get(oi) if oi is not None else None,
                           "pinned_transcriptions_reproducing_the_observation": vs}, key=key)
    return {"evaluations": evals, "terms": len(terms), "mismatches": len(mism), "direct_failures": len(direct_fail),
            "direct_failures_equal_to_a_transcribed_defect": transcribed,
            "model_wrong": n_model_wrong, "per_kernel": per_kernel, "shard_failures": len(shard_fail), "nonint": nonint,
            "owners": owners, "direct": direct_fail, "transcribed_keys": transcribed_keys}


def search_on_failure_factory(ctx):
    def search(info):
        """a proof obligation broke: run the thorough grid directly against the dense definitions"""
        found = False
        saved = ctx.tier
        ctx.tier = "thorough"
        try:
            cases = build_cases(ctx)
        finally:
            ctx.tier = saved
        for kn, case in cases:
            exp = kn.oracle(case)
            for dn, obs in run_impl(kn, case):
                if not same_obs(obs, exp):
                    key = full_key(kn, case, obs, exp)
                    key["matches_transcribed_defect"] = True      # the model cannot be evaluated (broken build): let the listed
                    # known findings absorb their cells, anything else is reported as the failing input
                    if ctx.violation({"kind": "kernel-differs-from-dense-definition", "case": case, "dtype": dn,
                                      "observed": strip(obs), "expected_dense_definition": exp,
                                      "broken_obligation": info}, key=key):
                        found = True
                    break
        return found
    return search


def run(ctx):
    regenerate()
    ok = common.proof_stage(ctx, search_on_failure_factory(ctx))
    cases = build_cases(ctx)
    st = correspondence(ctx, cases)
    qr = c20_qr.correspondence(ctx)
    scan = c20_large.source_scan()
    lg = c20_large.run(ctx, scan, st["transcribed_keys"])
    distinct = len({json.dumps({k: v for k, v in c.items()}, sort_keys=True) for _, c in cases
                    if c["cell"].get("n", c["cell"].get("m", 2)) >= 2})
    ctx.coverage.update({
        "trusted_base": common.COQ_TRUSTED + [
            "torch primitives modelled by their mathematical meaning as index maps in coq/C20/Model.v (expand, view/reshape, flip, "
            "slicing and slice assignment, unsqueeze/squeeze, mT, index_select, gather, scatter_, advanced indexing, elementwise ops, sum, "
            "sparse COO tensors as entry lists with duplicates summing, torch.dsmm as the sum over entries)",
            "the FFT pair ifft(fft(x)*fft(y)).real is replaced by its mathematical definition, the circular convolution (convolution theorem not proved)",
            "torch.linalg.qr (an oracle: its output on the same input is handed to the stable_qr model as a literal; only the contract A = QR, Q^T Q = I, R upper triangular is used in the theorems) and torch.linalg.solve_triangular (modelled by back substitution reading the upper triangle; proved equal to triu(R)^-1 B over a field; compared with a norm-wise tolerance)",
            "PrimFloat / SpecFloat (binary32) evaluation of ModelQR by vm_compute stands for torch float64 / float32 CPU arithmetic (same IEEE operations; stable_qr compared bit-exactly, stable_pinverse with tolerance eps*cond)",
            "correspondence harness harness/c20.py, harness/c20_qr.py and the comparators coq/C20/Check.v, coq/C20/CheckQR.v",
            "dense oracle: plain torch float64 on dense tensors assembled by the harness"],
        "evaluations": st["evaluations"] + qr["evaluations"] + lg["evaluations"], "coq_terms": st["terms"] + qr["terms"],
        "large_size_family": {k: v for k, v in lg.items() if k != "sample"},
        "source_scan": c20_large.evidence_scan(scan),
        "mismatches_with_spec_model": st["mismatches"],
        "direct_property_failures": st["direct_failures"],
        "direct_property_failures_equal_to_a_transcribed_known_defect": st["direct_failures_equal_to_a_transcribed_defect"],
        "per_kernel": st["per_kernel"],
        "qr_pinverse": {k: v for k, v in qr.items() if k != "sample"},
        "distinct_nontrivial": distinct + qr["distinct_nontrivial"] + lg["distinct_cells"],
        "rule": "distinct (kernel, structural cell, integer inputs) with matrix size >= 2 (index kernels; every case is run in float64 and "
                "float32 and compared exactly with the Coq model and with the dense definition) plus distinct (function, shape, batch, "
                "family, dtype) cells of the QR / pseudo-inverse grid that are near-singular or at least 2 x 2, plus distinct structural "
                "cells of the large-size family (sizes 31..1025, direct predicate only)",
        "samples": [cases[len(cases) // 3][1], cases[-1][1], qr["sample"], lg["sample"]],
    })
    ctx.assumptions = ["inputs are integer-valued tensors small enough for exact float32/float64 arithmetic",
                       "index tensors are contiguous LongTensors with the same shape as the value tensors"]


def replay(rp):
    if rp.get("case", {}).get("kernel") in ("stable_qr", "stable_pinverse"):
        return c20_qr.replay(rp)
    kn = {k.name: k for k in KERNELS}.get(rp.get("case", {}).get("kernel"))
    if kn is None:
        print("replay: no kernel in", list(rp)[:8])
        return 2
    case = rp["case"]
    exp = kn.oracle(case)
    bad = 0
    for dn, obs in run_impl(kn, case):
        ok = same_obs(obs, exp)
        print(dn, "observed:", strip(obs))
        bad += 0 if ok else 1
    print("dense definition:", exp)
    print("property holds on this case" if not bad else "property FAILS on this case")
    return 1 if bad else 0
