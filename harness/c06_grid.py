"""C06 — the structural grid of factorisation queries (seed-independent) and the value generators (seeded).

cell      : a named operator shape (class, nesting, diagonal kind, factor sizes); see CELLS
query     : (op, method, upper)
config    : (max_cholesky_size relative to n, max_root_decomposition_size relative to n, fast flag, cache injection)
batch     : () (2,) (1,) (2,3)

The grid is the deterministic list `enumerate_grid(quick)`; `instantiate(rng, item)` draws the numbers.
"""
import math

import torch

from . import opbuild

F64 = torch.float64


def T(x):
    x = torch.as_tensor(x, dtype=F64)
    return {"shape": list(x.shape), "data": [float(v) for v in x.reshape(-1).tolist()]}


def gauss(rng, *shape):
    n = int(math.prod(shape)) if shape else 1
    return torch.tensor([rng.gauss(0.0, 1.0) for _ in range(n)], dtype=F64).reshape(tuple(shape))


def unif(rng, lo, hi, *shape):
    n = int(math.prod(shape)) if shape else 1
    return torch.tensor([rng.uniform(lo, hi) for _ in range(n)], dtype=F64).reshape(tuple(shape))


def spd(rng, batch, n, lo=0.5, hi=3.0):
    """well-conditioned SPD with distinct eigenvalues: Q diag(lam) Q^T, lam spread in [lo, hi]"""
    B = gauss(rng, *batch, n, n)
    Q, _ = torch.linalg.qr(B)
    nb = int(math.prod(batch)) if batch else 1
    lam = torch.stack([torch.tensor(sorted(rng.uniform(lo, hi) + 0.37 * i for i in range(n)), dtype=F64) for _ in range(nb)])
    lam = lam.reshape(*batch, n)
    A = Q @ torch.diag_embed(lam) @ Q.mT
    return (A + A.mT) / 2


def lower(rng, batch, n):
    Lm = torch.tril(gauss(rng, *batch, n, n) * 0.5)
    d = unif(rng, 0.8, 2.0, *batch, n)
    return Lm - torch.diag_embed(torch.diagonal(Lm, dim1=-2, dim2=-1)) + torch.diag_embed(d)


# ------------------------------------------------------------------------------------------------ cells
def dense(rng, b, n):
    return {"cls": "Dense", "t": T(spd(rng, b, n))}


def diag(rng, b, n):
    return {"cls": "Diag", "d": T(unif(rng, 0.5, 3.0, *b, n))}


def cdiag(rng, b, n, lo=0.5, hi=3.0):
    return {"cls": "ConstantDiag", "c": T(unif(rng, lo, hi, *b, 1)), "n": n}


def kron(rng, b, sizes, leaf=dense):
    return {"cls": "Kron", "ops": [leaf(rng, b, m) for m in sizes]}


def cell_expr(rng, cell, b):
    """the opbuild expression of a named cell with operator batch shape b"""
    b = list(b)
    c = cell
    if c.startswith("Dense"):
        return dense(rng, b, int(c[5:]))
    if c.startswith("Diag"):
        return diag(rng, b, int(c[4:]))
    if c.startswith("ConstDiag"):
        return cdiag(rng, b, int(c[9:]))
    if c.startswith("Identity"):
        return {"cls": "Identity", "n": int(c[8:]), "batch": b}
    if c.startswith("CholL"):
        return {"cls": "Chol", "t": T(lower(rng, b, int(c[5:]))), "upper": False}
    if c.startswith("CholU"):
        return {"cls": "Chol", "t": T(lower(rng, b, int(c[5:])).mT), "upper": True}
    if c.startswith("RootFull"):
        return {"cls": "Root", "root": T(lower(rng, b, int(c[8:])))}
    if c == "RootLow":                      # 4 x 2 root: singular PSD
        return {"cls": "Root", "root": T(gauss(rng, *b, 4, 2))}
    if c.startswith("Tri"):
        up = c[3] == "U"
        Lm = lower(rng, b, int(c[4:]))
        return {"cls": "Triangular", "t": T(Lm.mT if up else Lm), "upper": up}
    if c == "SingDense4":                   # dense-backed singular PSD operator (rank 2 of 4): base-class eigen routes
        X = gauss(rng, *b, 4, 2)
        return {"cls": "Dense", "t": T(X @ X.mT)}
    if c == "Toeplitz4":
        col = torch.tensor([4.0, 1.0, 0.5, 0.25], dtype=F64) + unif(rng, 0.0, 0.2, *b, 4)
        return {"cls": "Toeplitz", "col": T(col)}
    if c == "Sum4":
        return {"cls": "Sum", "ops": [dense(rng, b, 4), dense(rng, b, 4)]}
    if c == "Kron23":
        return kron(rng, b, [2, 3])
    if c == "Kron222":
        return kron(rng, b, [2, 2, 2])
    if c == "Kron13":
        return kron(rng, b, [1, 3])
    if c == "Kron2d3":                      # a diagonal factor
        return {"cls": "Kron", "ops": [dense(rng, b, 2), diag(rng, b, 3)]}
    if c == "KronNest":                     # Kron(Kron(2,2), 2)
        return {"cls": "Kron", "ops": [kron(rng, b, [2, 2]), dense(rng, b, 2)]}
    if c == "KronBlk":                      # Kron(BlockDiag(2 blocks of 2), Dense 2)
        return {"cls": "Kron", "ops": [{"cls": "BlockDiag", "base": dense(rng, b + [2], 2)}, dense(rng, b, 2)]}
    if c == "KronDiag23":
        return {"cls": "KronDiag", "ops": [diag(rng, b, 2), diag(rng, b, 3)]}
    if c == "KPADconst":
        return {"cls": "KronAddedDiag", "kron": kron(rng, b, [2, 3]), "diag": cdiag(rng, b, 6)}
    if c == "KPADconst222":
        return {"cls": "KronAddedDiag", "kron": kron(rng, b, [2, 2, 2]), "diag": cdiag(rng, b, 8)}
    if c == "KPADkconst":                   # Kronecker-structured diagonal with constant, non-unit factors
        return {"cls": "KronAddedDiag", "kron": kron(rng, b, [2, 3]),
                "diag": {"cls": "KronDiag", "ops": [cdiag(rng, b, 2, 1.3, 2.5), cdiag(rng, b, 3, 1.3, 2.5)]}}
    if c == "KPADkunit":                    # ... with unit factors (the pinned inverse root is right only here)
        one = torch.ones(*b, 1, dtype=F64)
        return {"cls": "KronAddedDiag", "kron": kron(rng, b, [2, 3]),
                "diag": {"cls": "KronDiag", "ops": [{"cls": "ConstantDiag", "c": T(one), "n": 2},
                                                   {"cls": "ConstantDiag", "c": T(one), "n": 3}]}}
    if c == "KPADkdiag":
        return {"cls": "KronAddedDiag", "kron": kron(rng, b, [2, 3]),
                "diag": {"cls": "KronDiag", "ops": [diag(rng, b, 2), diag(rng, b, 3)]}}
    if c == "KPADdiag":
        return {"cls": "KronAddedDiag", "kron": kron(rng, b, [2, 3]), "diag": diag(rng, b, 6)}
    if c == "SumKron23":
        return {"cls": "SumKron", "a": kron(rng, b, [2, 3]), "b": kron(rng, b, [2, 3])}
    if c == "AddedDiagC":
        return {"cls": "AddedDiag", "base": dense(rng, b, 4), "diag": cdiag(rng, b, 4)}
    if c == "AddedDiagD":
        return {"cls": "AddedDiag", "base": dense(rng, b, 4), "diag": diag(rng, b, 4)}
    if c == "AddedDiagKronC":               # plain AddedDiag over a Kronecker product (not the Kron-specific subclass)
        return {"cls": "AddedDiag", "base": kron(rng, b, [2, 3]), "diag": cdiag(rng, b, 6)}
    if c == "AddedDiagLowC":                # singular PSD base + constant diagonal (low-rank kernel + noise)
        return {"cls": "AddedDiag", "base": {"cls": "Root", "root": T(gauss(rng, *b, 4, 2))}, "diag": cdiag(rng, b, 4)}
    if c == "ConstMulDense":
        return {"cls": "ConstantMul", "base": dense(rng, b, 4), "c": T(unif(rng, 0.5, 2.5, *b))}
    if c == "ConstMulKron":
        return {"cls": "ConstantMul", "base": kron(rng, b, [2, 3]), "c": T(unif(rng, 0.5, 2.5, *b))}
    if c == "ConstMulNegNeg":               # PSD assembled from non-PSD parts: negative constant x negative-definite base
        return {"cls": "ConstantMul", "base": {"cls": "Dense", "t": T(-spd(rng, b, 4))}, "c": T(-unif(rng, 0.5, 2.5, *b))}
    if c == "SumNegDom4":                   # p.d. summand dominating a negative-definite one
        return {"cls": "Sum", "ops": [{"cls": "Dense", "t": T(3.0 * spd(rng, b, 4))}, {"cls": "Dense", "t": T(-0.1 * spd(rng, b, 4))}]}
    if c == "MatmulAAt3":                   # Matmul(A, A^T) with a non-symmetric invertible A
        Lm = lower(rng, b, 3) + 0.3 * torch.triu(gauss(rng, *b, 3, 3), 1)
        return {"cls": "Matmul", "l": {"cls": "Dense", "t": T(Lm)}, "r": {"cls": "Dense", "t": T(Lm.mT)}}
    if c == "ConstMulScalar":               # an unbatched constant on a (possibly batched) operator
        return {"cls": "ConstantMul", "base": dense(rng, b, 3), "c": T(unif(rng, 0.5, 2.5))}
    if c == "BlockDiag3x2":
        return {"cls": "BlockDiag", "base": dense(rng, b + [3], 2)}
    if c == "BlockDiag1x3":
        return {"cls": "BlockDiag", "base": dense(rng, b + [1], 3)}
    if c == "BlockDiagKron":
        return {"cls": "BlockDiag", "base": kron(rng, b + [2], [2, 2])}
    if c == "BlockDiagDiag":
        return {"cls": "BlockDiag", "base": diag(rng, b + [2], 3)}
    if c == "BlockInter3x2":
        return {"cls": "BlockInterleaved", "base": dense(rng, b + [3], 2)}
    if c == "BlockInter2x3":
        return {"cls": "BlockInterleaved", "base": dense(rng, b + [2], 3)}
    if c == "RepeatDense":
        if b:
            return {"cls": "BatchRepeat", "base": dense(rng, [1] * (len(b) - 1) + [1], 4), "rep": list(b)}
        return {"cls": "BatchRepeat", "base": dense(rng, [], 4), "rep": [2]}
    if c == "RepeatKron":
        if b:
            return {"cls": "BatchRepeat", "base": kron(rng, [1] * len(b), [2, 3]), "rep": list(b)}
        return {"cls": "BatchRepeat", "base": kron(rng, [], [2, 3]), "rep": [2]}
    if c == "CorpusAbsThr":
        # fixed matrix, eigenvalues 1e-2 * [1, 1.0008, 2, 3]: with the start vector of torch.manual_seed(38) Lanczos stops after 3
        # iterations (|beta| < 1e-6 ABSOLUTE) while the same matrix times 1e4 runs all 4 (finding ...-breakdown-threshold-2)
        return {"cls": "Dense", "t": T(torch.tensor(CORPUS_ABS_THR, dtype=F64))}
    if c == "MixScale3":
        # a batch whose middle member has scale 1e-4 (e.g. a kernel with a tiny outputscale) between members of scale 1
        return {"cls": "Dense", "t": T(torch.stack([spd(rng, [], 4), 1e-4 * spd(rng, [], 4), spd(rng, [], 4)]))}
    if c == "MixIdentExact3":
        # as MixIdent3 but the middle member is EXACTLY c*I: its first Lanczos residual is exactly 0 (known finding)
        mem = torch.stack([spd(rng, [], 4), rng.uniform(1.5, 3.0) * torch.eye(4, dtype=F64), spd(rng, [], 4)])
        return {"cls": "Dense", "t": T(mem)}
    if c in ("MixIdent3", "BlockMixIdent"):
        # a batch (resp. the blocks of a BlockDiag operator) in which ONE member is numerically a multiple of the identity
        # (off-diagonals 1e-10: its first Lanczos residual is below the 1e-6 breakdown threshold) next to generic members
        # with distinct eigenvalues: Lanczos runs the members in lock-step and must not stop while any member goes on
        E = gauss(rng, 4, 4)
        near = rng.uniform(1.5, 3.0) * torch.eye(4, dtype=F64) + 1e-10 * (E + E.mT) / 2
        mem = torch.stack([spd(rng, [], 4), near, spd(rng, [], 4)])
        d = {"cls": "Dense", "t": T(mem)}
        return d if c == "MixIdent3" else {"cls": "BlockDiag", "base": d}
    if c in ("IllCondDense4", "IllCondKron23"):
        # positive definite, condition number ~1e8, every eigenvalue far above the absolute clamp 1e-7 of root_inv_decomposition
        def ill(bb, lams):
            Q, _ = torch.linalg.qr(gauss(rng, *bb, len(lams), len(lams)))
            nb = int(math.prod(bb)) if bb else 1
            lam = torch.tensor([[l * rng.uniform(0.8, 1.25) for l in lams] for _ in range(nb)], dtype=F64).reshape(*bb, len(lams))
            A = Q @ torch.diag_embed(lam) @ Q.mT
            return {"cls": "Dense", "t": T((A + A.mT) / 2)}
        if c == "IllCondDense4":
            return ill(b, [1e-3, 0.1, 10.0, 1e5])
        return {"cls": "Kron", "ops": [ill(b, [1e-2, 1e2]), ill(b, [1e-2, 1.0, 1e2])]}
    if c in ("MixDense3", "MixDense2"):
        # a batch MIXING well-conditioned p.d. members with an exactly singular PSD member (integer rank-one matrix: the
        # second pivot is exactly 0 for LAPACK and for the model kernel alike): member-wise jitter of psd_safe_cholesky
        v = [float(rng.choice([1, 2, -1, -2, 3])) for _ in range(4)]
        S = torch.tensor(v, dtype=F64).unsqueeze(-1) @ torch.tensor(v, dtype=F64).unsqueeze(-2)
        mem = [spd(rng, [], 4), S, spd(rng, [], 4)] if c == "MixDense3" else [S, spd(rng, [], 4)]
        return {"cls": "Dense", "t": T(torch.stack(mem))}
    if c == "RepeatBatch":                  # base already batched (2,), repeated to (2*?,)
        return {"cls": "BatchRepeat", "base": dense(rng, [2], 3), "rep": [2]}
    raise ValueError(cell)


# PSD, positive definite, distinct eigenvalues generically
PD_CELLS = ["Dense1", "Dense2", "Dense3", "Dense5", "Toeplitz4", "Sum4",
            "Diag1", "Diag4", "ConstDiag3", "Identity3", "CholL4", "RootFull4",
            "Kron23", "Kron222", "Kron13", "Kron2d3", "KronNest", "KronBlk", "KronDiag23",
            "KPADconst", "KPADconst222", "KPADkconst", "KPADkunit", "KPADkdiag", "KPADdiag", "SumKron23",
            "AddedDiagC", "AddedDiagD", "AddedDiagKronC", "ConstMulDense", "ConstMulKron", "ConstMulScalar",
            "BlockDiag3x2", "BlockDiag1x3", "BlockDiagKron", "BlockDiagDiag", "BlockInter3x2", "BlockInter2x3",
            "RepeatDense", "RepeatKron", "RepeatBatch", "ConstMulNegNeg", "SumNegDom4", "MatmulAAt3"]
# explicit-method queries under LOWERED thresholds (max_cholesky_size below n, rank bound 2 < n)
LOW_CELLS = ["Dense3", "Dense5", "Toeplitz4", "Sum4", "AddedDiagC", "AddedDiagD", "ConstMulDense", "BlockDiag3x2", "RepeatDense",
             "Kron23", "KPADconst", "SumKron23", "ConstMulNegNeg", "SumNegDom4", "MatmulAAt3"]
LOW_Q = [("root", "cholesky", False), ("root", "symeig", False), ("root", "diagonalization", False), ("root", "svd", False),
         ("root_inv", "cholesky", False), ("root_inv", "symeig", False), ("root_inv", "diagonalization", False),
         ("root_inv", "svd", False), ("root_inv", "pinverse", False), ("diag", "symeig", False), ("eigh", None, False),
         ("svd", None, False), ("cholesky", None, False)]
SINGULAR_CELLS = ["RootLow", "AddedDiagLowC", "SingDense4"]   # singular PSD; AddedDiagLowC is p.d. over a singular base
CHOLU_CELLS = ["CholU4"]
TRI_CELLS = ["TriL3", "TriU3"]
# cells whose own batch shape is fixed by construction
FIXED_BATCH = {"RepeatBatch": [()], "ConstMulScalar": [(), (2,)]}
# batches mixing p.d. and singular members: cell -> (batch shape, indices of the singular members)
MIX_CELLS = {"MixDense3": ((3,), [1]), "MixDense2": ((2,), [0])}
CORPUS_ABS_THR = [[0.014665232720432986, -0.005769414075917828, -0.004725208737591208, 0.000525114148659261],
                  [-0.005769414075917828, 0.026507176622471144, 0.0006574810407077925, -0.0038559051785082886],
                  [-0.004725208737591208, 0.0006574810407077925, 0.0176787632086139, 0.0012384665529370298],
                  [0.000525114148659261, -0.0038559051785082886, 0.0012384665529370298, 0.011156827448481994]]
# cells whose batch is part of the cell (cell_expr ignores the batch argument)
CORPUS_IDENT_TORCH_SEED = 6
BUILTIN_BATCH = {"MixDense3": (3,), "MixDense2": (2,), "MixIdent3": (3,), "BlockMixIdent": (), "MixIdentExact3": (3,),
                 "MixScale3": (3,)}
# SCALE family: one cell per operator class, the whole operator multiplied by s (scale_expr), Lanczos and direct routes
SCALE_CELLS = ["Dense3", "Dense5", "Toeplitz4", "Diag4", "Kron23", "KPADconst", "KPADkdiag", "SumKron23", "AddedDiagC",
               "ConstMulDense", "BlockDiag3x2", "BlockInter2x3", "RepeatDense", "CholL4", "RootFull4"]
SCALES = [1e-4, 1e-2, 1e2, 1e4]
SCALE_Q = [("root", "lanczos", False), ("root_inv", "lanczos", False), ("diag", "lanczos", False), ("root", None, False),
           ("root_inv", None, False), ("root", "symeig", False), ("root_inv", "symeig", False), ("cholesky", None, False),
           ("eigh", None, False), ("svd", None, False)]


def _sc(t, s):
    return {"shape": list(t["shape"]), "data": [float(v) * s for v in t["data"]]}


def scale_expr(e, s):
    """the opbuild expression of s * (operator of e), scaling the parameters of e (s > 0)"""
    c = e["cls"]
    r = math.sqrt(s)
    if c == "Dense":
        return dict(e, t=_sc(e["t"], s))
    if c == "Diag":
        return dict(e, d=_sc(e["d"], s))
    if c == "ConstantDiag":
        return dict(e, c=_sc(e["c"], s))
    if c == "Toeplitz":
        return dict(e, col=_sc(e["col"], s))
    if c in ("Chol", "Triangular"):
        return dict(e, t=_sc(e["t"], r))
    if c == "Root" and not (isinstance(e["root"], dict) and "cls" in e["root"]):
        return dict(e, root=_sc(e["root"], r))
    if c in ("Kron", "KronDiag"):
        return dict(e, ops=[scale_expr(e["ops"][0], s)] + list(e["ops"][1:]))
    if c == "KronAddedDiag":
        return dict(e, kron=scale_expr(e["kron"], s), diag=scale_expr(e["diag"], s))
    if c == "SumKron":
        return dict(e, a=scale_expr(e["a"], s), b=scale_expr(e["b"], s))
    if c == "AddedDiag":
        return dict(e, base=scale_expr(e["base"], s), diag=scale_expr(e["diag"], s))
    if c in ("ConstantMul", "BlockDiag", "BlockInterleaved", "BatchRepeat"):
        return dict(e, base=scale_expr(e["base"], s))
    if c in ("Sum", "PsdSum"):
        return dict(e, ops=[scale_expr(x, s) for x in e["ops"]])
    raise ValueError("scale_expr: " + c)
# ill-conditioned p.d. operators: direct (non-Krylov) routes only
ILL_CELLS = ["IllCondDense4", "IllCondKron23"]
# operators queried through histories that SHARE them with composites built by add_jitter (shared memoize caches)
HIST_CELLS = ["Dense3", "Dense5", "Toeplitz4", "Sum4", "Kron23", "Kron222", "BlockDiag3x2", "ConstMulDense", "AddedDiagC",
              "KPADconst"]
HIST_BATCHED = ("Dense3", "Kron23", "AddedDiagC")
HIST_Q = [("svd", None, False), ("eigh", None, False), ("root", None, False), ("root", "symeig", False),
          ("root_inv", None, False), ("cholesky", None, False), ("diag", None, False)]
# operators extended by cat_rows (which fills the root / inverse-root caches of the concatenated operator)
CAT_CELLS = ["Dense5", "Dense3", "Kron23", "BlockDiag3x2", "Diag4", "ConstMulDense", "Toeplitz4"]
CAT_BATCHED = ("Dense3", "Kron23")

ROOT_METHODS = [None, "cholesky", "symeig", "diagonalization", "svd", "lanczos", "pivoted_cholesky", "bogus"]
ROOTINV_METHODS = [None, "cholesky", "symeig", "diagonalization", "svd", "lanczos", "pinverse", "bogus"]


def queries_full():
    q = [("cholesky", None, False), ("cholesky", None, True), ("t_cholesky", None, False), ("t_cholesky", None, True)]
    q += [("root", m, False) for m in ROOT_METHODS]
    q += [("root_inv", m, False) for m in ROOTINV_METHODS]
    q += [("eigh", None, False), ("eigvalsh", None, False), ("t_eigh", None, False), ("t_eigvalsh", None, False),
          ("svd", None, False), ("t_svd", None, False),
          ("diag", None, False), ("diag", "symeig", False), ("diag", "lanczos", False), ("diag", "bogus", False)]
    return q


def queries_default():
    """the queries whose route depends on the settings / cache"""
    return [("root", None, False), ("root_inv", None, False), ("diag", None, False), ("cholesky", None, False),
            ("root_inv", "pinverse", False), ("svd", None, False), ("eigh", None, False)]


def cell_size(cell):
    e = cell_expr(__import__("random").Random(0), cell, [])
    return opbuild.dense(e, F64).shape[-1]


def enumerate_grid(quick=True):
    """deterministic list of grid items {cell, batch, op, method, upper, mcs, mrs, fast, inject, pre}"""
    items = []

    def add(cell, batch, q, mcs=800, mrs=100, fast=True, inject=(), pre=(), **extra):
        it = {"cell": cell, "batch": list(batch), "op": q[0], "method": q[1], "upper": q[2],
              "mcs": mcs, "mrs": mrs, "fast": fast, "inject": list(inject), "pre": list(pre)}
        it.update(extra)
        items.append(it)

    batches_more = [(1,), (2, 3)]
    sizes = {c: cell_size(c) for c in PD_CELLS + SINGULAR_CELLS + CHOLU_CELLS + TRI_CELLS}
    route_ops = ("root", "root_inv", "diag", "cholesky", "svd", "eigh")
    q_batch = [("cholesky", None, False), ("cholesky", None, True), ("root", None, False), ("root", "symeig", False),
               ("root", "lanczos", False), ("root_inv", None, False), ("root_inv", "cholesky", False),
               ("root_inv", "lanczos", False), ("eigh", None, False), ("t_eigvalsh", None, False),
               ("svd", None, False), ("diag", "lanczos", False)]
    q_more = [("cholesky", None, True), ("root", None, False), ("root_inv", None, False), ("root", "symeig", False),
              ("root_inv", "lanczos", False), ("svd", None, False)]
    # A1. every cell x every query, unbatched: default settings, and max_cholesky_size(0) for the route-dependent ones
    for cell in PD_CELLS:
        for b in FIXED_BATCH.get(cell, [()])[:1]:
            for q in queries_full():
                add(cell, b, q)
                if q[0] in route_ops and q[1] != "bogus":
                    add(cell, b, q, mcs=0)
    # A2. batch (2,): the main queries, default settings and max_cholesky_size(0)
    for cell in PD_CELLS:
        for b in FIXED_BATCH.get(cell, [(2,)])[-1:]:
            if not b:
                continue
            for q in q_batch:
                add(cell, b, q)
                if q[1] in (None, "lanczos", "pinverse") and q[0] in route_ops:
                    add(cell, b, q, mcs=0)
    # B. settings on both sides of n (and between the factor size and the product), route-dependent queries
    for cell in PD_CELLS:
        n = sizes[cell]
        for b in FIXED_BATCH.get(cell, [()])[:1]:
            for q in [("root", None, False), ("root_inv", None, False), ("diag", None, False)]:
                for mcs in sorted({n - 1, n, 3}):
                    add(cell, b, q, mcs=mcs)
                add(cell, b, q, mcs=0, fast=False)                   # fast_computations off: Cholesky whatever the size
                for mrs in sorted({2, n}):
                    add(cell, b, q, mcs=0, mrs=mrs)
    # C. cache-driven selection (entries put into the memoize cache by hand, or by an earlier diagonalization())
    for cell in ["Dense3", "Kron23", "KPADconst", "AddedDiagC", "BlockDiag3x2", "ConstMulDense", "Diag4", "RootFull4"]:
        for q in [("root", None, False), ("root_inv", None, False)]:
            for mcs in (800, 0):
                for inj in (["symeig"], ["lanczos"], ["symeig", "lanczos"]):
                    add(cell, (), q, mcs=mcs, inject=inj)
                add(cell, (), q, mcs=mcs, pre=[{"op": "diag", "method": None}])
                add(cell, (), q, mcs=mcs, pre=[{"op": "diag", "method": "symeig"}])
                add(cell, (), q, mcs=mcs, pre=[{"op": "diag", "method": None}], inject=["lanczos"])
    # D. more batch shapes
    for cell in PD_CELLS:
        if cell in FIXED_BATCH:
            continue
        for b in batches_more:
            for q in q_more:
                add(cell, b, q)
                if q[1] is None and q[0] in ("root", "root_inv"):
                    add(cell, b, q, mcs=0)
    # E. singular PSD operators (eigen routes, svd), Chol(upper=True), triangular operators (must raise)
    for cell in SINGULAR_CELLS:
        for b in [(), (2,)]:
            for q in [("root", "symeig", False), ("root", "svd", False), ("root", "diagonalization", False), ("root", None, False),
                      ("eigh", None, False), ("eigvalsh", None, False), ("svd", None, False), ("t_svd", None, False),
                      ("diag", "symeig", False)]:
                if cell == "SingDense4" and q[1] is None and q[0] == "root":
                    continue      # the default is the Cholesky route: psd_safe_cholesky adds its documented jitter (C16)
                add(cell, b, q)
    for cell in CHOLU_CELLS:
        for b in [(), (2,)]:
            for q in queries_full():
                add(cell, b, q)
    for cell in TRI_CELLS:
        for b in [(), (2,)]:
            for q in [("cholesky", None, False), ("cholesky", None, True), ("root", None, False), ("root", "cholesky", False),
                      ("root", "lanczos", False), ("root_inv", None, False), ("root_inv", "cholesky", False),
                      ("root_inv", "lanczos", False)]:
                add(cell, b, q)
                add(cell, b, q, mcs=0)
    # F. histories on SHARED objects: a query on op.add_jitter(c) (a composite that keeps `op` as its inner operator), then
    #    the query on `op` itself / on a second composite of the same `op` / composite after `op` — nothing a composite
    #    computes may corrupt what its inner operator (or a sibling composite) returns later
    for cell in HIST_CELLS:
        for b in ([(), (2,)] if cell in HIST_BATCHED else [()]):
            for q in HIST_Q:
                for first, target in (("jitter:0.75", "self"), ("jitter:0.75", "jitter:2.0"), ("self", "jitter:0.75")):
                    add(cell, b, q, kind="hist", steps=[[first, q[0], q[1], q[2]]], target=target)
    # F2. cache WRITER under a small rank bound, then a different-method / default READER on the same object: a partial
    #     diagonalization(method="lanczos") (max_root_decomposition_size = 2 < n) must not be what a later
    #     diagonalization("symeig") / default root / inverse root / eigh of the same object is answered with
    for cell in ["Dense3", "Dense5", "Kron23", "BlockDiag3x2", "AddedDiagC", "ConstMulDense"]:
        for b in ([(), (2,)] if cell in HIST_BATCHED else [()]):
            for writer in (("diag", "lanczos", False), ("root", "lanczos", False)):
                for q in [("diag", "symeig", False), ("diag", None, False), ("root", None, False), ("root_inv", None, False),
                          ("root", "diagonalization", False), ("root_inv", "diagonalization", False), ("root", "symeig", False),
                          ("eigh", None, False)]:
                    add(cell, b, q, mrs=2, kind="hist", steps=[["self", writer[0], writer[1], writer[2]]], target="self")
    # L. every explicit method x class under lowered thresholds: a direct method explicitly asked for must be answered by it
    for cell in LOW_CELLS:
        for q in LOW_Q:
            for mcs in (0, 3):
                add(cell, (), q, mcs=mcs, mrs=2)
    # K. SCALE: every operator class multiplied by s in {1e-4, 1e-2, 1e2, 1e4} (s = 1 is the rest of the grid), Lanczos and
    #    direct routes, default settings and max_cholesky_size(0); a batch with one member of scale 1e-4
    for cell in SCALE_CELLS:
        for s in SCALES:
            for q in SCALE_Q:
                add(cell, (), q, scale=s)
            for q in [("root", None, False), ("root_inv", None, False), ("diag", None, False)]:
                add(cell, (), q, mcs=0, scale=s)
    for q in SCALE_Q:
        add("MixScale3", (3,), q)
    for q in [("root", None, False), ("root_inv", None, False), ("diag", None, False)]:
        add("MixScale3", (3,), q, mcs=0)
    # Z. CORPUS: deterministic cases (fixed matrix entries: corpus_seed / literal; fixed Lanczos start vector: torch_seed) for
    #    recorded findings whose reproduction depends on the random draw
    for q in [("root", "lanczos", False), ("root_inv", "lanczos", False)]:
        # metamorphic: the same operator times 1e4 with the same start vector must not run MORE Lanczos iterations
        add("CorpusAbsThr", (), q, scale=0.01, corpus=True, torch_seed=38, rescale=1e4)
        add("MixIdentExact3", (3,), q, corpus=True, corpus_seed=777, torch_seed=CORPUS_IDENT_TORCH_SEED)
    for q in [("root", None, False), ("root", "lanczos", False), ("root_inv", None, False)]:
        add("KronBlk", (), q, mcs=0, mrs=1)         # blocks (2 x 2) larger than the rank bound 1
    # G. batches mixing p.d. members with a singular member, Cholesky-route queries (member-wise jitter), also under
    #    settings.cholesky_jitter(double_value=1e-4)
    for cell, (b, sing) in MIX_CELLS.items():
        for q in [("cholesky", None, False), ("cholesky", None, True), ("t_cholesky", None, False), ("root", None, False),
                  ("root", "cholesky", False), ("root_inv", None, False), ("root_inv", "cholesky", False)]:
            for cj in (None, 1e-4):
                add(cell, b, q, kind="mixed", singular=list(sing), cj=cj)
    # H. cat_rows: C = [[A, B^T], [B, D]] with a NON-negligible cross block; the root / inverse root it caches for C
    for cell in CAT_CELLS:
        for b in ([(), (2,)] if cell in CAT_BATCHED else [()]):
            for o in (1, 2):
                for q in [("root", None, False), ("root_inv", None, False), ("cholesky", None, False), ("svd", None, False)]:
                    add(cell, b, q, kind="catrows", o=o)
    # H'. cat_rows on a Kronecker product ABOVE max_cholesky_size (factors below it): cat_rows combines the Kronecker override's
    #     root and inverse root, which must be each other's inverse transposes
    for cell in ("Kron23", "Kron222"):
        for o in (1, 2):
            for q in [("root", None, False), ("root_inv", None, False)]:
                add(cell, (), q, mcs=3, kind="catrows", o=o)
    # I. Lanczos in lock-step over a batch / over blocks one of which is numerically c*I
    for cell in ("MixIdent3", "BlockMixIdent"):
        for q in [("root", "lanczos", False), ("root_inv", "lanczos", False), ("diag", "lanczos", False)]:
            add(cell, BUILTIN_BATCH[cell], q)
        for q in [("root", None, False), ("root_inv", None, False), ("diag", None, False)]:
            add(cell, BUILTIN_BATCH[cell], q, mcs=0)
    for q in [("root", "lanczos", False), ("root_inv", "lanczos", False)]:
        add("MixIdentExact3", (3,), q)
    # J. ill-conditioned p.d. operators (condition number 1e8, all eigenvalues >> 1e-7) on the direct routes, incl. the default
    #    route after a diagonalization() / logdet() has been cached on the object
    for cell in ILL_CELLS:
        for b in [(), (2,)]:
            for q in [("root_inv", "symeig", False), ("root_inv", "diagonalization", False), ("root_inv", "svd", False),
                      ("root_inv", "cholesky", False), ("root_inv", None, False), ("root", "symeig", False), ("root", "svd", False),
                      ("root", "cholesky", False), ("root", None, False), ("eigh", None, False), ("svd", None, False),
                      ("cholesky", None, False), ("diag", None, False)]:
                add(cell, b, q)
            for q in [("root_inv", None, False), ("root", None, False)]:
                add(cell, b, q, pre=[{"op": "diag", "method": None}])
                if cell == "IllCondKron23":
                    add(cell, b, q, pre=[{"op": "logdet", "method": None}])
    if not quick:
        # thorough: every cell x every query at every batch shape, settings on both sides
        for cell in PD_CELLS:
            n = sizes[cell]
            for b in FIXED_BATCH.get(cell, [(), (2,)] + batches_more):
                for q in queries_full():
                    # max_cholesky_size on both sides of n; the rank bound max_root_decomposition_size = 2 < n only where a
                    # Krylov / pivoted route can run (max_cholesky_size(0), or an explicit Krylov method)
                    for mcs in sorted({0, n - 1, n, 800}):
                        add(cell, b, q, mcs=mcs, mrs=100)
                    add(cell, b, q, mcs=0, mrs=2)
                    if q[1] in ("lanczos", "pivoted_cholesky"):
                        add(cell, b, q, mcs=800, mrs=2)
                    if q[1] is None:
                        add(cell, b, q, mcs=0, fast=False)
                        add(cell, b, q, mcs=3, mrs=n)
    # de-duplicate, keep order
    seen, out = set(), []
    for it in items:
        k = repr(sorted(it.items(), key=lambda kv: kv[0]))
        if k not in seen:
            seen.add(k)
            out.append(it)
    return out


def instantiate(rng, item):
    kind = item.get("kind", "plain")
    drng = __import__("random").Random(item["corpus_seed"]) if item.get("corpus_seed") is not None else rng
    expr = cell_expr(drng, item["cell"], [] if item["cell"] in BUILTIN_BATCH else item["batch"])
    if item.get("scale") is not None and not item.get("corpus"):
        expr = scale_expr(expr, float(item["scale"]))
    case = dict(item)
    case["expr"] = expr
    if item.get("rescale") is not None:
        case["expr_rescaled"] = scale_expr(expr, float(item["rescale"]))
    if kind == "catrows":
        # new rows with a cross block of the size of the entries of A; D = B A^-1 B^T + (well-conditioned SPD) keeps C p.d.
        A = opbuild.dense(expr, F64)
        n, o, b = A.shape[-1], int(item["o"]), list(A.shape[:-2])
        B = 0.4 * gauss(rng, *b, o, n)
        D = B @ torch.linalg.solve(A, B.mT) + spd(rng, b, o)
        case["B"], case["D"] = T(B), T((D + D.mT) / 2)
    return case
