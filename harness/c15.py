"""C15 — torch.* dispatch on operators matches the methods, in either argument order.

theorems : coq/C15/Property.v  (Model.v: the override protocol of torch, __torch_function__ as an interpreted
           program, MRO lookup, python's binary-operator protocol, method contracts and their denotation in an
           abstract algebra; Proofs.v/Bodies.v: generic lemmas; ProofsW.v: the finite-table obligations on the
           REGENERATED world W and the contracts of the translated root-method bodies)
tie      : translator harness/c15_tables.py  ->  coq/C15/gen/Dispatch.v  (tables, class list with MRO, defines,
           __torch_function__, bodies of the delegating root methods; regenerated from the running package on
           every run, fail closed)
           + correspondence (all evaluated inside Coq by vm_compute on literals, comparators in coq/C15/Check.v):
               R  resolution  getattr(cls, name) of the interpreter           vs  resolve W
               D  dispatch    which function object ran on which arguments /  vs  dispatch W / binop_dispatch W
                              which exception was raised (spies on every class __dict__)
               U  unregistered every overridable torch function not in the tables, operator first and second
               V  values      torch.f(...) / x <op> y on small rational data  vs  the contract of the dispatched
                              method evaluated by den_method in the tensor algebra TQ
               F  functions   one-operand functions: torch.f(op, ...) vs op.method(...) vs torch.f(dense, ...)
           + the property predicate evaluated directly on the implementation for every value case:
               torch.f(args) == method(args)  and  == torch.f(dense args)   (dense = opbuild.dense, from the
               constructor arguments, never through the operator's own code)
"""
import functools
import importlib
import json
import math
import os
import random
import time
import traceback
import warnings
from fractions import Fraction

import torch

from . import common, c15_tables as tr, opbuild as ob

PROP = "C15"
DSH = 800        # dispatch cases per shard (tiny cases)
VSH = 300        # value cases per shard

HDR = ("From Coq Require Import List String ZArith QArith Bool.\nImport ListNotations.\n"
       "Require Import C15.Model C15.Proofs C15.gen.Dispatch C15.Check.\n"
       "Close Scope Q_scope.\nOpen Scope string_scope.\nOpen Scope list_scope.\n")

EXN = ["NotImplementedError", "TypeError", "AttributeError", "IndexError", "KeyError", "RuntimeError", "ValueError"]
BINOPS = {"+": ("BAdd", lambda a, b: a + b), "-": ("BSub", lambda a, b: a - b), "*": ("BMul", lambda a, b: a * b),
          "/": ("BDiv", lambda a, b: a / b), "@": ("BMatmul", lambda a, b: a @ b)}


def exn_name(e):
    import builtins
    for k in EXN:
        if isinstance(e, getattr(builtins, k)):
            return k
    return "OtherError"


# ------------------------------------------------------------------------------------------ translator

def extra_classes():
    return [ob.user_minimal_class()]


def regenerate():
    gen = os.path.join(common.COQ, PROP, "gen")
    os.makedirs(gen, exist_ok=True)
    code, meta = tr.translate(common.REPO, extra_classes=extra_classes())
    p = os.path.join(gen, "Dispatch.v")
    if not os.path.exists(p) or open(p).read() != code:
        open(p, "w").write(code)
    json.dump(meta, open(os.path.join(gen, "dispatch_meta.json"), "w"), indent=1, default=str)
    return meta


def fallback_meta():
    p = os.path.join(common.COQ, PROP, "gen", "dispatch_meta.json")
    try:
        return json.load(open(p))
    except Exception:
        return None


def resolve_torch(name):
    obj = torch
    for p in name.split(".")[1:]:
        obj = getattr(obj, p)
    return obj


# ------------------------------------------------------------------------------------------ the package

class Lib:
    """the imported package + spies on every function a dispatch can reach"""

    def __init__(self, meta):
        import linear_operator.operators as O
        L = importlib.import_module("linear_operator.operators._linear_operator")
        self.L, self.O, self.meta = L, O, meta
        self.root = L.LinearOperator
        extra_classes()          # make sure the harness's user subclass exists
        names = list(meta["classes"]) + list(meta["helpers"])
        self.cls = {}
        for c in tr.all_subclasses(self.root) + [k for c in tr.all_subclasses(self.root) for k in c.__mro__]:
            if c.__name__ in names and c is not object:
                self.cls.setdefault(c.__name__, c)
        self.first = {resolve_torch(f): (f, m) for f, m in meta["first"].items()}
        self.second = {resolve_torch(f): (f, m) for f, m in meta["second"].items()}
        self.relevant = meta["relevant"]
        self.log = []
        self.depth = 0
        self.installed = []

    # -- spies
    def _wrap(self, K, nm, orig):
        lib = self

        @functools.wraps(orig)
        def w(*a, **kw):
            if lib.depth == 0:
                lib.log.append((K.__name__, nm, a, tuple(sorted(kw))))
            lib.depth += 1
            try:
                return orig(*a, **kw)
            finally:
                lib.depth -= 1
        w.__c15_spy__ = True
        return w

    def install(self):
        if self.installed:
            return
        for cname, K in self.cls.items():
            for nm in self.relevant:
                if nm in ("__torch_function__",):
                    continue
                v = K.__dict__.get(nm)
                if v is None or isinstance(v, (classmethod, staticmethod, property)) or not callable(v):
                    continue
                if getattr(v, "__c15_spy__", False):
                    continue
                setattr(K, nm, self._wrap(K, nm, v))
                self.installed.append((K, nm, v))

    def uninstall(self):
        for K, nm, v in self.installed:
            setattr(K, nm, v)
        self.installed = []

    def observe(self, fn, args):
        """run fn(); returns (dispatch observation, ('ok', result) | ('err', exc))"""
        self.log = []
        self.depth = 0
        try:
            with warnings.catch_warnings():
                warnings.simplefilter("ignore")
                r = ("ok", fn())
        except Exception as ex:          # noqa
            r = ("err", ex)
        self.depth = 0
        if self.log:
            K, nm, a, kws = self.log[0]
            perm = []
            for x in a:
                # (the same python object may be passed twice -- small ints are interned: take the first unused position)
                j = [i for i, y in enumerate(args) if y is x and i not in perm] or [i for i, y in enumerate(args) if y is x]
                perm.append(j[0] if j else -1)
            d = ("call", K, nm, perm, list(kws))
        elif r[0] == "err":
            d = ("raise", exn_name(r[1]))
        else:
            d = ("none",)
        return d, r


# ------------------------------------------------------------------------------------------ Coq literals

class Names:
    """string literals are expensive for coqc to parse: every distinct string of a shard is defined once"""

    def __init__(self):
        self.ix = {}

    def __call__(self, s):
        if s not in self.ix:
            self.ix[s] = "s%d" % len(self.ix)
        return self.ix[s]

    def defs(self):
        return "".join('Definition %s := "%s".\n' % (v, k) for k, v in self.ix.items())


cstr = Names()


def with_names(make_body):
    """build a shard body with a fresh name table; returns header definitions + body"""
    global cstr
    cstr = Names()
    body = make_body()
    return cstr.defs(), body


def qlit(x):
    f = Fraction(x)
    if f.denominator == 1:
        return "%d%%Q" % f.numerator if f.numerator >= 0 else "(%d)%%Q" % f.numerator
    return "(%d # %d)%%Q" % (f.numerator, f.denominator)


def tens_lit(shape, data):
    return "(T [%s] [%s])" % ("; ".join(str(int(s)) for s in shape), "; ".join(qlit(x) for x in data))


def torch_lit(x):
    x = x.detach()
    if x.dtype == torch.bool:
        x = x.to(torch.float64)
    x = x.to(torch.float64)
    return tens_lit(list(x.shape), x.reshape(-1).tolist())


def kind_lit(k):
    if k[0] == "op":
        return "(KOp %s)" % cstr(k[1])
    return {"t": "KTensor", "s": "KScalar", "foreign": "KForeign"}[k[0]]


def dobs_lit(d):
    if d[0] == "call":
        return "(OCall %s %s [%s])" % (cstr(d[1]), cstr(d[2]), "; ".join(str(i) for i in d[3]))
    if d[0] == "raise":
        return "(ORaise %s)" % d[1]
    return "OPlain"


def dcall_lit(call, kinds):
    if call.startswith("binop:"):
        return "(CBin %s %s %s)" % (BINOPS[call[6:]][0], kind_lit(kinds[0]), kind_lit(kinds[1]))
    return "(CFun %s [%s])" % (cstr(call), "; ".join(kind_lit(k) for k in kinds))


def dshard(cases):
    defs, body = with_names(lambda: ";\n ".join("(%s, %s)" % (dcall_lit(c["call"], c["kinds"]), dobs_lit(c["obs"])) for c in cases))
    return HDR + defs + "Definition cases : list (dcall * dobs) := [\n %s].\nEval vm_compute in (bad_dcases cases).\n" % body


def rshard(cases):
    defs, body = with_names(lambda: ";\n ".join("(%s, %s, %s)" % (cstr(c), cstr(m), "Some %s" % cstr(d) if d else "None") for c, m, d in cases))
    return HDR + defs + "Definition cases : list (string * string * option string) := [\n %s].\nEval vm_compute in (bad_rcases cases).\n" % body


# ------------------------------------------------------------------------------------------ arguments

def a_op(e):
    return {"k": "op", "e": e}


def a_t(x):
    return {"k": "t", "t": ob.from_torch(x) if torch.is_tensor(x) else x}


def a_s(v):
    return {"k": "s", "v": v}


DTYPES = {"float64": torch.float64, "float32": torch.float32}


class Real:
    """realises JSON arguments as python objects (operators through opbuild.build) and as dense tensors"""

    def real(self, a, dt=torch.float64):
        if a["k"] == "op":
            return ob.build(a["e"], dt)
        if a["k"] == "t":
            return ob.tt(a["t"], dt)
        if a["k"] == "l":
            return tuple(a["v"])
        return a["v"]

    def dense(self, a, dt=torch.float64):
        if a["k"] == "op":
            return ob.dense(a["e"], dt)
        if a["k"] == "t":
            return ob.tt(a["t"], dt)
        if a["k"] == "l":
            return tuple(a["v"])
        return a["v"]


def kind_of(a, obj):
    if a["k"] == "op":
        return ("op", type(obj).__name__)
    if a["k"] in ("i", "l"):
        return ("s",)               # python ints / tuples: neither Tensor nor overriding
    return (a["k"],)


def to_plain(r, root):
    """result of a call -> torch tensor / python number / tuple thereof (LinearOperators are evaluated)"""
    if isinstance(r, root):
        return r.to_dense()
    if isinstance(r, (tuple, list)):
        return tuple(to_plain(x, root) for x in r)
    return r


TOL = 1e-9      # data are small integers / dyadic rationals: a wrong order, sign or operand is off by >= 0.25; FFT and
                # eigen-based paths (Toeplitz, MulLinearOperator roots) return them with ~1e-13 noise


LOW_PREC = (torch.float32, torch.float16, torch.bfloat16)
F32_VALUE_TOL = 2e-5   # a wrong order, sign or operand is off by >= 0.25 on data of magnitude <= a few hundred


def same_value(a, b, tol=TOL):
    if isinstance(a, tuple) or isinstance(b, tuple):
        return isinstance(a, tuple) and isinstance(b, tuple) and len(a) == len(b) and all(same_value(x, y, tol) for x, y in zip(a, b))
    if torch.is_tensor(a) != torch.is_tensor(b):
        if torch.is_tensor(a) and a.dim() == 0:
            a = a.item()
        if torch.is_tensor(b) and b.dim() == 0:
            b = b.item()
        if torch.is_tensor(a) or torch.is_tensor(b):
            return False
    if not torch.is_tensor(a):
        try:
            return abs(float(a) - float(b)) <= tol * max(1.0, abs(float(a)), abs(float(b)))
        except Exception:
            return a == b
    if a.shape != b.shape:
        return False
    if a.dtype == torch.bool or b.dtype == torch.bool:
        return bool((a.to(torch.float64) == b.to(torch.float64)).all())
    if tol != 0.0 and (a.dtype in LOW_PREC or b.dtype in LOW_PREC):
        # single precision: a legitimate route may round (RootLinearOperator * 2 scales the root by sqrt(2): 3.9999998 for 4)
        tol = max(tol, F32_VALUE_TOL)
    a, b = a.to(torch.float64), b.to(torch.float64)
    na, nb = torch.isnan(a), torch.isnan(b)
    if bool((na != nb).any()):
        return False
    a, b = torch.where(na, torch.zeros_like(a), a), torch.where(nb, torch.zeros_like(b), b)
    ia, ib = torch.isinf(a), torch.isinf(b)
    if bool((ia != ib).any()) or bool((a[ia] != b[ib]).any()):
        return False
    a, b = torch.where(ia, torch.zeros_like(a), a), torch.where(ib, torch.zeros_like(b), b)
    if tol == 0.0:
        return bool((a == b).all())
    return bool(((a - b).abs() <= tol * torch.maximum(torch.ones_like(a), torch.maximum(a.abs(), b.abs()))).all())


def run_call(lib, real, case):
    """executes one value case: the real call (observed), the same call through the method, the dense oracle"""
    dt = DTYPES[case.get("dtype", "float64")]
    objs = [real.real(a, dt) for a in case["args"]]
    kw = dict(case.get("kw") or {})
    call = case["call"]
    if call.startswith("binop:"):
        f = BINOPS[call[6:]][1]
    else:
        f = resolve_torch(call)
    lib.tf_log = []
    d, r = lib.observe(lambda: to_plain(f(*objs, **kw), lib.root), objs)
    handler_reached = bool(getattr(lib, "tf_log", None))
    dens = [real.dense(a, dt) for a in case["args"]]
    try:
        with warnings.catch_warnings():
            warnings.simplefilter("ignore")
            if call.startswith("binop:") or call.startswith("torch.Tensor."):
                dd = list(dens)
                # python scalars stay scalars; the operator is replaced by its dense matrix
                orc = ("ok", f(*dd, **kw))
            else:
                # the caller's arguments with every operator replaced by its dense matrix; python scalars stay python
                # scalars (torch.add(2.0, t) is accepted by torch, torch.isclose(0.5, t) is not: then both must raise)
                dd = list(dens)
                if not any(torch.is_tensor(x) for x in dd):
                    dd = [torch.tensor(x, dtype=dt) for x in dd]
                orc = ("ok", f(*dd, **kw))
    except Exception as ex:              # noqa
        orc = ("err", ex)
    kinds = [kind_of(a, o) for a, o in zip(case["args"], objs)]
    return {"kinds": kinds, "disp": d, "res": r, "oracle": orc, "objs": objs, "handler_reached": handler_reached}


def method_call(lib, out, case):
    """the same computation through the method the dispatcher is supposed to reach (L1)"""
    d = out["disp"]
    if d[0] != "call":
        return None
    nm, perm = d[2], d[3]
    if -1 in perm:
        return None
    objs = [lib_obj for lib_obj in out["objs"]]
    self_ = objs[perm[0]]
    rest = [objs[i] for i in perm[1:]]
    kw = dict(case.get("kw") or {})
    try:
        with warnings.catch_warnings():
            warnings.simplefilter("ignore")
            saved, lib.depth = lib.depth, 1          # do not log
            try:
                r = ("ok", to_plain(getattr(self_, nm)(*rest, **kw), lib.root))
            finally:
                lib.depth = saved
    except Exception as ex:                         # noqa
        r = ("err", ex)
    return r


DUNDER = {"add": "__add__", "sub": "__sub__", "mul": "__mul__", "div": "__truediv__", "matmul": "__matmul__"}
RDUNDER = {"add": "__radd__", "sub": "__rsub__", "mul": "__rmul__", "div": "__rtruediv__", "matmul": "__rmatmul__"}
FUNC_METHOD = {"svd": "_torch_linalg_svd"}        # every other torch function: the method of the same name


def expected_method(case, kinds):
    """hand table (independent of the registration tables and of what the dispatcher did): the method the property
    means by `the corresponding method`, and which argument is self.  None: no such method (isclose / div reflected)."""
    call = case["call"]
    base = call.replace("binop:", "").split(".")[-1]
    base = {"+": "add", "-": "sub", "*": "mul", "/": "div", "@": "matmul"}.get(base, base)
    first = kinds[0][0] == "op"
    if call.startswith("binop:"):
        return ((DUNDER if first else RDUNDER).get(base), 0 if first else 1)
    if first:
        return (FUNC_METHOD.get(base, base), 0)
    return (RDUNDER.get(base) if base in ("add", "sub", "mul", "matmul") else None, 1)


def expected_method_call(lib, out, case):
    name, si = expected_method(case, out["kinds"])
    kw = dict(case.get("kw") or {})
    if name is None or (kw and si == 1):
        return None                       # reflected dunders take no keyword
    objs = out["objs"]
    self_ = objs[si]
    rest = [o for i, o in enumerate(objs) if i != si]
    if not hasattr(self_, name):
        return None
    try:
        with warnings.catch_warnings():
            warnings.simplefilter("ignore")
            saved, lib.depth = lib.depth, 1
            try:
                return ("ok", to_plain(getattr(self_, name)(*rest, **kw), lib.root))
            finally:
                lib.depth = saved
    except Exception as ex:               # noqa
        return ("err", ex)


def same_outcome(a, b, tol=TOL):
    if a[0] != b[0]:
        return False
    if a[0] == "err":
        return exn_name(a[1]) == exn_name(b[1])
    return same_value(a[1], b[1], tol)


# ------------------------------------------------------------------------------------------ value cases -> Coq

def varg_lit(a, obj, real):
    if a["k"] == "op":
        return "(VOp %s %s)" % (cstr(type(obj).__name__), torch_lit(real.dense(a)))
    if a["k"] == "t":
        return "(VTen %s)" % torch_lit(real.dense(a))      # small integers: the same rational in either dtype
    return "(VScal %s)" % qlit(a["v"])


def vobs_lit(r):
    if r[0] == "err":
        return "(VRaise %s)" % exn_name(r[1])
    v = r[1]
    if torch.is_tensor(v) and not bool(torch.isfinite(v.to(torch.float64)).all()):
        return "(VRaise OtherError)"          # never expected: flagged by the direct predicate as well
    if torch.is_tensor(v):
        return "(VVal %s)" % torch_lit(v)
    if isinstance(v, (int, float, bool)):
        return "(VVal %s)" % tens_lit([], [v])
    return "(VRaise OtherError)"


def vcase_lit(case, out, real):
    call = case["call"]
    cl = "(VBin %s)" % BINOPS[call[6:]][0] if call.startswith("binop:") else "(VFun %s)" % cstr(call)
    kw = case.get("kw") or {}
    alpha = "(Some %s)" % qlit(kw["alpha"]) if "alpha" in kw else "None"
    tol = "(Some (%s, %s))" % (qlit(kw["rtol"]), qlit(kw["atol"])) if "rtol" in kw else "None"
    args = "; ".join(varg_lit(a, o, real) for a, o in zip(case["args"], out["objs"]))
    return "{| vc_call := %s; vc_args := [%s]; vc_alpha := %s; vc_tol := %s; vc_obs := %s; vc_orc := %s |}" % (
        cl, args, alpha, tol, vobs_lit(out["res"]),
        # the specification is validated against torch in float64 only (float32 quotients are not exact rationals)
        vobs_lit(out["oracle"]) if case.get("dtype", "float64") == "float64" else "(VRaise OtherError)")


def vshard(mk):
    defs, body = with_names(lambda: ";\n ".join(mk()))
    return HDR + defs + ("Definition cases : list vcase := [\n %s].\nEval vm_compute in (bad_vcases cases).\n"
                         "Eval vm_compute in (spec_bad_vcases cases).\n" % body)


def parse_lists(out):
    """all '= [..] : list nat' results of a shard, in order"""
    import re
    res = []
    for m in re.finditer(r"=\s*\[(.*?)\]\s*:\s*list", out, re.S):
        body = m.group(1).strip()
        res.append([] if not body else [int(re.sub(r"%\w+", "", x).strip().strip("()")) for x in body.split(";")])
    return res


# ------------------------------------------------------------------------------------------ generators

def rt(rng, shape, lo=-3, hi=3, nonzero=False, choices=None):
    n = int(math.prod(shape))
    if choices:
        vals = [rng.choice(choices) for _ in range(n)]
    else:
        vals = [rng.randint(lo, hi) for _ in range(n)]
        if nonzero:
            vals = [v if v else 1 for v in vals]
    return ob.T(shape, vals)


def healthy(e, dt, root):
    """self-consistency of the instance (C01's subject, not C15's): to_dense, A @ I and (A^T @ I)^T all denote the
    matrix built from the constructor arguments, in the instance's dtype"""
    op = ob.build(e, dt)
    dn = ob.dense(e, dt)
    with warnings.catch_warnings():
        warnings.simplefilter("ignore")
        eye_r = torch.eye(dn.shape[-1], dtype=dt)
        eye_l = torch.eye(dn.shape[-2], dtype=dt)
        td = op.to_dense()
        return (tuple(op.shape) == tuple(dn.shape) and op.dtype == dt and td.dtype == dt and same_value(td, dn)
                and same_value(to_plain(op.matmul(eye_r), root), dn)
                and same_value(to_plain(op.mT.matmul(eye_l), root), dn.mT))


def instances(ctx, rng, lib):
    """operator expressions per library class: {class name: [(expr, dtype name), ...]} (healthy instances only).
    float64 unless the class cannot hold it consistently (ZeroLinearOperator.to_dense, the permutation operators:
    always float32 -- C14's subject); then the whole case is run in float32 (small integers are exact there too)."""
    by = {}
    skipped = []
    plans = [([], 3, 3), ([2], 3, 3)] if ctx.quick else [([], 3, 3), ([2], 3, 3), ([], 2, 4), ([1], 4, 2), ([2, 1], 2, 2), ([], 1, 1)]
    for name in ob.ALL:
        for batch, m, n in plans:
            done = False
            for attempt in range(4):
                try:
                    e = ob.gen(rng, name, batch=batch, m=m, n=n)
                except Exception:        # noqa
                    continue
                for dn_ in ("float64", "float32"):
                    try:
                        ok = healthy(e, DTYPES[dn_], lib.root)
                    except Exception:    # noqa
                        ok = False
                    if ok:
                        by.setdefault(type(ob.build(e, DTYPES[dn_])).__name__, []).append((e, dn_))
                        done = True
                        break
                if done:
                    break
            if not done:
                skipped.append([name, batch, m, n])
    return by, skipped


def other_operands(rng, e, dn):
    """other operands for an operator with dense value dn (shape (*b, m, n))"""
    shp = list(dn.shape)
    b, m, n = shp[:-2], shp[-2], shp[-1]
    res = {
        "T": a_t(rt(rng, shp)),
        "Tb": a_t(rt(rng, ([2] + shp) if not b else shp[-2:])),            # batch broadcast (either direction)
        "S": a_s(rng.choice([2, -3, 0.5, 4.0])),
        "Tdiv": a_t(rt(rng, shp, choices=[1, -1, 2, -2, 4])),
        "Sdiv": a_s(rng.choice([2, -4, 0.5])),
        "Tr": a_t(rt(rng, b + [n, 2])),                                    # right-hand sides
        "Trv": a_t(rt(rng, [n])),
        "Trb": a_t(rt(rng, ([2] + shp[:-2] if not b else []) + [n, 1])),
        "Trs": a_t(rt(rng, b + [n, n])),                                   # square right / left operands
        "Tls": a_t(rt(rng, b + [m, m])),
        "Tl": a_t(rt(rng, b + [2, m])),                                    # left-hand sides
        "Tlv": a_t(rt(rng, [m])),
        "Tlb": a_t(rt(rng, ([2] + shp[:-2] if not b else []) + [1, m])),
    }
    return res


def other_operator(rng, kind, shp):
    """another operator with the given full shape"""
    b, m, n = shp[:-2], shp[-2], shp[-1]
    if kind == "Dense" or m != n:
        return a_op(ob.gen(rng, "Dense", batch=b, m=m, n=n))
    return a_op(ob.gen(rng, kind, batch=b, m=m))


# the functions the property names (independent of the tables: a dropped registration must show up as a failing call)
REQUIRED_FIRST = ["torch.add", "torch.sub", "torch.mul", "torch.div", "torch.matmul", "torch.diagonal", "torch.logdet", "torch.linalg.solve",
                  "torch.linalg.cholesky", "torch.linalg.eigh", "torch.linalg.eigvalsh", "torch.linalg.svd", "torch.linalg.solve_triangular",
                  "torch.inverse", "torch.abs", "torch.exp", "torch.log", "torch.sqrt", "torch.sum", "torch.prod", "torch.squeeze",
                  "torch.unsqueeze", "torch.transpose", "torch.permute", "torch.clone", "torch.numel", "torch.isclose"]
REQUIRED_SECOND = ["torch.add", "torch.sub", "torch.mul", "torch.matmul", "torch.Tensor.add", "torch.Tensor.sub", "torch.Tensor.mul",
                   "torch.Tensor.matmul"]


def value_cases(ctx, rng, lib, insts):
    """the structural grid of value cases (deterministic); the seed only picks data"""
    cases = []
    first = sorted(set(REQUIRED_FIRST) | set(lib.meta["first"]))
    second = sorted(set(REQUIRED_SECOND) | set(lib.meta["second"]))

    cur = {"dtype": "float64"}

    def add(call, args, kw=None):
        cases.append({"call": call, "args": args, "kw": kw or {}, "dtype": cur["dtype"]})
    for cname, exprs in sorted(insts.items()):
        for e, dtn in exprs:
            cur["dtype"] = dtn
            dn = ob.dense(e)
            shp = list(dn.shape)
            o = other_operands(rng, e, dn)
            me = a_op(e)
            sq = shp[-1] == shp[-2]
            oth_ops = [("Dense", other_operator(rng, "Dense", shp))]
            if sq:
                oth_ops.append(("Diag", other_operator(rng, "Diag", shp)))
            oth_mm = a_op(ob.gen(rng, "Dense", batch=shp[:-2], m=shp[-1], n=2))
            oth_lm = a_op(ob.gen(rng, "Dense", batch=shp[:-2], m=2, n=shp[-2]))
            al = rng.choice([2, -1, 3])
            tol = rng.choice([(0.5, 0.25), (0.25, 0.125)])     # integer |x - y| never equals atol + rtol*|y|: no ties
            tolkw = {"rtol": tol[0], "atol": tol[1]}
            # ---- operator first
            for f in ("torch.add", "torch.sub"):
                if f in first:
                    add(f, [me, o["T"]]); add(f, [me, o["Tb"]]); add(f, [me, o["S"]])
                    add(f, [me, o["T"]], {"alpha": al})
                    for k, x in oth_ops:
                        add(f, [me, x]); add(f, [me, x], {"alpha": al})
            if "torch.mul" in first:
                add("torch.mul", [me, o["T"]]); add("torch.mul", [me, o["Tb"]]); add("torch.mul", [me, o["S"]])
                # operator * operator is exact only through the dense branch of _mul_matrix (MulLinearOperator works on
                # root decompositions, i.e. needs PSD operands: C02's subject)
                add("torch.mul", [me, oth_ops[0][1]])
            if "torch.div" in first:
                add("torch.div", [me, o["Tdiv"]]); add("torch.div", [me, o["Sdiv"]])
            if "torch.matmul" in first:
                add("torch.matmul", [me, o["Tr"]]); add("torch.matmul", [me, o["Trv"]]); add("torch.matmul", [me, o["Trb"]])
                add("torch.matmul", [me, o["Trs"]])
                add("torch.matmul", [me, oth_mm])
            if "torch.isclose" in first:
                near = a_t(ob.from_torch(dn + torch.tensor(rt(rng, shp, choices=[0, 0, 1, -1, 2])["data"], dtype=torch.float64).reshape(shp)))
                add("torch.isclose", [me, near]); add("torch.isclose", [me, near], tolkw)
                add("torch.isclose", [me, oth_ops[0][1]], tolkw)
            # ---- operator second
            for f in sorted(second):
                meth = f.startswith("torch.Tensor.")
                base = f.split(".")[-1]
                if base in ("add", "sub"):
                    add(f, [o["T"], me]); add(f, [o["Tb"], me]); add(f, [o["T"], me], {"alpha": al})
                    if not meth:
                        add(f, [o["S"], me])
                elif base == "mul":
                    add(f, [o["T"], me]); add(f, [o["Tb"], me])
                    if not meth:
                        add(f, [o["S"], me])
                elif base == "matmul":
                    add(f, [o["Tl"], me]); add(f, [o["Tlv"], me]); add(f, [o["Tlb"], me]); add(f, [o["Tls"], me])
                elif base == "isclose":
                    near = a_t(ob.from_torch(dn + torch.tensor(rt(rng, shp, choices=[0, 0, 1, -1, 2])["data"], dtype=torch.float64).reshape(shp)))
                    add(f, [near, me]); add(f, [near, me], tolkw)
                else:
                    add(f, [o["T"], me])
            # ---- python operators
            for sym in "+-*":
                add("binop:" + sym, [me, o["T"]]); add("binop:" + sym, [o["T"], me])
                add("binop:" + sym, [me, o["S"]]); add("binop:" + sym, [o["S"], me])
                add("binop:" + sym, [me, oth_ops[0 if sym == "*" else -1][1]])
            add("binop:/", [me, o["Tdiv"]]); add("binop:/", [me, o["Sdiv"]])
            add("binop:/", [o["Tdiv"], me]); add("binop:/", [o["Sdiv"], me])
            add("binop:@", [me, o["Tr"]]); add("binop:@", [me, o["Trv"]]); add("binop:@", [o["Tl"], me]); add("binop:@", [o["Tlv"], me])
            add("binop:@", [me, o["Trs"]]); add("binop:@", [o["Tls"], me])
            add("binop:@", [me, oth_mm]); add("binop:@", [oth_lm, me])
    return cases



# ------------------------------------------------------------------------------------------ direct-predicate layer (X)

def tspec(shape, data):
    """tensor spec with arbitrary (non-integer, NaN) data"""
    return {"shape": list(shape), "data": [float(x) for x in data]}


def dense_expr(x):
    """a DenseLinearOperator expression holding exactly the values of the tensor x"""
    return {"cls": "Dense", "t": tspec(x.shape, x.reshape(-1).tolist())}


X_PLANS = [("Dense", [], 3, 3), ("Dense", [2], 3, 3), ("Dense", [2], 2, 3), ("Dense", [2, 1], 2, 2), ("Diag", [], 3, 3), ("Diag", [2], 3, 3),
           ("UserMinimal", [], 3, 3), ("UserMinimal", [2], 2, 3), ("Toeplitz", [3], 2, 2)]
BIN_ELEMENTWISE = ["torch.add", "torch.sub", "torch.mul", "torch.div", "torch.isclose"]
TENSOR_METHODS = ["torch.Tensor.add", "torch.Tensor.sub", "torch.Tensor.mul", "torch.Tensor.div", "torch.Tensor.matmul"]


def direct_cases(ctx, rng, lib):
    """Layer X: calls that are evaluated with the property predicate only (torch.f(args) vs torch.f on the densified
    operands: same value and shape, or both raise; a loud NotImplementedError/TypeError is also right where the
    property names no registration).  The list does not depend on the translator and only weakly on the tables:
    every two-operand function the property names, the Tensor methods python's operators reach, and EVERY function
    found in either runtime table are called in BOTH operand orders with the other operand a full tensor, a 0-d
    tensor, a (b,1,1) tensor, a python scalar and an operator, with keywords and with extra positional arguments;
    matmul with 1-D / 2-D / square / batch-broadcast left and right operands on batch and non-batch operators."""
    cases = []
    tables = set(lib.meta["first"]) | set(lib.meta["second"])
    known = set(REQUIRED_FIRST) | set(REQUIRED_SECOND) | set(TENSOR_METHODS)
    new_funcs = sorted(tables - known)             # registrations the property does not name: must still mean torch.f
    def add(call, args, kw=None, okind=None):
        cases.append({"call": call, "args": args, "kw": kw or {}, "dtype": "float64", "okind": okind, "x": True})
    for cname, batch, m, n in X_PLANS:
        if ctx.quick and (cname, batch) in (("UserMinimal", [2]), ("Toeplitz", [3])):
            continue
        e = None
        for attempt in range(4):
            try:
                e = ob.gen(rng, cname, batch=batch, m=m, n=n)
                if healthy(e, torch.float64, lib.root):
                    break
            except Exception:      # noqa
                pass
            e = None
        if e is None:
            continue
        dn = ob.dense(e)
        shp = list(dn.shape)
        b, mm, nn = shp[:-2], shp[-2], shp[-1]
        me = a_op(e)
        nz = [1, -1, 2, -2, 4]
        others = {
            "full": a_t(rt(rng, shp, choices=nz)),
            "0d": {"k": "t", "t": tspec([], [rng.choice([2.0, -4.0, 0.5])])},
            "b11": a_t(rt(rng, [b[0] if b else 2, 1, 1], choices=nz)),
            "scalar": a_s(rng.choice([2, -4, 0.5])),
            "operator": a_op(ob.gen(rng, "Dense", batch=b, m=mm, n=nn)),
        }
        near = (dn + torch.tensor([rng.choice([0, 0, 0.5, -0.5, 1, -1, 2]) for _ in range(dn.numel())], dtype=torch.float64).reshape(shp))
        near = {"k": "t", "t": tspec(shp, near.reshape(-1).tolist())}
        al = rng.choice([2, -1, 3])
        for f in BIN_ELEMENTWISE:
            for ok, x in others.items():
                if f == "torch.div" and ok == "operator":
                    continue        # outside div's documented signature (float | Tensor): visible exclusion `div_by_operator`
                add(f, [me, x], okind=ok)
                add(f, [x, me], okind=ok)
        for f in TENSOR_METHODS[:4]:
            for ok in ("full", "0d", "b11"):
                add(f, [others[ok], me], okind=ok)
        # keywords and extra positional arguments, both orders
        for f in ("torch.add", "torch.sub", "torch.Tensor.add", "torch.Tensor.sub"):
            for ok in ("full", "0d"):
                if not f.startswith("torch.Tensor."):
                    add(f, [me, others[ok]], {"alpha": al}, okind=ok)
                add(f, [others[ok], me], {"alpha": al}, okind=ok)
        # isclose: |x - y| is in {0, .5, 1, 2}: with atol=.75 (rtol=0: symmetric in the operands) the entries .5 apart are
        # close, with the defaults they are not; (rtol, atol) = (.5, .25) depends on which operand is `other`
        for x, y in ((me, near), (near, me)):
            add("torch.isclose", [x, y], okind="near")
            add("torch.isclose", [x, y], {"rtol": 0.0, "atol": 0.75}, okind="near")
            add("torch.isclose", [x, y], {"atol": 0.75, "rtol": 0.0, "equal_nan": True}, okind="near")
            add("torch.isclose", [x, y], {"rtol": 0.5, "atol": 0.25}, okind="near")
            add("torch.isclose", [x, y, a_s(0.0), a_s(0.75)], okind="near")
            add("torch.isclose", [x, y, a_s(0.0), a_s(0.75), a_s(True)], okind="near")
            add("torch.isclose", [x, y, a_s(0.5), a_s(0.25)], okind="near")
            add("torch.isclose", [x, y, a_s(0.0)], {"atol": 0.75}, okind="near")
        if cname == "Dense" and not b:
            # equal_nan matters only with NaNs at matching places
            dnan = dn.clone()
            dnan[0, 1] = float("nan")
            opn = a_op(dense_expr(dnan))
            tn = {"k": "t", "t": tspec(shp, dnan.reshape(-1).tolist())}
            for x, y in ((opn, tn), (tn, opn)):
                add("torch.isclose", [x, y], {"equal_nan": True}, okind="nan")
                add("torch.isclose", [x, y, a_s(1e-05), a_s(1e-08), a_s(True)], okind="nan")
                add("torch.isclose", [x, y], okind="nan")
        # matmul: left operands of an operator in second position / right operands in first position
        lefts = {"2d": rt(rng, b + [2, mm]), "1d": rt(rng, [mm]), "square": rt(rng, b + [mm, mm]), "bcast": rt(rng, ([2] if not b else []) + [1, mm]),
                 "2d-nobatch": rt(rng, [2, mm])}
        rights = {"2d": rt(rng, b + [nn, 2]), "1d": rt(rng, [nn]), "square": rt(rng, b + [nn, nn]), "bcast": rt(rng, ([2] if not b else []) + [nn, 1]),
                  "2d-nobatch": rt(rng, [nn, 2])}
        for f in ("torch.matmul", "torch.Tensor.matmul", "binop:@"):
            for ok, x in lefts.items():
                add(f, [a_t(x), me], okind=ok)
            if f != "torch.Tensor.matmul":
                for ok, x in rights.items():
                    add(f, [me, a_t(x)], okind=ok)
        if mm == nn:
            # a function the property names for the first position only, operator second: loud or the dense value
            lhs = 2.0 * torch.eye(mm, dtype=torch.float64) + torch.diag(torch.ones(mm - 1, dtype=torch.float64), 1)
            add("torch.linalg.solve", [{"k": "t", "t": tspec([mm, mm], lhs.reshape(-1).tolist())}, me], okind="square")
        add("torch.matmul", [a_op(ob.gen(rng, "Dense", batch=b, m=2, n=mm)), me], okind="operator")
        add("torch.matmul", [me, a_op(ob.gen(rng, "Dense", batch=b, m=nn, n=2))], okind="operator")
        # python operators with the new operand kinds
        for sym in "+-*/":
            for ok in ("0d", "b11"):
                add("binop:" + sym, [me, others[ok]], okind=ok)
                add("binop:" + sym, [others[ok], me], okind=ok)
        # registrations the property does not name (none on the pinned tree)
        for f in new_funcs:
            add(f, [me], okind="none")
            for ok, x in others.items():
                add(f, [me, x], okind=ok)
                add(f, [x, me], okind=ok)
            add(f, [a_t(lefts["1d"]), me], okind="1d")
            add(f, [me, a_t(rights["1d"])], okind="1d")
    # functions the property does not name, with integer / tuple arguments (dimension-moving functions: an alias of a
    # registered method and a function that is NOT an alias differ only for particular patterns -- non-adjacent
    # dimensions, three batch dimensions, negative indices; equal batch sizes keep the shape, so the values must tell)
    if new_funcs:
        for batch in ([2, 3, 4], [2, 2, 2], [3]):
            e = ob.gen(rng, "Dense", batch=batch, m=2, n=2)
            me = a_op(e)
            nd = len(batch) + 2
            for f in new_funcs:
                for i in range(nd):
                    add(f, [me, a_i(i)], okind="dims")
                    add(f, [me, a_i(i - nd)], okind="dims")
                    for j in range(nd):
                        add(f, [me, a_i(i), a_i(j)], okind="dims")
                        add(f, [me, a_i(i - nd), a_i(j - nd)], okind="dims")
                    add(f, [me, a_i(i), a_i(-1 - i)], okind="dims")
                perm = list(range(len(batch)))[::-1] + [nd - 2, nd - 1]
                add(f, [me, a_l(perm)], okind="dims")
                add(f, [me, a_l(range(nd))], okind="dims")
                if len(batch) >= 2:
                    add(f, [me, a_l([0, 1]), a_l([1, 0])], okind="dims")
                    add(f, [me, a_l([0, 1]), a_l([len(batch) - 1, 0])], okind="dims")
                    add(f, [me, a_l([0, -3]), a_l([-3, 0])], okind="dims")
    # ---- batches of constants in EVERY broadcastable layout, against operators with 1 and >= 2 batch dimensions,
    # including EQUAL batch sizes (where a constant aligned with the wrong batch dimension keeps the shape of the result
    # and only the values tell): for a batch shape (b1..bk) every shape (m1..mk,1,1) with mi in {1, bi}, the same with
    # leading 1s dropped ((b',1,1), (1,1,1), (1,1)), one layout with an additional leading batch dimension, and 0-d;
    # values are distinct per element, operators have distinct matrices per batch index.
    for cname, batch, n in const_plans(ctx):
        e = None
        for attempt in range(4):
            try:
                e = ref_expr(rng, cname, batch, n, False)      # fixed structure: only the numbers depend on the seed
                if e is not None and healthy(e, torch.float64, lib.root):
                    break
            except Exception:      # noqa
                pass
            e = None
        if e is None:
            continue
        me = a_op(e)
        for shape in constant_layouts(batch):
            k = int(math.prod(shape))
            vals = rng.sample(CONST_POOL, k)
            c = {"k": "t", "t": tspec(shape, vals)}
            ok = "const(%s)" % ",".join(str(x) for x in shape)
            for f in ("torch.mul", "torch.div", "torch.add", "torch.sub"):
                add(f, [me, c], okind=ok)
                add(f, [c, me], okind=ok)
            for f in TENSOR_METHODS[:4]:
                add(f, [c, me], okind=ok)
            for sym in "*/+-":
                add("binop:" + sym, [me, c], okind=ok)
                add("binop:" + sym, [c, me], okind=ok)
    return cases


CONST_POOL = [2, -3, 4, 5, -6, 7, 8, -9, 0.5, -0.25, 1.5, 10, -11, 12, 13, -14, 0.75, -1.25]


def const_plans(ctx):
    D, G, U, T = "DenseLinearOperator", "DiagLinearOperator", "UserMinimal", "TriangularLinearOperator"
    plans = [(D, [2, 2], 2), (D, [3, 3], 2), (D, [2, 3], 2), (G, [2, 2], 2), (D, [2], 2), (U, [2, 2], 2), (T, [2, 2], 2)]
    if not ctx.quick:
        plans += [(G, [3, 3], 3), ("ToeplitzLinearOperator", [2, 2], 3), (D, [2, 2, 2], 2), (D, [3, 1, 3], 2),
                  ("KroneckerProductLinearOperator", [2, 2], 4), ("SumLinearOperator", [3, 3], 2), (T, [3], 2), (U, [3, 3], 2)]
    return plans


def constant_layouts(batch):
    """every shape of a batch of constants that broadcasts against an operator of batch shape `batch`"""
    import itertools
    out = []

    def put(s):
        if s not in out:
            out.append(s)
    for mask in itertools.product(*[(1, b) if b != 1 else (1,) for b in batch]):
        full = list(mask) + [1, 1]
        put(full)
        while len(full) > 2 and full[0] == 1:
            full = full[1:]
            put(list(full))
    put([2] + [1] * len(batch) + [1, 1])        # one more batch dimension than the operator (the result gains it)
    put([])                                       # 0-d
    return out




# ------------------------------------------------------------------------------------------ one-operand functions (F)

# classes whose own methods are the generic / simple implementations: the dense comparison (L2) of the one-operand
# functions is evaluated on these only -- it validates the hand table (which method means which torch function, with
# which calling convention); the per-class correctness of diagonal / sum / solve / cholesky / ... on every class is
# the subject of C01-C06.  L1 (torch.f(op, ...) == op.method(...)) is evaluated on EVERY class.
REF_CLASSES = ["DenseLinearOperator", "DiagLinearOperator", "ConstantDiagLinearOperator", "IdentityLinearOperator",
               "ToeplitzLinearOperator", "TriangularLinearOperator", "RootLinearOperator", "UserMinimal",
               "KroneckerProductLinearOperator", "SumLinearOperator", "MatmulLinearOperator", "AddedDiagLinearOperator",
               "BlockDiagLinearOperator"]


def a_i(v):
    return {"k": "i", "v": int(v)}


def a_l(v):
    return {"k": "l", "v": [int(x) for x in v]}


def ref_expr(rng, cname, batch, m, psd):
    """a reference instance with a FIXED structure (only the numbers depend on the seed), so that the set of
    structural cells -- and hence the set of findings -- is the same for every seed"""
    batch = list(batch)
    g = lambda nm, **kw: ob.gen(rng, nm, **kw)
    if cname == "DenseLinearOperator":
        return g("Dense", batch=batch, m=m, psd=psd)
    if cname == "UserMinimal":
        return g("UserMinimal", batch=batch, m=m, psd=psd)
    if cname == "DiagLinearOperator":
        return g("Diag", batch=batch, m=m, psd=psd)
    if cname == "ConstantDiagLinearOperator":
        return g("ConstantDiag", batch=batch, m=m, psd=psd)
    if cname == "IdentityLinearOperator":
        return g("Identity", batch=batch, m=m)
    if cname == "ToeplitzLinearOperator":
        return g("Toeplitz", batch=batch, m=m, psd=psd)
    if cname == "TriangularLinearOperator":
        return g("Triangular", batch=batch, m=m)
    if cname == "RootLinearOperator":
        return g("Root", batch=batch, m=m, psd=psd)
    if cname == "KroneckerProductLinearOperator":
        return {"cls": "Kron", "ops": [g("Dense", batch=batch, m=2, psd=psd), g("Dense", batch=batch, m=max(1, m // 2), psd=psd)]}
    if cname == "SumLinearOperator":
        return {"cls": "Sum", "ops": [g("Dense", batch=batch, m=m, psd=psd), g("Dense", batch=batch, m=m, psd=psd)]}
    if cname == "MatmulLinearOperator":
        if psd:
            return None
        return {"cls": "Matmul", "l": g("Dense", batch=batch, m=m, n=2), "r": g("Dense", batch=batch, m=2, n=m)}
    if cname == "AddedDiagLinearOperator":
        return {"cls": "AddedDiag", "base": g("Dense", batch=batch, m=m, psd=psd), "diag": g("Diag", batch=batch, m=m, psd=True)}
    if cname == "BlockDiagLinearOperator":
        return {"cls": "BlockDiag", "base": g("Dense", batch=batch + [2], m=m, psd=psd), "block_dim": -3}
    return None


def _refs(rng, lib, plans, psd):
    out = []
    for cname in REF_CLASSES:
        for batch, m in plans:
            for attempt in range(3):
                try:
                    e = ref_expr(rng, cname, batch, m, psd)
                    if e is None:
                        break
                    if type(ob.build(e)).__name__ == cname and healthy(e, torch.float64, lib.root):
                        out.append((cname, e))
                        break
                except Exception:      # noqa
                    pass
    return out


def psd_instances(ctx, rng, lib):
    """positive definite reference instances"""
    return _refs(rng, lib, [([], 3), ([2], 3)] if ctx.quick else [([], 3), ([2], 3), ([2, 1], 2), ([1], 4)], True)


def ref_instances(ctx, rng, lib):
    plans = [([], 3), ([2], 3), ([2, 1], 2)] if ctx.quick else [([], 3), ([2], 3), ([2, 1], 2), ([1], 3), ([1, 2], 2), ([], 1), ([3], 4)]
    return _refs(rng, lib, plans, False)


def function_cases(ctx, rng, lib, insts):
    """one-operand functions.  Every case: torch.f(op, *args, **kw).  l2: compare with torch.f(dense, ...) as well."""
    first = sorted(set(REQUIRED_FIRST) | set(lib.meta["first"]))
    cases = []

    def add(f, e, dtn, args=(), kw=None, fargs=None, l2=False, cmp="direct", pos=False):
        if f in first:
            cases.append({"call": f, "args": [a_op(e)] + list(args), "kw": kw or {}, "dtype": dtn, "fargs": fargs, "l2": l2, "cmp": cmp})

    def structural(e, dtn, l2):
        dn = ob.dense(e)
        nd = dn.dim()
        nb = nd - 2
        add("torch.numel", e, dtn, fargs=[], l2=l2)
        add("torch.clone", e, dtn, fargs=[], l2=l2)
        for a, b in ((-1, -2), (-2, -1), (nd - 2, nd - 1)):
            add("torch.transpose", e, dtn, [a_i(a), a_i(b)], fargs=[("i", a), ("i", b)], l2=l2)
        # the same dimension twice: the identity for torch (family: every pair pattern, incl. the degenerate one)
        for a in (-1, nd - 2) + ((0,) if nb >= 1 else ()):
            add("torch.transpose", e, dtn, [a_i(a), a_i(a)], fargs=[("i", a), ("i", a)], l2=l2)
        if nb >= 2:
            add("torch.transpose", e, dtn, [a_i(0), a_i(1)], fargs=[("i", 0), ("i", 1)], l2=l2)
            p = [1, 0] + list(range(2, nd))
            add("torch.permute", e, dtn, [a_l(p)], fargs=[("l", p)], l2=l2)
            pn = [1, 0, -2, -1] if nd == 4 else p
            add("torch.permute", e, dtn, [a_l(pn)], fargs=[("l", pn)], l2=l2)
        add("torch.permute", e, dtn, [a_l(range(nd))], fargs=[("l", list(range(nd)))], l2=l2)
        for d in (-1, -2):
            add("torch.sum", e, dtn, [a_i(d)], fargs=[("i", d)], l2=l2)
        add("torch.sum", e, dtn, [], {"dim": -1}, fargs=[("i", -1)], l2=l2)
        add("torch.sum", e, dtn, fargs=[], l2=l2 and dn.shape[-1] == dn.shape[-2])    # sum() of a non-square operator: C01
        if nb >= 1:
            add("torch.sum", e, dtn, [a_i(0)], fargs=[("i", 0)], l2=l2)
            add("torch.sum", e, dtn, [a_i(-3)], fargs=[("i", -3)], l2=l2)
            add("torch.unsqueeze", e, dtn, [a_i(1)], fargs=[("i", 1)], l2=l2)
        add("torch.unsqueeze", e, dtn, [a_i(0)], fargs=[("i", 0)], l2=l2)
        add("torch.unsqueeze", e, dtn, [], {"dim": 0}, fargs=[("i", 0)], l2=l2)
        add("torch.unsqueeze", e, dtn, [a_i(-3)], fargs=[("i", -3)], l2=l2)
        for i in range(nb):
            add("torch.squeeze", e, dtn, [a_i(i)], fargs=[("i", i)], l2=l2)
        if dn.shape[-1] == dn.shape[-2]:
            add("torch.diagonal", e, dtn, [], {"dim1": -2, "dim2": -1}, fargs=[("i", 0), ("i", -2), ("i", -1)], l2=l2)
            add("torch.diagonal", e, dtn, [a_i(0), a_i(-2), a_i(-1)], fargs=[("i", 0), ("i", -2), ("i", -1)], l2=l2)
            add("torch.diagonal", e, dtn, [], {"offset": 0, "dim1": nd - 2, "dim2": nd - 1}, fargs=[("i", 0), ("i", nd - 2), ("i", nd - 1)], l2=l2)
            add("torch.diagonal", e, dtn, fargs=None, l2=l2)                       # torch's defaults: dim1=0, dim2=1
            add("torch.diagonal", e, dtn, [], {"offset": 1, "dim1": -2, "dim2": -1}, fargs=None, l2=False)
        for f in ("torch.abs", "torch.exp", "torch.log", "torch.sqrt"):
            add(f, e, dtn, fargs=[] if f == "torch.abs" else None, l2=l2)
    # every healthy instance of every class: L1 only
    for cname, exprs in sorted(insts.items()):
        for e, dtn in exprs:
            structural(e, dtn, False)
            dn = ob.dense(e)
            if dn.dim() > 2:
                add("torch.prod", e, dtn, [a_i(0)], fargs=None, l2=False)
    # reference instances: L2 as well
    for cname, e in ref_instances(ctx, rng, lib):
        structural(e, "float64", True)
        dn = ob.dense(e)
        if dn.dim() > 2 and cname == "DenseLinearOperator":
            add("torch.prod", e, "float64", [a_i(0)], fargs=[("i", 0)], l2=True)
    # registrations the property does not name (none on the pinned tree): whatever they are mapped to must still mean
    # torch.f on the dense matrix
    extra_first = [f for f in lib.meta["first"] if f not in REQUIRED_FIRST]
    if extra_first:
        for cname, e in ref_instances(ctx, rng, lib)[:12]:
            dn = ob.dense(e)
            tsame = a_t(rt(rng, list(dn.shape)))
            for f in extra_first:
                add(f, e, "float64", l2=True)
                add(f, e, "float64", [tsame], l2=True)
    # (extra registrations for the SECOND position are exercised by the direct-predicate layer X)
    for cname, e in psd_instances(ctx, rng, lib):
        dn = ob.dense(e)
        shp = list(dn.shape)
        rhs = a_t(rt(rng, shp[:-1] + [2]))
        vec = a_t(rt(rng, [shp[-1]]))
        if cname == "TriangularLinearOperator":       # invertible (positive diagonal), not symmetric
            up = bool(e.get("upper", False))
            add("torch.linalg.solve_triangular", e, "float64", [rhs], {"upper": up}, l2=True)
            add("torch.linalg.solve_triangular", e, "float64", [rhs], {"upper": up, "left": True, "unitriangular": False}, l2=True)
            add("torch.inverse", e, "float64", l2=True)
            add("torch.linalg.solve", e, "float64", [rhs], l2=True)
            continue
        add("torch.linalg.cholesky", e, "float64", l2=True)
        add("torch.linalg.cholesky", e, "float64", [], {"upper": True}, l2=True)
        add("torch.linalg.eigvalsh", e, "float64", l2=True, cmp="eigvalsh")
        add("torch.linalg.eigh", e, "float64", l2=True, cmp="eigh")
        add("torch.linalg.svd", e, "float64", l2=True, cmp="svd")
        add("torch.inverse", e, "float64", l2=True)
        add("torch.logdet", e, "float64", l2=True)
        add("torch.linalg.solve", e, "float64", [rhs], l2=True)
        if len(shp) == 2:
            add("torch.linalg.solve", e, "float64", [vec], l2=True)
        if cname == "DiagLinearOperator":
            add("torch.linalg.solve_triangular", e, "float64", [rhs], {"upper": False}, l2=True)
        else:
            add("torch.linalg.solve_triangular", e, "float64", [rhs], {"upper": False}, l2=False)
        for f in ("torch.exp", "torch.log", "torch.sqrt", "torch.abs"):
            add(f, e, "float64", l2=True)
    return cases


F_TOL = 1e-7

# The root class leaves abs / exp / log / sqrt / inverse / solve_triangular as stubs (raise NotImplementedError:
# "only implemented by some LinearOperator subclasses"), so NotImplementedError is an accepted loud answer for them --
# EXCEPT on the classes that do answer them on the pinned tree (behaviour pinned here, by hand): if one of these starts
# raising (e.g. its override is no longer found by name: typo, renamed method, wrong MRO) the dispatch is broken.
ANSWERS_STUB_FUNCTION = {
    "torch.abs": ["ConstantDiagLinearOperator", "DiagLinearOperator", "IdentityLinearOperator", "KroneckerProductDiagLinearOperator"],
    "torch.exp": ["ConstantDiagLinearOperator", "DiagLinearOperator", "IdentityLinearOperator"],
    "torch.log": ["ConstantDiagLinearOperator", "DiagLinearOperator", "IdentityLinearOperator"],
    "torch.sqrt": ["ConstantDiagLinearOperator", "DiagLinearOperator", "IdentityLinearOperator", "KroneckerProductDiagLinearOperator"],
    "torch.inverse": ["ConstantDiagLinearOperator", "DiagLinearOperator", "IdentityLinearOperator", "TriangularLinearOperator"],
    "torch.linalg.solve_triangular": ["ConstantDiagLinearOperator", "DiagLinearOperator", "IdentityLinearOperator", "TriangularLinearOperator"],
}


def l2_compare(case, res, orc, dn):
    """does the value of torch.f(op, ...) mean the same as torch.f(dense, ...)"""
    c = case["cmp"]
    if c == "eigvalsh":
        return same_value(torch.sort(res, -1)[0], orc, F_TOL)
    if c == "eigh":
        w, V = res
        return same_value(torch.sort(w, -1)[0], orc[0], F_TOL) and same_value(V @ torch.diag_embed(w) @ V.mT, dn, F_TOL) \
            and same_value(V.mT @ V, torch.eye(dn.shape[-1], dtype=dn.dtype).expand(V.shape).contiguous(), F_TOL)
    if c == "svd":
        U, S, Vh = res
        return same_value(torch.sort(S, -1, descending=True)[0], orc[1], F_TOL) and same_value(U @ torch.diag_embed(S) @ Vh, dn, F_TOL)
    return same_value(res, orc, F_TOL)


def check_function_case(lib, real, case):
    out = run_call(lib, real, case)
    res, orc = out["res"], out["oracle"]
    mres = method_call(lib, out, case)
    out["method"] = mres
    fail = None
    if mres is None:
        if res[0] == "err" and not out.get("handler_reached"):
            return out, None          # rejected by torch's own argument parser: the library was never consulted
        fail = "no-method-reached"
    elif mres[0] != res[0]:
        fail = "differs-from-method"
    elif res[0] == "err":
        if exn_name(res[1]) != exn_name(mres[1]):
            fail = "differs-from-method"
    elif not same_value(res[1], mres[1], 0.0 if case["cmp"] == "direct" else 1e-12):
        fail = "differs-from-method"
    if fail is None and out["kinds"][0][0] == "op":
        eres = expected_method_call(lib, out, case)
        out["expected_method"] = eres
        if eres is not None and not same_outcome(res, eres, 0.0 if case["cmp"] == "direct" else 1e-12):
            fail = "differs-from-method"
    if fail is None and res[0] == "err" and isinstance(res[1], NotImplementedError) \
            and next((x[1] for x in out["kinds"] if x[0] == "op"), None) in ANSWERS_STUB_FUNCTION.get(case["call"], ()):
        fail = "raises:NotImplementedError"
    if fail is None and case["l2"]:
        if orc[0] == "ok":
            if res[0] == "err":
                # NotImplementedError is the library's documented answer for a registered function a class does not
                # support ("only implemented by some LinearOperator subclasses"): loud, never a silent densification
                if not isinstance(res[1], NotImplementedError):
                    fail = "raises:%s" % exn_name(res[1])
            else:
                dt = DTYPES[case.get("dtype", "float64")]
                try:
                    okv = l2_compare(case, res[1], orc[1], real.dense(op_arg(case), dt))
                except Exception:       # noqa
                    okv = False
                if not okv:
                    fail = "value"
        elif res[0] == "ok":
            fail = "no-raise"
    return out, fail


def fkey(case, out, fail):
    d = out["disp"]
    kinds = out["kinds"]
    kw = sorted((case.get("kw") or {}).keys())
    f = case["call"]
    form = "default" if (len(case["args"]) == 1 and not kw) else ("kw:" + ",".join(kw) if kw else "positional")
    k = {"call": f, "sem": f.split(".")[-1], "class": next(x[1] for x in kinds if x[0] == "op"), "form": form, "method": d[2] if d[0] == "call" else None,
         "layer": "method" if fail == "differs-from-method" else "dense", "fail": fail, "route": "first", "other": "none", "kw": form}
    batch = len(real_shape(case)) > 2
    nd_ = len(real_shape(case))
    same_dim = (k["sem"] == "transpose" and len(case["args"]) == 3 and all(a["k"] == "i" for a in case["args"][1:])
                and case["args"][1]["v"] % nd_ == case["args"][2]["v"] % nd_)
    if same_dim and fail in ("value", "raises:RuntimeError"):
        k["cell"] = "transpose-same-dim"
    elif k["sem"] == "diagonal" and form == "default" and batch and fail in ("value", "raises:RuntimeError"):
        k["cell"] = "diagonal-default-dims"
    elif k["sem"] in ("exp", "log") and fail == "value" and k["class"] in ("DiagLinearOperator", "ConstantDiagLinearOperator", "IdentityLinearOperator", "KroneckerProductDiagLinearOperator"):
        k["cell"] = "diag-exp-log-diagonal-only"
    else:
        k["cell"] = "%s/%s/%s/%s" % (k["class"], k["sem"], form, fail)
    return k


def op_arg(case):
    return next(a for a in case["args"] if a["k"] == "op")


def real_shape(case):
    return list(ob.dense(op_arg(case)["e"]).shape)


def plain_list(v):
    if torch.is_tensor(v):
        return [v]
    if isinstance(v, (int, float, bool)):
        return [torch.tensor(float(v), dtype=torch.float64)]
    if isinstance(v, tuple) and all(torch.is_tensor(x) for x in v):
        return list(v)
    return None


def fobs_lit(r):
    if r is None:
        return "FOpaque"
    if r[0] == "err":
        return "(FRaise %s)" % exn_name(r[1])
    vs = plain_list(r[1])
    if vs is None or any(not bool(torch.isfinite(x.to(torch.float64)).all()) for x in vs):
        return "FOpaque"
    return "(FVal [%s])" % "; ".join(torch_lit(x) for x in vs)


def farg_lit(a):
    if a[0] == "i":
        return "(FInt %s)" % common.zlit(a[1])
    return "(FInts %s)" % common.zlist(a[1])


def fcase_lit(case, out, real):
    dt = DTYPES[case.get("dtype", "float64")]
    x = torch_lit(real.dense(op_arg(case), dt))
    fa = case["fargs"]
    # fargs None: the dense meaning is not modelled in Coq for this call form -> use a tag the model does not know
    args = "[%s]" % "; ".join(farg_lit(a) for a in fa) if fa is not None else "[FInts []; FInts []]"
    kinds = "[%s]" % "; ".join(kind_lit(k) for k in out["kinds"][1:])
    return "{| fc_f := %s; fc_cls := %s; fc_x := %s; fc_args := %s; fc_nkinds := %s; fc_l2 := %s; fc_torch := %s; fc_method := %s |}" % (
        cstr(case["call"]), cstr(out["kinds"][0][1]), x, args, kinds, "true" if case["l2"] else "false",
        fobs_lit(out["res"]), fobs_lit(out.get("method")))


def fshard(mk):
    defs, body = with_names(lambda: ";\n ".join(mk()))
    return HDR + defs + "Definition cases : list fcase := [\n %s].\nEval vm_compute in (bad_fcases cases).\n" % body


def describe_case(case, out):
    """structural key of a value case (no seeds / values)"""
    kinds = out["kinds"]
    call = case["call"]
    opi = [i for i, k in enumerate(kinds) if k[0] == "op"]
    d = out["disp"]
    route = "none"
    if d[0] == "call":
        route = "second" if d[3][:2] == [1, 0] else "first"
    other = "none"
    if len(kinds) >= 2:
        if len([i for i in opi if i < 2]) == 2:
            other = "operator"
        else:
            oi = 1 - opi[0] if (opi and opi[0] < 2) else 0
            other = {"t": "tensor", "s": "scalar"}.get(kinds[oi][0], kinds[oi][0])
    kw = case.get("kw") or {}
    sem = call.split(".")[-1].replace("binop:", "")
    sem = {"+": "add", "-": "sub", "*": "mul", "/": "div", "@": "matmul"}.get(sem, sem)
    key = {"call": call, "sem": sem, "route": route, "other": other,
           "kw": "alpha" if "alpha" in kw else ("tol" if ("rtol" in kw or "atol" in kw) else ("none" if not kw else ",".join(sorted(kw)))),
           "class": kinds[opi[0]][1] if opi else None,
           "method": d[2] if d[0] == "call" else None}
    if len(kinds) > 2:
        key["npos"] = len(kinds) - 2          # extra positional arguments after the two operands
    if case.get("okind"):
        key["okind"] = case["okind"]          # shape class of the other operand (direct-predicate layer X)
    return key


def swap_explains(case, out, real):
    """is the observed value what the dense computation gives with the two operands exchanged (everything else as
    the caller wrote it)?  This is the signature of the two recorded `registered symmetrically` defects."""
    try:
        if out["res"][0] != "ok" or len(case["args"]) < 2 or case["call"].startswith("binop:"):
            return False
        dt = DTYPES[case.get("dtype", "float64")]
        dd = [real.dense(a, dt) for a in case["args"]]
        dd[0], dd[1] = dd[1], dd[0]
        if not torch.is_tensor(dd[0]):
            dd[0] = torch.tensor(dd[0], dtype=dt)
        with warnings.catch_warnings():
            warnings.simplefilter("ignore")
            sw = resolve_torch(case["call"])(*dd, **dict(case.get("kw") or {}))
        return same_value(out["res"][1], sw)
    except Exception:          # noqa
        return False


# ------------------------------------------------------------------------------------------ dispatch cases

class Foreign:
    """an unrelated class with its own __torch_function__"""
    @classmethod
    def __torch_function__(cls, func, types, args=(), kwargs=None):
        return NotImplemented


def bare(cls):
    """an instance for dispatch-only observation (no constructor, no state): the spies log the call before the
    method body touches the object"""
    return object.__new__(cls)


def dispatch_cases(ctx, lib):
    """(call, python callable, args) for the dispatch correspondence; bare instances of EVERY class"""
    meta = lib.meta
    names = list(meta["classes"])
    t = torch.ones(2, 2, dtype=torch.float64)
    s, s2 = 2.5, 3.5
    out = []

    def add(call, args):
        out.append((call, args))
    pair_funcs = [f for f in ("torch.add", "torch.sub", "torch.mul", "torch.div", "torch.matmul", "torch.isclose") if f in meta["first"]]
    mro = meta["classes"]

    def partners(c):
        """quick: every class related to c by inheritance (the cases where torch consults the subclass first) + 4 others"""
        if not ctx.quick:
            return names
        rel = [d for d in names if d != c and (d in mro[c] or c in mro[d])]
        i = names.index(c)
        oth = [names[(i + k) % len(names)] for k in (0, 1, 7, 19)]
        return sorted(set(rel + oth), key=names.index)
    for c in names:
        x = bare(lib.cls[c])
        for f in meta["first"]:
            add(f, [x]); add(f, [x, t]); add(f, [x, s]); add(f, [x, s, s2]); add(f, [x, t, s, s2])
            add(f, [t, x]); add(f, [s, x])          # operator second for first-table functions (raises unless also in second)
        for f in meta["second"]:
            add(f, [t, x]); add(f, [t, x, s])
            if not f.startswith("torch.Tensor."):
                add(f, [s, x])
            add(f, [x, t])
        for sym in BINOPS:
            add("binop:" + sym, [x, t]); add("binop:" + sym, [t, x]); add("binop:" + sym, [x, s]); add("binop:" + sym, [s, x])
        for f in pair_funcs[:3]:
            add(f, [x, Foreign()]); add(f, [Foreign(), x])
        for d in partners(c):
            y = bare(lib.cls[d])
            for f in pair_funcs:
                add(f, [x, y])
            for sym in BINOPS:
                add("binop:" + sym, [x, y])
    return out


def kinds_of_objs(lib, args):
    ks = []
    for a in args:
        if isinstance(a, lib.root):
            ks.append(("op", type(a).__name__))
        elif torch.is_tensor(a):
            ks.append(("t",))
        elif isinstance(a, Foreign):
            ks.append(("foreign",))
        else:
            ks.append(("s",))
    return ks


def run_dispatch_case(lib, call, args):
    if call.startswith("binop:"):
        f = BINOPS[call[6:]][1]
    else:
        f = resolve_torch(call)
    lib.tf_log = []
    d, r = lib.observe(lambda: f(*args), args)
    if not call.startswith("binop:") and not lib.tf_log and r[0] == "err":
        return None                       # rejected by torch's own argument parser before any handler was consulted
    if d[0] == "none":
        d = ("raise", "OtherError")       # returned a value without any operator method: never expected
    return {"call": call, "kinds": kinds_of_objs(lib, args), "obs": d}


# ------------------------------------------------------------------------------------------ unregistered functions

def unregistered_cases(ctx, lib):
    """every overridable torch function that is in neither table, with an operator first and second"""
    import torch.overrides as TO
    funcs = []
    seen = set()
    for ns, fs in TO.get_overridable_functions().items():
        for f in fs:
            if f in lib.first or f in lib.second or id(f) in seen:
                continue
            seen.add(id(f))
            try:
                nm = TO.resolve_name(f)
            except Exception:
                nm = None
            if not nm or '"' in nm:
                continue
            funcs.append((nm, f))
    funcs.sort(key=lambda x: x[0])
    return funcs


def probe_unregistered(lib, f, op, second):
    """tries argument templates until the library's handler is reached; returns ('handled', outcome) | ('unreached',)"""
    t = torch.ones(3, 3, dtype=torch.float64)
    if second:
        temps = [(t, op), (t, op, t), (t, op, 0), (t, op, 1, 1), ([t, t], op), (0, op), (t, t, op)]
    else:
        temps = [(op,), (op, t), (op, 0), (op, t, t), (op, 0, 1), ([op, op],), ((op, op), 0), (op, [0]), (op, 1, 1, 1), (op, (1,)), (op, t, t, t)]
    for args in temps:
        lib.tf_log = []
        try:
            with warnings.catch_warnings():
                warnings.simplefilter("ignore")
                r = ("ok", f(*args))
        except Exception as ex:      # noqa
            r = ("err", ex)
        if any(g is f for _, g in lib.tf_log):
            return ("handled", r, len(args))
        if lib.tf_log:
            return ("delegated", r, len(args))       # f is a python wrapper that calls a (registered) function itself
    return ("unreached",)


def install_tf_probe(lib):
    """record every invocation of LinearOperator.__torch_function__ (the handler itself is left untouched: the
    recorder subclass-free wrapper calls the original classmethod's function with the same cls)"""
    orig = lib.root.__dict__["__torch_function__"]
    fn = orig.__func__
    lib.tf_log = []

    def rec(cls, func, types, args=(), kwargs=None):
        lib.tf_log.append((cls.__name__, func))
        return fn(cls, func, types, args, kwargs)
    lib.root.__torch_function__ = classmethod(rec)
    lib._tf_orig = orig


def uninstall_tf_probe(lib):
    if getattr(lib, "_tf_orig", None) is not None:
        lib.root.__torch_function__ = lib._tf_orig
        lib._tf_orig = None


# ------------------------------------------------------------------------------------------ run

def res_repr(r):
    if r is None:
        return None
    if r[0] == "err":
        return "raises %s: %s" % (type(r[1]).__name__, str(r[1])[:120])
    v = r[1]
    if torch.is_tensor(v):
        return {"shape": list(v.shape), "data": [float(x) for x in v.to(torch.float64).reshape(-1).tolist()][:64]}
    if isinstance(v, tuple):
        return [res_repr(("ok", x)) for x in v]
    return repr(v)[:100]


def expected_loud(case, out):
    """the call is outside what the property names for this operand position (division with the operator as the
    divisor, a function registered for the first position only called with the operator second, ...): a loud
    NotImplementedError / TypeError is a correct answer.  A VALUE is never exempt: it must be the dense value."""
    kinds = out["kinds"]
    call = case["call"]
    if len(kinds) < 2 or kinds[0][0] == "op" or kinds[1][0] != "op":
        return False
    if call.startswith("binop:"):
        return call[6:] == "/"
    return call not in REQUIRED_SECOND and call != "torch.isclose"


def outside_signature_loud(case, res):
    """scope decision (design_notes/C15.md): a 0-d tensor operand of add / sub is outside the operand shapes `... #M #N`
    that LinearOperator.__add__ documents; the library rejects it loudly (ValueError from DenseLinearOperator), which is
    accepted -- a VALUE returned for such a call must still be the dense value"""
    base = case["call"].replace("binop:", "").split(".")[-1]
    return case.get("okind") in ("0d", "const()") and base in ("add", "sub", "+", "-") and exn_name(res[1]) == "ValueError"


def cell_of(k):
    """coarse structural cell of a failing value case (the attribute known-finding keys are written against)"""
    f = k.get("fail", "")
    if k["call"] == "torch.add" and k["route"] == "second" and k["kw"] == "alpha" and f == "value" and k.get("swap"):
        return "add-alpha-second-misapplied"
    if k["sem"] == "isclose" and k["route"] == "second" and f == "value" and k.get("swap"):
        return "isclose-second-swapped"
    if k["route"] == "second" and k["kw"] == "alpha" and f == "raises:TypeError" and k["sem"] in ("add", "sub"):
        return "alpha-rejected-second"
    if k["class"] == "IdentityLinearOperator" and k["sem"] in ("mul", "div") and k["other"] in ("tensor", "operator") and f == "value":
        return "identity-mul-matrix"
    if k["class"] == "InterpolatedLinearOperator" and k["sem"] == "matmul" and k["other"] == "operator" and k["route"] == "first" and f == "raises:ValueError":
        return "interpolated-matmul-operator"
    if k["class"] == "ZeroLinearOperator" and f == "raises:AttributeError" and (
            (k["sem"] == "mul" and k["other"] == "scalar") or (k["sem"] in ("add", "sub") and k["route"] == "second")):
        return "zero-mul-scalar"
    if k["class"] == "ZeroLinearOperator" and k["sem"] in ("add", "sub") and k["other"] == "scalar" and f == "value":
        return "zero-add-scalar"
    if k["sem"] in ("add", "sub") and k["other"] == "scalar" and f.startswith("raises:"):
        return "scalar-addsub-unsupported"
    if k["class"] == "TriangularLinearOperator" and k["sem"] in ("mul", "div") and k["other"] == "tensor" and f in ("raises:RuntimeError", "value") \
            and str(k.get("okind", "")).startswith("const(") and k.get("okind") not in ("const()",) and not set(k["okind"][6:-1].split(",")) <= {"1"}:
        return "triangular-mul-batch-constants"
    extra = ("/pos%d" % k["npos"] if k.get("npos") else "") + ("/" + k["okind"] if k.get("okind") else "")
    return "%s/%s/%s/%s/%s/%s%s" % (k["class"], k["sem"], k["route"], k["other"], k["kw"], f, extra)


def check_value_case(ctx, lib, real, case):
    """runs a value case; evaluates the property predicate directly; returns (out, failure or None)"""
    out = run_call(lib, real, case)
    res, orc = out["res"], out["oracle"]
    fail = None
    if expected_loud(case, out) and res[0] == "err":
        # not among the registered second-argument functions: a loud NotImplementedError / TypeError is right
        if exn_name(res[1]) not in ("NotImplementedError", "TypeError"):
            fail = "raises:%s" % exn_name(res[1])
    elif orc[0] == "ok":
        if res[0] == "err":
            if not outside_signature_loud(case, res):
                fail = "raises:%s" % exn_name(res[1])
        elif not same_value(res[1], orc[1]):
            fail = "value"
    else:
        # the dense computation itself raises (e.g. Tensor / unsupported): the operator call must raise as well
        if res[0] == "ok":
            fail = "no-raise"
    mres = method_call(lib, out, case)
    out["method"] = mres
    if fail is None and mres is not None:
        if mres[0] != res[0] or (res[0] == "ok" and not same_value(res[1], mres[1])):
            fail = "differs-from-method"
    if fail is None:
        eres = expected_method_call(lib, out, case)
        out["expected_method"] = eres
        if eres is not None and not same_outcome(res, eres) and not (
                res[0] == "ok" and eres[0] == "err" and outside_signature_loud(case, eres)):
            fail = "differs-from-expected-method"
    return out, fail


# ------------------------------------------------------------------------------------------ call sequences (Q)

def _sym_ok(V, w, dn):
    I = torch.eye(dn.shape[-1], dtype=dn.dtype).expand(V.shape).contiguous()
    return same_value(V @ torch.diag_embed(w) @ V.mT, dn, F_TOL) and same_value(V.mT @ V, I, F_TOL) \
        and same_value(torch.sort(w, -1)[0], torch.linalg.eigvalsh(dn), F_TOL)


def _svals_ok(S, dn):
    return same_value(torch.sort(S, -1, descending=True)[0], torch.linalg.svdvals(dn), F_TOL)


# handle -> (group, call on the operator, predicate on (plain result, dense matrix, rhs)).  Each predicate states what
# the call MEANS by its own API (op.svd() returns V, torch.linalg.svd returns V^T, ...), against plain torch on the dense matrix.
HANDLES = {
    "op.svd()": ("svd", lambda op, rhs: op.svd(), lambda r, dn, rhs: same_value(r[0] @ torch.diag_embed(r[1]) @ r[2].mT, dn, F_TOL) and _svals_ok(r[1], dn)),
    "torch.linalg.svd(op)": ("svd", lambda op, rhs: torch.linalg.svd(op), lambda r, dn, rhs: same_value(r[0] @ torch.diag_embed(r[1]) @ r[2], dn, F_TOL) and _svals_ok(r[1], dn)),
    "op.eigh()": ("eig", lambda op, rhs: op.eigh(), lambda r, dn, rhs: _sym_ok(r[1], r[0], dn)),
    "torch.linalg.eigh(op)": ("eig", lambda op, rhs: torch.linalg.eigh(op), lambda r, dn, rhs: _sym_ok(r[1], r[0], dn)),
    "op.eigvalsh()": ("eig", lambda op, rhs: op.eigvalsh(), lambda r, dn, rhs: same_value(torch.sort(r, -1)[0], torch.linalg.eigvalsh(dn), F_TOL)),
    "torch.linalg.eigvalsh(op)": ("eig", lambda op, rhs: torch.linalg.eigvalsh(op), lambda r, dn, rhs: same_value(torch.sort(r, -1)[0], torch.linalg.eigvalsh(dn), F_TOL)),
    "op.cholesky()": ("chol", lambda op, rhs: op.cholesky(), lambda r, dn, rhs: same_value(r, torch.linalg.cholesky(dn), F_TOL)),
    "op.cholesky(upper=True)": ("chol", lambda op, rhs: op.cholesky(upper=True), lambda r, dn, rhs: same_value(r, torch.linalg.cholesky(dn, upper=True), F_TOL)),
    "torch.linalg.cholesky(op)": ("chol", lambda op, rhs: torch.linalg.cholesky(op), lambda r, dn, rhs: same_value(r, torch.linalg.cholesky(dn), F_TOL)),
    "torch.linalg.cholesky(op, upper=True)": ("chol", lambda op, rhs: torch.linalg.cholesky(op, upper=True), lambda r, dn, rhs: same_value(r, torch.linalg.cholesky(dn, upper=True), F_TOL)),
    "op.logdet()": ("chol", lambda op, rhs: op.logdet(), lambda r, dn, rhs: same_value(r, torch.logdet(dn), F_TOL)),
    "torch.logdet(op)": ("chol", lambda op, rhs: torch.logdet(op), lambda r, dn, rhs: same_value(r, torch.logdet(dn), F_TOL)),
    "op.solve(rhs)": ("chol", lambda op, rhs: op.solve(rhs), lambda r, dn, rhs: same_value(r, torch.linalg.solve(dn, rhs), F_TOL)),
    "torch.linalg.solve(op, rhs)": ("chol", lambda op, rhs: torch.linalg.solve(op, rhs), lambda r, dn, rhs: same_value(r, torch.linalg.solve(dn, rhs), F_TOL)),
    "op.diagonal()": ("diag", lambda op, rhs: op.diagonal(), lambda r, dn, rhs: same_value(r, torch.diagonal(dn, dim1=-2, dim2=-1), F_TOL)),
    "torch.diagonal(op, dim1=-2, dim2=-1)": ("diag", lambda op, rhs: torch.diagonal(op, dim1=-2, dim2=-1), lambda r, dn, rhs: same_value(r, torch.diagonal(dn, dim1=-2, dim2=-1), F_TOL)),
    "torch.sum(op, -1)": ("diag", lambda op, rhs: torch.sum(op, -1), lambda r, dn, rhs: same_value(r, dn.sum(-1), F_TOL)),
}
QUICK_SKIP = {"op.cholesky(upper=True)", "op.eigvalsh()"}


def sequence_cases(ctx, rng, lib):
    """Layer Q: call SEQUENCES on ONE operator object (the library memoises factorizations on the object): for every
    ordered pair (a, b) of handles of one group -- the method and the torch function that reach the same or related
    handlers -- the calls a, b, a are made on a fresh positive definite reference instance and EACH result is compared
    with plain torch on the dense matrix, by the meaning of its own API."""
    groups = {}
    for h, (g, _, _) in HANDLES.items():
        if ctx.quick and h in QUICK_SKIP:
            continue
        groups.setdefault(g, []).append(h)
    cases = []
    for cname, e in psd_instances(ctx, rng, lib):
        if cname == "TriangularLinearOperator":
            continue              # not symmetric
        dn = ob.dense(e)
        rhs = rt(rng, list(dn.shape[:-1]) + [2])
        for g, hs in sorted(groups.items()):
            for a in hs:
                for b in hs:
                    if a != b:
                        cases.append({"seq": True, "op": e, "class": cname, "group": g, "steps": [a, b, a], "rhs": rhs, "dtype": "float64"})
    return cases


def run_sequence(lib, case):
    """returns (failure dict | None, per-step outcomes)"""
    op = ob.build(case["op"])
    dn = ob.dense(case["op"])
    rhs = ob.tt(case["rhs"])
    outs = []
    fail = None
    for k, h in enumerate(case["steps"]):
        _, call, pred = HANDLES[h]
        try:
            with warnings.catch_warnings():
                warnings.simplefilter("ignore")
                r = ("ok", to_plain(call(op, rhs), lib.root))
        except Exception as ex:          # noqa
            r = ("err", ex)
        outs.append(r)
        if fail is None:
            if r[0] == "err":
                if not isinstance(r[1], NotImplementedError):
                    fail = {"step": k, "handle": h, "fail": "raises:%s" % exn_name(r[1])}
            else:
                try:
                    ok = bool(pred(r[1], dn, rhs))
                except Exception:        # noqa
                    ok = False
                if not ok:
                    fail = {"step": k, "handle": h, "fail": "value"}
    return fail, outs


def seq_key(case, fail):
    before = case["steps"][:fail["step"]]
    return {"call": "sequence", "group": case["group"], "class": case["class"], "handle": fail["handle"], "after": " ; ".join(before) or "nothing",
            "fail": fail["fail"], "cell": "sequence/%s/%s/after[%s]/%s" % (case["class"], fail["handle"], " ; ".join(before), fail["fail"])}


# ------------------------------------------------------------------------------------------ shrinking / reporting

CLASS_RANK = {"DenseLinearOperator": 0, "DiagLinearOperator": 1, "UserMinimal": 2}


def value_key(case, out, fail, real):
    k2 = dict(describe_case(case, out), fail=fail)
    if fail == "value" and k2["route"] == "second":
        k2["swap"] = swap_explains(case, out, real)
    k2["cell"] = cell_of(k2)
    return k2


def _arg_tensor(a):
    if a["k"] == "op":
        return ob.dense(a["e"])
    if a["k"] == "t":
        return ob.tt(a["t"])
    return None


def _with_tensor(a, x):
    if a["k"] == "op":
        return a_op(dense_expr(x))
    return {"k": "t", "t": tspec(x.shape, x.reshape(-1).tolist())}


def shrink_candidates(case):
    """simpler variants of a failing value case, most aggressive first within each family"""
    args = case["args"]
    mk = lambda **ch: dict(case, **ch)
    # the operator(s) as plain DenseLinearOperators of the same values
    if any(a["k"] == "op" and a["e"].get("cls") != "Dense" for a in args):
        yield mk(args=[_with_tensor(a, ob.dense(a["e"])) if a["k"] == "op" else a for a in args])
    ts = [_arg_tensor(a) for a in args]
    dense_only = all(a["k"] != "op" or a["e"].get("cls") == "Dense" for a in args)
    if dense_only:
        nb = [max(0, t.dim() - 2) if t is not None else 0 for t in ts]
        top = max(nb)
        if top > 0:
            yield mk(args=[_with_tensor(a, t[0]) if (t is not None and n == top) else a for a, t, n in zip(args, ts, nb)])
        opi = [i for i, a in enumerate(args) if a["k"] == "op"]
        sem = case["call"].split(".")[-1].replace("binop:", "")
        if opi and ts[opi[0]].shape[-1] > 2 or opi and ts[opi[0]].shape[-2] > 2:
            i0 = opi[0]
            new = []
            for i, (a, t) in enumerate(zip(args, ts)):
                if t is None or t.dim() == 0:
                    new.append(a)
                elif sem in ("matmul", "@") and i < 2 and i != i0 and a["k"] != "op":
                    if i < i0:      # left operand: its last dimension is contracted
                        new.append(_with_tensor(a, t[..., :2]))
                    else:           # right operand: its first matrix dimension is contracted
                        new.append(_with_tensor(a, t[:2] if t.dim() == 1 else t[..., :2, :]))
                elif t.dim() >= 2 and tuple(t.shape[-2:]) == tuple(ts[i0].shape[-2:]):
                    new.append(_with_tensor(a, t[..., :2, :2]))
                elif t.dim() >= 2 and tuple(t.shape[-2:]) == (1, 1):
                    new.append(a)
                else:
                    new = None
                    break
            if new is not None and sem in ("matmul", "@") and len(opi) > 1:
                new = None
            if new is not None:
                yield mk(args=new)
    kw = case.get("kw") or {}
    for k in sorted(kw):
        yield mk(kw={a: b for a, b in kw.items() if a != k})
    if len(args) > 2 and args[-1]["k"] == "s":
        yield mk(args=args[:-1])


def shrink_value_case(ctx, lib, real, case, out, k2, budget=40):
    """greedy shrinking: a candidate replaces the case when it still violates the property in the same way
    (same call, route, kind of the other operand, keyword class, failure kind) and is not a listed known finding"""
    want = {a: k2.get(a) for a in ("call", "route", "other", "fail")}
    cur = (case, out, k2)
    progress = True
    while progress and budget > 0:
        progress = False
        for cand in shrink_candidates(cur[0]):
            budget -= 1
            try:
                o2, f2 = check_value_case(ctx, lib, real, cand)
            except Exception:      # noqa
                continue
            if not f2:
                continue
            kk = value_key(cand, o2, f2, real)
            if any(kk.get(a) != v for a, v in want.items()) or common.kf_match(PROP, kk) is not None:
                continue
            cur = (cand, o2, kk)
            progress = True
            break
    return cur


def arg_text(a, obj):
    if a["k"] == "op":
        return "%s(shape %s)" % (type(obj).__name__, list(obj.shape))
    if a["k"] == "t":
        return "Tensor(shape %s)" % list(a["t"]["shape"])
    return repr(a["v"])


def call_text(case, out):
    args = [arg_text(a, o) for a, o in zip(case["args"], out["objs"])]
    kw = ["%s=%r" % (k, v) for k, v in sorted((case.get("kw") or {}).items())]
    c = case["call"]
    if c.startswith("binop:"):
        return "%s %s %s" % (args[0], c[6:], args[1])
    return "%s(%s)" % (c, ", ".join(args + kw))


def run(ctx):
    torch.set_num_threads(1)
    t0 = time.time()
    rng = random.Random(ctx.seed)
    tr_err = None
    last_good = fallback_meta()          # tables of the last successful translation (read before it is overwritten)
    try:
        meta = regenerate()
    except tr.Untranslatable as ex:
        meta, tr_err = None, str(ex)
    except Exception as ex:              # noqa -- a crash of the translator is a rejection too (fail closed)
        meta, tr_err = None, "translator crashed: %r" % (ex,)
    if meta is None:
        ctx.say("translator rejected the dispatch source:", tr_err)
        broken = {"kind": "translator-rejected-source", "error": tr_err,
                  "obligation": "coq/C15/gen/Dispatch.v could not be regenerated; the table theorems of coq/C15/Property.v are not re-proved"}
        found = 0
        # the search does not need the translator: tables and class hierarchy by introspection of the imported package
        try:
            imeta = tr.introspect(common.REPO, extra_classes=extra_classes(), last_good=last_good)
        except Exception:                # noqa
            ctx.say(traceback.format_exc()[-600:])
            imeta = last_good
        if imeta is not None:
            try:
                found = search_impl(ctx, imeta, rng, broken)
            except Exception:            # noqa
                ctx.say(traceback.format_exc()[-1500:])
        if not found:
            ctx.violation(broken, no_input=True)
        ctx.coverage.update({"obligations": len(common.property_obligations(PROP)), "discharged": 0, "checker_cmd": "translator failed",
                             "trusted_base": common.COQ_TRUSTED, "evaluations": 0, "distinct_nontrivial": 0, "rule": "translator failed",
                             "samples": [tr_err]})
        return

    def on_fail(info):
        return search_impl(ctx, meta, random.Random(ctx.seed), {"kind": "broken-proof-obligation", "obligation": info}) > 0
    ok = common.proof_stage(ctx, on_fail)
    if not ok:
        ctx.coverage.update({"trusted_base": common.COQ_TRUSTED, "evaluations": 0, "distinct_nontrivial": 0, "rule": "proof stage failed",
                             "samples": []})
        return
    stats = correspondence(ctx, meta, rng, coq=True)
    ctx.coverage.update(stats)
    ctx.coverage["wall_breakdown_s"] = dict(stats.get("wall_breakdown_s", {}), total=round(time.time() - t0, 1))


def search_impl(ctx, meta, rng, broken=None):
    """the proof / translator failed: search the implementation for a concrete failing input with the direct
    predicate only -- first at the quick width (answers within seconds for most changes), then at the thorough width"""
    class Quick:
        quick = True
        seed = ctx.seed

    class Thorough:
        quick = False
        seed = ctx.seed
    total = 0
    for width in (Quick, Thorough):
        stats = correspondence(ctx, meta, random.Random(ctx.seed), coq=False, width=width, broken=broken)
        total += stats.get("reported", 0)
        if total:
            break
    return total


def correspondence(ctx, meta, rng, coq=True, width=None, broken=None):
    """coq=False: search mode (direct predicate only; a harness error on one case must not stop the search)"""
    w = width or ctx
    search = not coq
    harness_errors = []

    def guarded(fn, *a):
        if not search:
            return fn(*a)
        try:
            return fn(*a)
        except Exception:        # noqa
            harness_errors.append(traceback.format_exc()[-400:])
            return None
    gen = os.path.join(common.COQ, PROP, "gen")
    for fn_ in os.listdir(gen):
        if fn_.startswith("cases_") or fn_.startswith(".cases_"):
            try:
                os.remove(os.path.join(gen, fn_))
            except OSError:
                pass
    lib = Lib(meta)
    real = Real()
    tb = {}
    reported = 0
    t1 = time.time()
    shards = []
    # ---- R: resolution
    rcases = []
    for c in meta["classes"]:
        K = lib.cls[c]
        for nm in meta["relevant"]:
            if nm in ("__getattr__", "__getattribute__"):
                continue            # attribute hooks: the translator requires that no library class defines them
            v = getattr(K, nm, None)
            definer = None
            if v is not None:
                fn = getattr(v, "__func__", v)
                for k2 in K.__mro__:
                    w_ = k2.__dict__.get(nm)
                    if w_ is not None and (w_ is fn or getattr(w_, "__func__", None) is fn or w_ is v):
                        definer = k2.__name__
                        break
                qn = getattr(fn, "__qualname__", "")
                if definer is None or (qn and "<locals>" not in qn and qn.split(".")[0] != definer):
                    definer = definer or "?"
            rcases.append((c, nm, definer))
    for i in range(0, len(rcases), 2000):
        shards.append(("c15_r%d" % (i // 2000), rshard(rcases[i:i + 2000]), ("r", i)))
    # ---- D: dispatch
    lib.install()
    dcs = []
    n_parser = 0
    foreign_seen = set()
    try:
        install_tf_probe(lib)
        for call, args in dispatch_cases(w, lib):
            dc = guarded(run_dispatch_case, lib, call, args)
            if dc is None:
                n_parser += 1
            else:
                dcs.append(dc)
                if any(k[0] == "foreign" for k in dc["kinds"]) and not (dc["obs"][0] == "raise" and dc["obs"][1] in ("NotImplementedError", "TypeError")) \
                        and sum(1 for _ in foreign_seen) < 4 and (call, dc["kinds"][0][0]) not in foreign_seen:
                    foreign_seen.add((call, dc["kinds"][0][0]))
                    # direct predicate: an operand of an unrelated class with its own __torch_function__ (that declines) is
                    # never handed to an operator method / densified (C15_foreign_type_raises)
                    opc = next(k[1] for k in dc["kinds"] if k[0] == "op")
                    reported += bool(ctx.violation(
                        dict({"kind": "foreign-operand-not-rejected",
                              "call": "%s(%s)" % (call, ", ".join("Foreign()" if k[0] == "foreign" else "%s instance" % k[1] if k[0] == "op" else k[0] for k in dc["kinds"])),
                              "what": "an operand whose class is neither Tensor nor LinearOperator (own __torch_function__ returning NotImplemented) "
                                      "must make the handler raise NotImplementedError; instead an operator method ran on it",
                              "observed": [str(x) for x in dc["obs"]]}, **({"broken_obligation": broken} if broken else {})),
                        key={"call": call, "fail": "foreign-not-rejected", "class": opc}))
        n_dispatch_only = len(dcs)
        tb["dispatch_s"] = round(time.time() - t1, 1)
        t1 = time.time()
        # ---- U: unregistered
        ucs = []
        unreached = []
        ufuncs = unregistered_cases(w, lib)
        probes = [("DenseLinearOperator", lambda: ob.build(ob.gen(rng, "Dense", m=3))),
                  ("DiagLinearOperator", lambda: ob.build(ob.gen(rng, "Diag", m=3)))]
        if not getattr(w, "quick", True):
            probes += [("ZeroLinearOperator", lambda: ob.build(ob.gen(rng, "Zero", m=3))),
                       ("UserMinimal", lambda: ob.build(ob.gen(rng, "UserMinimal", m=3)))]
        n_u = 0
        for pi, (pc, mk) in enumerate(probes):
            op = mk()
            for fi, (nm, f) in enumerate(ufuncs):
                if getattr(w, "quick", True) and pi > 0 and fi % 7 != 0:
                    continue
                for second in (False, True):
                    r = probe_unregistered(lib, f, op, second)
                    n_u += 1
                    if r[0] != "handled":
                        unreached.append((nm, second, r[0]))
                        continue
                    res = r[1]
                    if res[0] == "err" and isinstance(res[1], NotImplementedError):
                        obs = ("raise", "NotImplementedError")
                    elif res[0] == "err":
                        obs = ("raise", exn_name(res[1]))
                    else:
                        obs = ("raise", "OtherError")
                    kinds = [("op", pc)] + [("t",)] * (r[2] - 1) if not second else [("t",), ("op", pc)] + [("t",)] * (r[2] - 2)
                    ucs.append({"call": nm, "kinds": kinds, "obs": obs})
                    if obs != ("raise", "NotImplementedError"):
                        # direct predicate: an unregistered function did not raise NotImplementedError
                        reported += bool(ctx.violation(
                            dict({"kind": "unregistered-function-not-rejected", "function": nm, "class": pc, "operator_second": second,
                                  "call": "%s(%s)" % (nm, ", ".join(["Tensor(3,3)" if second else pc] + ([pc] if second else []) + ["..."] * (r[2] - (2 if second else 1)))),
                                  "observed": res_repr(res)}, **({"broken_obligation": broken} if broken else {})),
                            key={"call": nm, "fail": "unregistered-not-rejected", "class": pc}))
        tb["unregistered_s"] = round(time.time() - t1, 1)
        t1 = time.time()
        # ---- V: values
        insts, skipped = instances(w, rng, lib)
        vcs = value_cases(w, rng, lib, insts)
        vouts = []
        keys_seen = {}
        fails = {}

        def one_value(case, sink):
            out, fail = check_value_case(ctx, lib, real, case)
            key = describe_case(case, out)
            sink.append((case, out, fail, key))
            keys_seen[json.dumps({k: key.get(k) for k in ("call", "route", "other", "kw", "class", "npos", "okind")}, sort_keys=True)] = 1
            # a dispatch observation comes for free with every value case
            parser_rejected = (not case["call"].startswith("binop:") and not out.get("handler_reached") and out["res"][0] == "err")
            if not (out["disp"][0] == "call" and -1 in out["disp"][3]) and not parser_rejected:
                dcs.append({"call": case["call"], "kinds": out["kinds"], "obs": out["disp"] if out["disp"][0] != "none" else ("raise", "OtherError")})
            if fail:
                k2 = value_key(case, out, fail, real)
                sig = json.dumps(k2, sort_keys=True)
                if sig not in fails:
                    fails[sig] = (k2, case, out)
        for ci, case in enumerate(vcs):
            guarded(one_value, case, vouts)
        tb["values_s"] = round(time.time() - t1, 1)
        t1 = time.time()
        # ---- X: direct predicate only (operand kinds / keywords / extra positional arguments / both orders;
        #         generated without the translator's tables except for "what else is registered")
        xcs = direct_cases(w, rng, lib)
        xouts = []
        for case in xcs:
            guarded(one_value, case, xouts)
        tb["direct_s"] = round(time.time() - t1, 1)
        t1 = time.time()
        # ---- F: one-operand functions
        fcs = function_cases(w, rng, lib, insts)
        fouts = []
        ffails = {}
        fkeys_seen = set()

        def one_function(case):
            out, fail = check_function_case(lib, real, case)
            fouts.append((case, out, fail))
            fkeys_seen.add((case["call"], next((x[1] for x in out["kinds"] if x[0] == "op"), None),
                            json.dumps(sorted((case.get("kw") or {}).keys())), len(case["args"]), case["l2"]))
            dcs.append({"call": case["call"], "kinds": out["kinds"], "obs": out["disp"] if out["disp"][0] != "none" else ("raise", "OtherError")})
            if fail:
                k2 = fkey(case, out, fail)
                sig = json.dumps(k2, sort_keys=True)
                if sig not in ffails:
                    ffails[sig] = (k2, case, out)
        for case in fcs:
            guarded(one_function, case)
        tb["functions_s"] = round(time.time() - t1, 1)
        t1 = time.time()
        # ---- Q: call sequences on one operator object (direct predicate only)
        qcs = sequence_cases(w, rng, lib)
        qfails = {}
        q_steps = 0
        saved_depth, lib.depth = lib.depth, 1          # the spies stay silent
        try:
            for case in qcs:
                r = guarded(run_sequence, lib, case)
                q_steps += len(case["steps"])
                if r is not None and r[0] is not None:
                    k2 = seq_key(case, r[0])
                    sig = json.dumps({a: k2[a] for a in ("class", "handle", "after", "fail")}, sort_keys=True)
                    if sig not in qfails or r[0]["step"] < qfails[sig][2]["step"]:
                        qfails[sig] = (k2, case, r[0], r[1])
        finally:
            lib.depth = saved_depth
        tb["sequences_s"] = round(time.time() - t1, 1)
        t1 = time.time()
        # ---- shrink the failing value cases that are not listed known findings (simplest operator class first)
        fail_rank = lambda f: 0 if f == "value" else (1 if f == "no-raise" else (2 if str(f).startswith("raises") else 3))
        order = sorted(fails.items(), key=lambda kv: (CLASS_RANK.get(kv[1][0].get("class"), 9), fail_rank(kv[1][0].get("fail")), kv[0]))
        to_report = []
        n_new = 0
        for sig, (k2, case, out) in order:
            if common.kf_match(PROP, k2) is not None:
                to_report.append((k2, case, out, None))
                continue
            n_new += 1
            if n_new <= 12:
                c2, o2, kk = shrink_value_case(ctx, lib, real, case, out, k2)
                to_report.append((kk, c2, o2, case if c2 is not case else None))
            else:
                to_report.append((k2, case, out, None))
        tb["shrink_s"] = round(time.time() - t1, 1)
        t1 = time.time()
    finally:
        uninstall_tf_probe(lib)
        lib.uninstall()
    extra_info = {}
    if broken is not None:
        extra_info["broken_obligation"] = broken
    if harness_errors:
        ctx.say("search: %d cases could not be evaluated by the harness (first: %s)" % (len(harness_errors), harness_errors[0][-200:]))
    # report direct-predicate failures (one per structural key)
    for (k2, case, out, orig) in to_report:
        if ctx.violations >= 40:
            break           # enough concrete failing inputs; the remaining distinct keys are counted in the evidence
        rp = {"kind": "dispatch-value-mismatch", "call": call_text(case, out),
              "case": {"call": case["call"], "args": case["args"], "kw": case["kw"], "dtype": case.get("dtype", "float64")},
              "observed": res_repr(out["res"]), "through_method": res_repr(out.get("method")), "dense_oracle": res_repr(out["oracle"]),
              "dispatched": list(out["disp"]),
              "what": "%s: the call on the operator disagrees with %s" % (
                  call_text(case, out), {"differs-from-method": "the method the dispatcher reached, called directly",
                                         "differs-from-expected-method": "the corresponding method"}.get(k2["fail"], "torch on the densified operands"))}
        if orig is not None:
            rp["shrunk_from"] = {"call": orig["call"], "args": orig["args"], "kw": orig["kw"]}
        rp.update(extra_info)
        reported += bool(ctx.violation(rp, key=k2))
    for sig, (k2, case, f_, outs) in sorted(qfails.items(), key=lambda kv: (CLASS_RANK.get(kv[1][0]["class"], 9), kv[1][2]["step"], kv[0])):
        if ctx.violations >= 40:
            break
        steps = case["steps"][:f_["step"] + 1]
        rp = {"kind": "call-sequence-mismatch", "call": "op = %s(shape %s); %s" % (case["class"], list(ob.dense(case["op"]).shape), "; ".join(steps)),
              "case": {"seq": True, "op": case["op"], "class": case["class"], "group": case["group"], "steps": steps, "rhs": case["rhs"], "dtype": "float64"},
              "observed": [res_repr(o) for o in outs[:f_["step"] + 1]],
              "what": "on ONE operator object, after %s the call %s no longer means what its API says (compared with plain torch on the dense matrix)" % (
                  " ; ".join(steps[:-1]) or "no earlier call", f_["handle"])}
        rp.update(extra_info)
        reported += bool(ctx.violation(rp, key=k2))
    for sig, (k2, case, out) in sorted(ffails.items()):
        rp = {"kind": "function-dispatch-mismatch", "call": call_text(case, out),
              "case": {"call": case["call"], "args": case["args"], "kw": case["kw"], "dtype": case.get("dtype", "float64"),
                       "l2": case["l2"], "cmp": case["cmp"], "fargs": case["fargs"], "function": True},
              "observed": res_repr(out["res"]), "through_method": res_repr(out.get("method")), "dense_oracle": res_repr(out["oracle"]),
              "dispatched": list(out["disp"]),
              "what": "torch.f(op, ...) disagrees with %s" % ("op.method(...)" if k2["layer"] == "method" else "torch.f(dense, ...)")}
        rp.update(extra_info)
        reported += bool(ctx.violation(rp, key=k2))
    stats = {"reported": reported}
    if not coq:
        return stats
    # ---- Coq shards
    n_dcs_all = len(dcs)
    seen_d = set()
    dcs_u = []
    for c in dcs:           # the model's answer depends on (call, kinds) only: one Coq evaluation per distinct observation
        sig = json.dumps([c["call"], c["kinds"], c["obs"]])
        if sig not in seen_d:
            seen_d.add(sig)
            dcs_u.append(c)
    dcs = dcs_u
    for i in range(0, len(dcs), DSH):
        shards.append(("c15_d%d" % (i // DSH), dshard(dcs[i:i + DSH]), ("d", i)))
    for i in range(0, len(ucs), DSH):
        shards.append(("c15_u%d" % (i // DSH), dshard(ucs[i:i + DSH]), ("u", i)))
    for i in range(0, len(vouts), VSH):
        chunk = vouts[i:i + VSH]
        shards.append(("c15_v%d" % (i // VSH), vshard(lambda: [vcase_lit(c, o, real) for (c, o, f, k) in chunk]), ("v", i)))
    for i in range(0, len(fouts), VSH):
        chunk = fouts[i:i + VSH]
        shards.append(("c15_f%d" % (i // VSH), fshard(lambda: [fcase_lit(c, o, real) for (c, o, f) in chunk]), ("f", i)))
    res = common.run_shards(ctx, [(n, s) for n, s, _ in shards])
    tb["coq_shards_s"] = round(time.time() - t1, 1)
    mism = {"r": [], "d": [], "u": [], "v": [], "f": [], "spec": []}
    for name, _, (kind, base) in shards:
        rc, out = res[name]
        lists = parse_lists(out) if rc == 0 else []
        if len(lists) != (2 if kind == "v" else 1):
            ctx.violation({"kind": "shard-failed", "shard": name, "out": out[-600:]}, no_input=True)
            continue
        mism[kind] += [base + b for b in lists[0]]
        if kind == "v":
            mism["spec"] += [base + b for b in lists[1]]
    for i in mism["r"][:5]:
        ctx.violation({"kind": "model-implementation-disagreement", "layer": "resolution", "class": rcases[i][0], "name": rcases[i][1],
                       "python_definer": rcases[i][2], "correspondence": "coq/C15/Check.v rcase_ok (resolve W vs getattr)"}, no_input=True)
    for kind, lst in (("d", dcs), ("u", ucs)):
        for i in mism[kind][:5]:
            c = lst[i]
            ctx.violation({"kind": "model-implementation-disagreement", "layer": "dispatch", "call": c["call"], "arg_kinds": c["kinds"],
                           "observed": list(c["obs"]), "correspondence": "coq/C15/Check.v dcase_ok (dispatch W vs the spied package)"}, no_input=True)
    n_model_dis = n_f32_rounded = 0
    for i in mism["v"]:
        case, out, fail, key = vouts[i]
        if fail and fail != "differs-from-method":
            continue        # the implementation violates the property here (reported above with its key); the model follows the contract
        if (not fail and case.get("dtype", "float64") == "float32" and out["res"][0] != "err" and out["oracle"][0] != "err"
                and same_value(out["res"][1], out["oracle"][1], F32_VALUE_TOL)):
            # single precision: the exact rational answer of the model and a legitimately rounded float32 result differ by more
            # than the 1e-9 of Check.v (RootLinearOperator * 2 scales the root by sqrt 2); the direct predicate, with the float32
            # tolerance, has accepted the value against torch on the dense operands
            n_f32_rounded += 1
            continue
        n_model_dis += 1
        if n_model_dis <= 5:
            ctx.violation({"kind": "model-implementation-disagreement", "layer": "value", "case": {"call": case["call"], "args": case["args"], "kw": case["kw"]},
                           "observed": res_repr(out["res"]), "dense_oracle": res_repr(out["oracle"]), "dispatched": list(out["disp"]),
                           "correspondence": "coq/C15/Check.v vcase_ok (contract of the dispatched method in TQ vs the implementation)"}, no_input=True)
    for i in mism["spec"][:5]:
        case, out, fail, key = vouts[i]
        ctx.violation({"kind": "model-implementation-disagreement", "layer": "spec-vs-torch", "case": {"call": case["call"], "args": case["args"], "kw": case["kw"]},
                       "dense_oracle": res_repr(out["oracle"]),
                       "correspondence": "coq/C15/Check.v vcase_spec_ok (den_expected in TQ vs torch on dense tensors)"}, no_input=True)
    n_f_dis = 0
    for i in mism["f"]:
        case, out, fail = fouts[i]
        if fail:
            continue
        n_f_dis += 1
        if n_f_dis <= 5:
            ctx.violation({"kind": "model-implementation-disagreement", "layer": "function", "case": {"call": case["call"], "args": case["args"], "kw": case["kw"]},
                           "observed": res_repr(out["res"]), "through_method": res_repr(out.get("method")), "dispatched": list(out["disp"]),
                           "correspondence": "coq/C15/Check.v fcase_ok (pass-through dispatch + dense meaning of the structural functions)"}, no_input=True)
    nontriv = len(keys_seen) + len(fkeys_seen)
    dkeys = {json.dumps([c["call"], c["kinds"]]) for c in dcs}
    samples = []
    passing = [x for x in vouts if not x[2]] or vouts
    for (case, out, fail, key) in (passing[len(passing) // 3], passing[-1]):
        samples.append({"call": case["call"], "args": case["args"], "kw": case["kw"], "observed": res_repr(out["res"]),
                        "dispatched": list(out["disp"]), "key": key})
    stats.update({
        "trusted_base": common.COQ_TRUSTED + [
            "translator harness/c15_tables.py (Python ast + import-time introspection -> Gallina tables; fail-closed; runtime tables cross-checked against the source)",
            "hand tables coq/C15/Model.v expected / method_sem for the primitives __add__, mul, matmul and the one-operand functions "
            "(validated by the value correspondence for every class; the contracts of the 14 delegating root methods are PROVED from their translated bodies)",
            "python's object model as modelled in coq/C15/Model.v: MRO lookup, the binary-operator protocol, torch.overrides._get_overloaded_args",
            "correspondence harness harness/c15.py (spies on class __dict__ entries, opbuild builders and dense oracle, comparators coq/C15/Check.v incl. the rational tensor algebra TQ)"],
        "evaluations": len(rcases) + n_dcs_all + len(ucs) + len(vouts) + len(xouts) + len(fouts) + q_steps,
        "sequence_cases": len(qcs), "sequence_calls": q_steps, "sequence_failing_keys": len(qfails),
        "distinct_nontrivial": nontriv,
        "rule": "value cases (operator built by opbuild from small-integer data, real torch call, densified result) counted distinct by "
                "(call, route first/second, kind and shape class of the other operand, keyword, number of extra positional arguments, operator class; "
                "this includes the direct-predicate-only layer X) plus one-operand function cases counted distinct by "
                "(function, operator class, keyword names, number of positional arguments, with/without dense comparison); "
                "dispatch-only, resolution and unregistered-function cases are not counted",
        "resolution_cases": len(rcases), "dispatch_observations": n_dcs_all, "dispatch_cases": len(dcs), "distinct_dispatch_cells": len(dkeys),
        "dispatch_only_observations": n_dispatch_only, "dispatch_calls_rejected_by_torch_parser": n_parser,
        "unregistered_probes": n_u, "unregistered_reached_handler": len(ucs), "unregistered_unreached": len(unreached),
        "unregistered_functions": len(ufuncs),
        "value_cases": len(vouts), "float32_values_rounded_not_compared_with_the_exact_model": n_f32_rounded, "value_classes": len(insts), "function_cases": len(fouts),
        "direct_only_cases": len(xouts), "direct_only_failing": sum(1 for c, o, f, k in xouts if f),
        "direct_only_forms": sorted({"%s|%s|%s|pos%d" % (c["call"], c.get("okind"), ",".join(sorted(c["kw"])), max(0, len(c["args"]) - 2)) for c, o, f, k in xouts})[:400],
        "function_cases_with_dense_comparison": sum(1 for c, o, f in fouts if c["l2"]), "function_failing_keys": len(ffails),
        "function_model_disagreements_unexplained": n_f_dis, "instances_skipped_unhealthy": skipped,
        "direct_predicate_failing_keys": len(fails),
        "mismatches_model_vs_impl": {k: len(v) for k, v in mism.items()}, "model_disagreements_unexplained": n_model_dis,
        "samples": samples, "wall_breakdown_s": tb,
    })
    ctx.assumptions = [
        "operators are instances of the classes of linear_operator.operators (plus the harness's minimal user subclass); no other class in the process defines __torch_function__ "
        "except where stated (KForeign)",
        "the contracts of the primitives __add__, mul, matmul and of the one-operand methods are met by every class (validated by correspondence, owned by C01/C02)",
        "keyword arguments are passed by keyword (torch.add(x, y, alpha=a)), not positionally"]
    return stats


def replay(rp):
    torch.set_num_threads(1)
    try:
        meta = tr.introspect(common.REPO, extra_classes=extra_classes(), last_good=fallback_meta())
    except Exception:        # noqa
        meta = fallback_meta() or regenerate()
    lib = Lib(meta)
    real = Real()
    case = rp.get("case")
    if rp.get("broken_obligation"):
        print("broken obligation:", json.dumps(rp["broken_obligation"])[:600])
    if not case:
        print("replay file has no executable case:", json.dumps(rp)[:600])
        return 1
    lib.install()
    install_tf_probe(lib)
    try:
        class Dummy:
            pass
        if case.get("seq"):
            f_, outs = run_sequence(lib, case)
            for h, o in zip(case["steps"], outs):
                print("step      :", h, "->", str(res_repr(o))[:300])
            print("property failure: %s at %s" % (f_["fail"], f_["handle"]) if f_ else "property holds on this sequence")
            return 1 if f_ else 0
        if case.get("function"):
            out, fail = check_function_case(lib, real, case)
        else:
            out, fail = check_value_case(Dummy(), lib, real, case)
    finally:
        uninstall_tf_probe(lib)
        lib.uninstall()
    print("call      :", call_text(case, out), case.get("kw") or "")
    print("dispatched:", out["disp"])
    print("observed  :", res_repr(out["res"]))
    print("method    :", res_repr(out.get("method")))
    print("dense     :", res_repr(out["oracle"]))
    print("property failure: %s" % fail if fail else "property holds on this case")
    return 1 if fail else 0
