"""C13 — independent syntactic scan for in-place constructs, cross-checked against the translator's site table.

`own_ir.py` decides which source constructs become `InPlace` statements of the ownership IR.  A construct it overlooked would
silently weaken `C13_library_functions_owned` / `C13_operator_methods_owned` (the theorems quantify over the executions of the IR,
not of the Python source).  This module shares NO code with the translator: it walks the ast of every file of the package and lists

    call_         x.name_(...) / torch.name_(x, ...) with a trailing underscore, and the dunder in-place methods (__iadd__, __setitem__, ...)
    aug           augmented assignment  x += y,  x[i] *= y,  x.a -= y
    setitem       subscript assignment  x[i] = y  (also inside tuple targets)
    out           a call with an out= keyword
    inplace       a call with inplace=<not False>
    rebind-self   self.a = y  in a method that is not a constructor
    rebind-other  <anything but bare self>.a = y

with (module, line).  `crosscheck` demands that each of them is either an in-place site of the regenerated IR at that line (status
ok / allowed / failing) or is listed by the translator as skipped WITH a reason (python container, int counter, value-preserving method
permitted by the property, module state, autograd ctx).  Anything else is reported: the static theorems no longer cover the source.
"""
import ast
import os

DUNDER = {"__iadd__", "__isub__", "__imul__", "__itruediv__", "__ifloordiv__", "__imod__", "__ipow__", "__iand__", "__ior__", "__ixor__",
          "__ilshift__", "__irshift__", "__imatmul__", "__setitem__", "__delitem__", "__idiv__"}
CTORS = ("__init__", "__new__", "__setstate__", "__init_subclass__")


def _targets(t):
    if isinstance(t, (ast.Tuple, ast.List)):
        for e in t.elts:
            yield from _targets(e)
    elif isinstance(t, ast.Starred):
        yield from _targets(t.value)
    else:
        yield t


def scan_file(path, module):
    tree = ast.parse(open(path).read())
    out = []

    def visit(node, fname, in_class, in_func):
        for ch in ast.iter_child_nodes(node):
            if isinstance(ch, ast.ClassDef):
                visit(ch, fname, True, False)
                continue
            if isinstance(ch, (ast.FunctionDef, ast.AsyncFunctionDef)):
                for d in ch.decorator_list + ch.args.defaults + [x for x in ch.args.kw_defaults if x is not None]:
                    visit_expr_holder(d, fname, in_class, in_func)
                visit(ch, ch.name, in_class and not in_func, True)
                continue
            if isinstance(ch, ast.Lambda):
                visit(ch, "<lambda>", False, True)
                continue
            record(ch, fname, in_class, in_func)
            visit(ch, fname, in_class, in_func)

    def visit_expr_holder(e, fname, in_class, in_func):
        record(e, fname, in_class, in_func)
        visit(e, fname, in_class, in_func)

    def add(cat, node, text, in_func):
        out.append({"module": module, "line": node.lineno, "cat": cat, "text": text[:70], "in_function": in_func})

    def record(n, fname, in_class, in_func):
        if isinstance(n, ast.Call):
            f = n.func
            if isinstance(f, ast.Attribute):
                m = f.attr
                if (m.endswith("_") and not m.endswith("__") and not m.startswith("_")) or m in DUNDER:
                    add("call_", n, "." + m, in_func)
            for k in n.keywords:
                if k.arg == "out":
                    add("out", n, "out=", in_func)
                if k.arg == "inplace" and not (isinstance(k.value, ast.Constant) and k.value.value in (False, None)):
                    add("inplace", n, "inplace=", in_func)
        elif isinstance(n, ast.AugAssign):
            add("aug", n, ast.unparse(n.target) + " op= ...", in_func)
        elif isinstance(n, (ast.Assign, ast.AnnAssign)):
            tg = n.targets if isinstance(n, ast.Assign) else ([n.target] if n.value is not None else [])
            for t0 in tg:
                for t in _targets(t0):
                    if isinstance(t, ast.Subscript):
                        add("setitem", n, ast.unparse(t) + " = ...", in_func)
                    elif isinstance(t, ast.Attribute):
                        if isinstance(t.value, ast.Name) and t.value.id == "self":
                            if in_func and fname not in CTORS:
                                add("rebind-self", n, "self.%s = ..." % t.attr, in_func)
                        else:
                            add("rebind-other", n, ast.unparse(t) + " = ...", in_func)
        elif isinstance(n, (ast.For, ast.AsyncFor, ast.comprehension)):
            for t in _targets(n.target):
                if isinstance(t, ast.Subscript):
                    add("setitem", n if hasattr(n, "lineno") else n.target, ast.unparse(t) + " (loop target)", in_func)
        elif isinstance(n, (ast.With, ast.AsyncWith)):
            for it in n.items:
                if it.optional_vars is not None:
                    for t in _targets(it.optional_vars):
                        if isinstance(t, ast.Subscript):
                            add("setitem", n, ast.unparse(t) + " (with target)", in_func)
        elif isinstance(n, ast.NamedExpr):
            pass            # target is always a bare name

    visit(tree, "<module>", False, False)
    return out


def scan(repo):
    root = os.path.join(repo, "linear_operator")
    out = []
    for dp, dn, fs in os.walk(root):
        dn[:] = sorted(d for d in dn if d not in ("test", "__pycache__"))
        for f in sorted(fs):
            if f.endswith(".py"):
                p = os.path.join(dp, f)
                out += scan_file(p, os.path.relpath(p, repo))
    return out


def cat_of_why(why):
    if why.startswith("attr-rebind-other"):
        return "rebind-other"
    if why.startswith("attr-rebind"):
        return "rebind-self"
    if why.startswith("augassign"):
        return "aug"
    if why == "subscript-assign":
        return "setitem"
    if why == "out=":
        return "out"
    if why == "inplace=":
        return "inplace"
    if why.startswith("helper "):
        return "helper"
    if why.startswith(".") or why.startswith("torch."):
        return "call_"
    return "other:" + why


def crosscheck(found, meta):
    """-> (uncovered constructs, statistics)"""
    have = set()
    for t in meta["table"]:
        for s in t["sites"]:
            have.add((t["module"], s["line"], cat_of_why(s["why"])))
    skipped = set()
    for s in meta.get("skipped", []):
        skipped.add((s["module"], s["line"], cat_of_why(s["why"])))
    unc, n_site, n_skip = [], 0, 0
    for c in found:
        k = (c["module"], c["line"], c["cat"])
        if k in have:
            n_site += 1
        elif k in skipped:
            n_skip += 1
        elif c["cat"] == "inplace" and (c["module"], c["line"], "call_") in have:
            n_site += 1
        else:
            unc.append(c)
    per_dir = {}
    for c in found:
        d = c["module"].split("/")[1] if c["module"].count("/") >= 2 else "."
        per_dir[d] = per_dir.get(d, 0) + 1
    return unc, {"constructs_found": len(found), "are_ir_sites": n_site, "skipped_with_reason": n_skip, "uncovered": len(unc), "per_directory": per_dir,
                 "by_category": {c: sum(1 for x in found if x["cat"] == c) for c in sorted({x["cat"] for x in found})}}
