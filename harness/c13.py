"""C13 — no operation mutates caller-owned tensors or an existing operator's matrix.

tie      : translator harness/own_ir.py: every function of /repo -> SSA ownership IR (coq/C13/gen/OwnIR.v, regenerated on
           every run, fail-closed); per-function `own_check` obligations + refutation witnesses + return summaries are
           discharged by vm_compute against the checker proved sound in coq/C13/Own.v / Proofs.v (theorems: Property.v)
validation of what the translator trusts:
           (1) torch_ops.json classes vs the running torch (4 layouts) compared in Coq by Check.permits (shards),
           (2) closure assumption (operator _matmul/... and library-built preconditioners return fresh memory or their argument),
           (3) declared tensor-typed parameters (c13_types.json / annotations) checked by a profile hook on every call
search   : dynamic grid (harness/c13_dyn.py, c13_cases.py): public entry points x four layouts, `_version` / metadata /
           bitwise copy of every caller tensor (whole underlying buffer) before/after and to_dense() of pre-existing operators;
           a hit is localised to the library source line (sys.settrace) and is the concrete replay.
"""
import collections
import json
import os
import random
import time
import warnings

from . import common, own_ir

PROP = "C13"
HERE = os.path.dirname(os.path.abspath(__file__))


# ------------------------------------------------------------------------------------------------ translator

def regenerate():
    """translate common.REPO -> coq/C13/gen/OwnIR.v (+ own_table.json).  Raises own_ir.Untranslatable (fail-closed)."""
    gen = os.path.join(common.COQ, PROP, "gen")
    os.makedirs(gen, exist_ok=True)
    allow = json.load(open(os.path.join(HERE, "c13_allow.json")))
    fns, helpers = own_ir.analyze_package(common.REPO)
    src, table = own_ir.emit(fns, helpers, allow)
    p = os.path.join(gen, "OwnIR.v")
    if not os.path.exists(p) or open(p).read() != src:
        open(p, "w").write(src)
    used = {"%s:%s" % k: v for k, v in sorted(own_ir.USED.items())}
    meta = {
        "n_functions": len(fns), "n_programs": len(table), "helpers": {k: sorted(v[1]) for k, v in helpers.items()},
        "returns_fresh": sorted(own_ir.RETURNS_FRESH), "table": table, "used": used,
        "assumed_tensor_params": {"%s::%s" % (f.module, f.qual): sorted(set(f.assumed_tensor_params)) for f in fns if f.assumed_tensor_params},
        "allow_ids_used": sorted({a for t in table for a in t["allowed"]}),
        "allow_ids_unused": sorted({a["id"] for a in allow} - {a for t in table for a in t["allowed"]}),
        "skipped": list(own_ir.LAST_SKIPPED), "cache_fills": list(own_ir.CACHE_FILLS),
    }
    json.dump(meta, open(os.path.join(gen, "own_table.json"), "w"), indent=1)
    return meta


def failing_sites(meta):
    """distinct failing in-place sites: (module, qual, program kind, line, why, refutation lemma)"""
    out, seen = [], set()
    for t in meta["table"]:
        for f in t["failing"]:
            k = (t["module"], t["qual"], t["kind"], f["line"], f["why"])
            if k in seen:
                continue
            seen.add(k)
            out.append({"module": t["module"], "function": t["qual"], "program": t["kind"], "line": f["line"], "op": f["why"],
                        "refutation": f.get("refutation")})
    return out


# ------------------------------------------------------------------------------------------------ validation of trusted tables

def scan_stage(ctx, meta):
    """independent syntactic scan (harness/c13_scan.py) vs the translator's site table: no in-place construct of the package may be
    missing from the IR without a stated reason"""
    from . import c13_scan
    found = c13_scan.scan(common.REPO)
    unc, st = c13_scan.crosscheck(found, meta)
    for u in unc[:8]:
        ctx.violation({"kind": "in-place-construct-not-in-ir", "module": u["module"], "line": u["line"], "construct": u["cat"], "text": u["text"],
                       "inside_a_function": u["in_function"],
                       "what": "the independent scan finds an in-place construct at this line; the regenerated IR has no in-place site there and the "
                               "translator gives no reason for skipping it: C13_library_functions_owned / C13_operator_methods_owned do not cover it",
                       "correspondence": "harness/c13_scan.py vs coq/C13/gen/own_table.json"}, no_input=True)
    reasons = collections.Counter(x["reason"].split("`")[0].strip() for x in meta.get("skipped", []))
    st["skip_reasons"] = dict(reasons)
    return st


def op_table_stage(ctx, meta):
    import torch
    from . import c13_ops
    ops = json.load(open(os.path.join(HERE, "torch_ops.json")))
    rows, raised, vm, vf = c13_ops.table_observations(ops)
    SH = 400
    shards = [("optable_%d" % (i // SH), c13_ops.shard_source(rows[i:i + SH])) for i in range(0, len(rows), SH)]
    res = common.run_shards(ctx, shards)
    bad = []
    for si, (name, _) in enumerate(shards):
        rc, out = res[name]
        b = common.parse_coq_list_of_nat(out) if rc == 0 else None
        if b is None:
            ctx.violation({"kind": "shard-failed", "shard": name, "out": out[-500:]}, no_input=True)
            continue
        bad += [si * SH + x for x in b]
    names = "ov_recv ov_other same_obj bump_recv bump_other val_recv val_other meta_recv".split()
    for i in bad[:10]:
        r = rows[i]
        # the classification the translator trusts is contradicted by the running torch: the IR of every function using this
        # method may be unsound.  This is a defect of the (trusted) table, not of the library: no concrete library input.
        ctx.violation({"kind": "torch-ops-table-contradicted", "name": r["name"], "recipe": r["recipe"], "method_or_function": r["kind"],
                       "assumed_class": r["cls"], "layout": r["layout"], "observed": dict(zip(names, r["obs"])),
                       "correspondence": "coq/C13/Check.v permits (torch_ops.json class vs running torch)"}, no_input=True)
    newobj = c13_ops.new_object_violations(ops)
    for v in newobj[:5]:
        ctx.violation({"kind": "torch-ops-table-contradicted", "name": v[0], "layout": v[1], "what": "method assumed to return a new tensor object returned its receiver"}, no_input=True)
    # which names used by the library's source are (not) covered by a recipe
    used_m, used_f = set(), set()
    for k in meta["used"]:
        cat, _, nm = k.partition(":")
        if cat in ("fresh_method", "view_method", "maybe_view_method", "inplace_method", "metadata_inplace", "value_preserving"):
            used_m.add(nm)
        elif cat in ("fresh_function", "view_function"):
            if nm.startswith("torch."):
                used_f.add(nm[len("torch."):])
    non_tensor = {"numpy"}
    unval_m = sorted(m for m in used_m if m not in vm and hasattr(torch.Tensor, m) and m not in non_tensor)
    unval_f = sorted(f for f in used_f if f not in vf and f not in vm and not f[0].isupper() and f.split(".")[-1] not in (
        "arange", "zeros", "ones", "empty", "eye", "full", "randn", "rand", "randint", "randperm", "linspace", "logspace", "device", "dtype",
        "get_default_dtype", "set_default_dtype", "no_grad", "enable_grad", "finfo", "iinfo", "manual_seed", "tril_indices", "triu_indices"))
    return {"observations": len(rows), "contradictions": len(bad) + len(newobj), "raised": len(raised),
            "methods_validated": len(vm), "functions_validated": len(vf),
            "used_tensor_methods": len(used_m), "used_methods_without_recipe": unval_m, "used_functions_without_recipe": unval_f,
            "sample": [{k: (dict(zip(names, v)) if k == "obs" else v) for k, v in rows[j].items()} for j in (0, len(rows) // 2)]}


def closure_stage(ctx, quick):
    """closure assumption: results of the operator protocol methods and of library-built preconditioner closures share memory with
    their argument at most (never with the operator's own tensors); to_dense()/diagonal() return plain tensors."""
    import torch
    from . import c13_cases, c13_dyn, c13_ops, opbuild
    from linear_operator import settings
    checked, viol, skipped = 0, [], 0
    R = c13_cases.R
    for ci, cls in enumerate(opbuild.ALL):
        for lay in (c13_dyn.LAYOUTS if not quick else [c13_dyn.LAYOUTS[ci % 4], "contiguous"]):
            rng = random.Random("closure|%s|%s|%d" % (cls, lay, ctx.seed))
            ar = c13_dyn.Arena(lay)
            psd = cls in opbuild.PSD_CAPABLE
            try:
                with warnings.catch_warnings():
                    warnings.simplefilter("ignore")
                    op = ar.op(opbuild.gen(rng, cls, batch=[], m=4, psd=psd), "op")
            except Exception:
                skipped += 1
                continue
            owners = [w.owner for w in ar.watches]
            n, m = op.shape[-1], op.shape[-2]
            bs = tuple(op.shape[:-2])
            calls = {
                "_matmul": lambda: op._matmul(R(rng, *bs, n, 2)), "_t_matmul": lambda: op._t_matmul(R(rng, *bs, m, 2)),
                "matmul": lambda: op.matmul(R(rng, *bs, n, 2)), "to_dense": lambda: op.to_dense() + 0 if False else op.to_dense(),
                "_diagonal": lambda: op._diagonal(), "diagonal": lambda: op.diagonal(),
            }
            if psd:
                calls["solve"] = lambda: op.solve(R(rng, *bs, n, 2))
                calls["_solve"] = lambda: op._solve(R(rng, *bs, n, 2), op._solve_preconditioner() if hasattr(op, "_solve_preconditioner") else None)

                def precond():
                    with settings.min_preconditioning_size(1), settings.max_preconditioner_size(2):
                        p = op._preconditioner()[0]
                    return None if p is None else p(R(rng, *bs, n, 2))
                calls["preconditioner_closure"] = precond

                def spre():
                    with settings.min_preconditioning_size(1), settings.max_preconditioner_size(2):
                        p = op._solve_preconditioner()
                    return None if p is None else p(R(rng, *bs, n, 2))
                calls["solve_preconditioner_closure"] = spre
            for cname, f in calls.items():
                try:
                    with warnings.catch_warnings():
                        warnings.simplefilter("ignore")
                        r = f()
                except Exception:
                    skipped += 1
                    continue
                checked += 1
                if r is None:
                    continue
                if cname in ("to_dense", "_diagonal", "diagonal"):
                    if not isinstance(r, torch.Tensor):
                        viol.append({"class": cls, "call": cname, "layout": lay, "what": "result is %s, the translator assumes a plain tensor" % type(r).__name__})
                    continue            # to_dense() MAY alias the operator's tensor (classified maybe-view of the receiver)
                for t in c13_ops.tensors_in(r):
                    if any(c13_ops.overlaps(t, o) for o in owners):
                        viol.append({"class": cls, "call": cname, "layout": lay, "what": "result shares storage with the operator's own tensors"})
    for v in viol[:8]:
        ctx.violation(dict(v, kind="closure-assumption-contradicted",
                           correspondence="closure assumption of harness/own_ir.py (results of closures are fresh or alias their argument)"),
                      no_input=True)
    return {"closure_calls_checked": checked, "closure_calls_skipped": skipped, "closure_contradictions": len(viol)}


# ------------------------------------------------------------------------------------------------ dynamic search

def grid(ctx, only_functions=None, thorough=None):
    """the list of (case, layout) cells.  Utilities and histories: all four layouts.  Operator methods: quick = one layout per
    (class, method) cell, rotating deterministically (every class and every method meets all four); thorough = all four."""
    from . import c13_cases, c13_dyn
    thorough = (not ctx.quick) if thorough is None else thorough
    cells = []
    for c in c13_cases.utility_cases():
        for lay in c13_dyn.LAYOUTS:
            cells.append((c, lay, "utility"))
    # operator methods: quick = every (class, method) once, variant (batch shape / tree depth / dtype) and layout rotating so that
    # 16 consecutive cells cover all (variant, layout) pairs; thorough = all variants x all layouts
    vn = list(c13_cases.VARIANTS)
    if thorough:
        for c in c13_cases.operator_cases():
            for lay in c13_dyn.LAYOUTS:
                cells.append((c, lay, "operator"))
    else:
        per_variant = {v: c13_cases.operator_cases(variants=[v]) for v in vn}
        n = len(per_variant[vn[0]])
        for ci in range(n):
            v = vn[((ci // 4) + ctx.seed) % 4]
            cells.append((per_variant[v][ci], c13_dyn.LAYOUTS[(ci + ctx.seed) % 4], "operator"))
    # utilities called directly on degenerate shapes (1x1, single probe / batch, size-1 dims) x sign patterns: all four layouts, both tiers
    for c in c13_cases.degenerate_utility_cases():
        for lay in c13_dyn.LAYOUTS:
            cells.append((c, lay, "degenerate"))
    # backward passes with explicit caller-owned gradient tensors (every custom autograd Function; all outputs of one call):
    # quick = two classes in all four layouts, the others with the layout rotating; thorough = all four
    for k, c in enumerate(c13_cases.backward_grad_cases()):
        full = thorough or c[0].split(".")[1] in ("Dense", "AddedDiag")
        for lay in (c13_dyn.LAYOUTS if full else [c13_dyn.LAYOUTS[(k + ctx.seed) % 4]]):
            cells.append((c, lay, "backward"))
    for c in c13_cases.history_cases():
        for lay in (c13_dyn.LAYOUTS if thorough else ["contiguous", "slice"]):
            cells.append((c, lay, "history"))
    for k, c in enumerate(c13_cases.random_history_cases(400 if thorough else 80)):
        for lay in (c13_dyn.LAYOUTS if thorough else [c13_dyn.LAYOUTS[(k + ctx.seed) % 4]]):
            cells.append((c, lay, "history"))
    return cells


# ---- call-sequence cells (harness/c13_seq.py): run by two worker processes concurrently with the other stages

def seq_start(ctx, thorough, nparts=2, budget=0, tokens=()):
    import subprocess
    import sys
    gen = os.path.join(common.COQ, PROP, "gen")
    os.makedirs(gen, exist_ok=True)
    procs = []
    for part in range(nparts):
        out = os.path.join(gen, "seq_%d_%d.json" % (os.getpid(), part))
        p = subprocess.Popen([sys.executable, "-m", "harness.c13_seq", str(ctx.seed), "1" if thorough else "0", str(part), str(nparts), out,
                              str(int(budget)), ",".join(tokens)],
                             cwd=common.VERIF, env=dict(os.environ, OMP_NUM_THREADS="1", MKL_NUM_THREADS="1"),
                             stdout=subprocess.DEVNULL, stderr=subprocess.PIPE)
        procs.append((p, out))
    return {"procs": procs, "thorough": thorough, "t0": time.time(), "budget": budget}


def seq_collect(ctx, handle, timeout=1400):
    """-> rows of harness/c13_seq.run_cells (in the deterministic grid order).  A worker that fails is re-run in this process."""
    from . import c13_dyn, c13_seq
    parts = []
    nparts = len(handle["procs"])
    for part, (p, out) in enumerate(handle["procs"]):
        rows = None
        try:
            p.wait(timeout=max(5, timeout - (time.time() - handle["t0"])))
            if p.returncode == 0:
                rows = json.load(open(out))["rows"]
        except Exception:
            try:
                p.kill()
            except Exception:
                pass
        try:
            os.remove(out)
        except OSError:
            pass
        if rows is None:
            ctx.say("sequence worker %d failed; running its cells in-process" % part)
            rows, _ = c13_seq.run_cells(c13_seq.grid_cells(ctx.seed, handle["thorough"], c13_dyn.LAYOUTS)[part::nparts], ctx.seed,
                                        deadline=(time.time() + handle["budget"]) if handle.get("budget") else None)
        parts.append(rows)
    out = []
    for i in range(max(len(x) for x in parts) if parts else 0):
        for x in parts:
            if i < len(x):
                out.append(x[i])
    handle["seconds"] = round(time.time() - handle["t0"], 1)
    return out


def site_ops(meta, module, qual, line):
    """in-place sites the translator knows at a source line: {(program kind, why)}"""
    out = set()
    for t in meta["table"] if meta else []:
        if t["module"] == module and t["qual"] == qual:
            for s in t["sites"]:
                if s["line"] == line:
                    out.add((t["kind"], s["why"]))
    return out


def hit_key(meta, case, lay, hit, loc):
    """structural key of a dynamic hit: the library function and in-place operation that wrote (from the localiser and
    the translator's site table), the kind of effect; never seeds, values or line numbers"""
    eff = "meta" if "meta" in hit["effects"] else ("values" if any(e.startswith(("values", "operator", "broken")) for e in hit["effects"]) else "version")
    key = {"kind": "dynamic", "effect": eff}
    if loc is not None:
        module, qual, line, text = loc
        key["function"] = qual
        ops = site_ops(meta, module, qual, line)
        want = "object" if eff == "meta" else "storage"
        cand = sorted(w for k, w in ops if k == want) or sorted(w for k, w in ops)
        if not cand:
            # no site table (translator failed) or a writer the translator does not track: name the operation from the source text
            import re
            ms = re.findall(r"\.([A-Za-z0-9_]*[A-Za-z0-9]_)\(", text)
            ms = [m for m in ms if m not in ("resize_", "unsqueeze_", "squeeze_", "transpose_", "t_", "resize_as_") or eff == "meta"]
            cand = ["." + ms[-1]] if ms else (["out="] if "out=" in text else [])
        key["op"] = cand[0] if cand else "untracked:" + text[:40]
    else:
        key["function"] = case[0]
        key["op"] = "unlocalised"
    return key


def dynamic_stage(ctx, meta, cells, types, localise_limit=200, seq_rows=None, skip=None, deadline=None):
    """cells: [(case, layout, kind)] run here; seq_rows: results of the call-sequence cells (run by the workers); skip: cells
    (entry, variant, layout) already run and reported by an earlier, narrower stage"""
    from . import c13_cases, c13_dyn, c13_seq
    prof = c13_dyn.Profiler(types)
    skip = skip or set()
    cells = [c for c in cells if (c[0][0], c[0][1], c[1]) not in skip]
    stat = collections.Counter()
    by_kind = collections.Counter()
    by_layout = collections.Counter()
    hits, degenerate = [], 0
    distinct = set()
    raised_samples = {}
    ran_cells = []
    for (case, lay, kind) in cells:
        if deadline is not None and time.time() > deadline:
            stat["not-run (time budget of the widened search)"] += 1
            continue
        ran_cells.append((case, lay, kind))
        r = c13_dyn.run_case(case, lay, ctx.seed, prof)
        stat[r["status"]] += 1
        by_kind[kind] += 1
        by_layout["%s/%s" % (kind, lay)] += 1
        degenerate += r["degenerate"]
        if r["status"] == "ok":
            distinct.add((case[0], case[1], lay))
        elif r["status"] == "raised":
            # a history step that found a mutation raises HistoryHit: unpack
            if r["error"] and r["error"].startswith("HistoryHit"):
                pass
            raised_samples.setdefault(case[0], r["error"])
        for h in r["hits"]:
            hits.append((case, lay, h))
    seqstat = collections.Counter()
    for row in seq_rows or []:
        if (row["entry"], row["variant"], row["layout"]) in skip:
            continue
        hit = bool(row["hits"])
        stat["ok" if (row["status"] == "ok" or hit) else row["status"]] += 1
        by_kind["sequence"] += 1
        by_layout["sequence/%s" % row["layout"]] += 1
        degenerate += row["degenerate"]
        sq = row.get("seq") or {}
        seqstat["calls"] += len(sq.get("calls", ()))
        seqstat["calls_raised"] += sq.get("errors", 0)
        seqstat["tensors_recorded"] += sq.get("tensors", 0)
        seqstat["operators_recorded"] += sq.get("operators", 0)
        for k, v in (sq.get("where") or {}).items():
            seqstat["tensors_" + k] += v
        if row["status"] == "ok" and sq.get("errors", 0) < len(sq.get("calls", ())):
            distinct.add((row["entry"], row["variant"], row["layout"]))
        if hit:
            case = c13_seq.find_case(row["entry"], row["variant"])
            for h in row["hits"]:
                hits.append((case, row["layout"], dict(h, calls=sq.get("calls"))))
    # localise and report
    reported = []
    loc_cache = {}
    for (case, lay, h) in hits:
        ck = (case[0], case[1], lay)
        if ck not in loc_cache:
            loc_cache[ck] = c13_dyn.localise(case, lay, ctx.seed) if len(loc_cache) < localise_limit or ctx.tier != "quick" else None
        loc = loc_cache[ck]
        key = hit_key(meta, case, lay, h, loc)
        replay = {"kind": "caller-tensor-mutated", "entry": case[0], "variant": case[1], "layout": lay, "seed": ctx.seed,
                  "argument": h["arg"], "effects": h["effects"],
                  **({"call_sequence": h.get("calls"), "offending_call": h.get("call"), "offending_step": h.get("step")} if case[0].startswith("seq.") else {}),
                  "written_at": None if loc is None else {"file": loc[0], "function": loc[1], "line": loc[2], "source": loc[3]},
                  "expected": "every caller tensor keeps its _version, metadata and bytes; every pre-existing operator keeps its dense matrix",
                  "how_to_replay": "./check replay <this file>  (rebuilds the case from entry/variant/layout/seed and re-runs it)"}
        new = ctx.violation(replay, key=key)
        reported.append({"entry": case[0], "variant": case[1], "layout": lay, "seed": ctx.seed, "arg": h["arg"], "effects": h["effects"], "key": key,
                         "known": not new, **({"call_sequence": h.get("calls"), "offending_call": h.get("call")} if case[0].startswith("seq.") else {}),
                         "written_at": replay["written_at"]})
    for tv in prof.type_violations[:5]:
        ctx.violation({"kind": "type-assumption-contradicted", "function": "%s::%s" % (tv[0], tv[1]), "parameter": tv[2], "observed_type": tv[3],
                       "correspondence": "tensor-typed parameters assumed by harness/own_ir.py (annotations / c13_types.json)"}, no_input=True)
    return {"stat": dict(stat), "by_kind": dict(by_kind), "by_layout": dict(by_layout), "hits": reported, "degenerate": degenerate, "distinct_ok": len(distinct),
            "distinct": distinct, "sequence": dict(seqstat), "ran": {(c[0][0], c[0][1], c[1]) for c in ran_cells} | {(r["entry"], r["variant"], r["layout"]) for r in seq_rows or []},
            "executed": prof.executed, "type_checks": prof.type_checks, "type_violations": len(prof.type_violations),
            "raised_samples": dict(list(raised_samples.items())[:6])}


def trace_stage(ctx, meta, cells):
    """IR / execution correspondence (harness/c13_trace.py): the invariant of the soundness proof and the completeness of the
    in-place site table, checked on real executions of the translated functions"""
    from . import c13_trace
    tr = c13_trace.IRTracer(meta)
    stat = collections.Counter()
    for (case, lay, kind) in cells:
        stat[c13_trace.run_traced(case, lay, ctx.seed, tr)] += 1
    for k, v in list(tr.unsound.items())[:6]:
        ctx.violation({"kind": "ir-does-not-cover-execution", "function": "%s::%s" % (k[0], k[1]), "variable": k[2], "line": k[3], "times": v,
                       "what": "the variable was observed holding caller-owned storage but no IR definition of it is in the candidate set: "
                               "the translator (or a table it trusts) is unsound for this construct",
                       "correspondence": "invariant `inv` of coq/C13/Own.v checked on executions (harness/c13_trace.py)"}, no_input=True)
    for k, v in list(tr.untracked.items())[:6]:
        ctx.violation({"kind": "untracked-in-place-write", "at": k, "times": v,
                       "what": "a tensor's _version changed while this library line executed, but the translator has no in-place site there "
                               "(a writer outside the trailing-underscore / out= / subscript / augmented-assignment conventions)",
                       "correspondence": "in-place site table of coq/C13/gen/OwnIR.v vs observed _version bumps (harness/c13_trace.py)"}, no_input=True)
    slice_obs = sorted(tr.coq_obs)
    return {"cells_traced": sum(stat.values()), "status": dict(stat), "lines_traced": tr.lines, "bindings_examined": tr.bindings,
            "bindings_holding_caller_storage": sum(tr.obs.values()), "distinct_caller_holding_definitions": len(tr.obs),
            "not_covered_by_ir": len(tr.unsound), "version_bumps_at_ir_sites": tr.bumps_ok, "version_bumps_elsewhere": sum(tr.untracked.values()),
            "checked_slice_variables_observed_holding_caller_storage": len(slice_obs)}


def trace_cells(ctx, cells):
    """quick: every utility (entry, variant) in two layouts, every second operator / history cell; thorough: all cells"""
    if not ctx.quick:
        return cells
    out, seen = [], collections.Counter()
    for i, (case, lay, kind) in enumerate(cells):
        if kind == "utility":
            k = (case[0], case[1])
            idx = ["contiguous", "expanded", "transposed", "slice"].index(lay)
            if idx == 0 or idx == 1 + (__import__("zlib").crc32((k[0] + k[1]).encode()) + ctx.seed) % 3:
                out.append((case, lay, kind))
        elif kind in ("backward", "degenerate"):
            if i % 4 == ctx.seed % 4:
                out.append((case, lay, kind))
        elif i % 2 == ctx.seed % 2:
            out.append((case, lay, kind))
    return out


def site_hits(s, hits):
    """dynamic hits that are concrete inputs for the failing static site s: written in the same function by the same operation; else in
    the same function; a site `helper NAME(param)` (the caller hands its own caller's memory to an in-place helper) is reproduced by
    a write localised inside the helper NAME"""
    f = s["function"]
    conc = [h for h in hits if h["key"].get("function") == f and h["key"].get("op") == s["op"]]
    if not conc:
        conc = [h for h in hits if h["key"].get("function") == f]
    if not conc and s["op"].startswith("helper "):
        hn = s["op"][len("helper "):].split("(")[0]
        conc = [h for h in hits if h["key"].get("function") == hn]
    return conc


def report_static(ctx, meta, dyn):
    """every failing static site is a violation (known finding or new); its replay carries the refutation lemma and, when the
    dynamic search hit the same function and operation, the concrete input"""
    out = []
    for s in failing_sites(meta):
        key = {"kind": "static", "function": s["function"], "op": s["op"], "effect": "static-" + s["program"]}
        # (sites of the object-identity program that share their source line with a reproduced storage site are the same statement)
        conc = site_hits(s, (dyn or {}).get("hits", []))
        executed = any(q == s["function"] and m == s["module"] for (m, q) in (dyn or {}).get("executed", ()))
        replay = {"kind": "ownership-obligation-failed", "site": s,
                  "obligation": "own_check for %s :: %s (%s program): in-place target may hold caller-owned memory; "
                                "refutation witness coq/C13/gen/OwnIR.v %s" % (s["module"], s["function"], s["program"], s["refutation"]),
                  "concrete_input": conc[0] if conc else None, "function_executed_by_grid": executed}
        if conc:
            new = ctx.violation(replay, key=key)
        else:
            # no concrete input found: only a listed known finding may cover it
            e = common.kf_match(PROP, key)
            if e is not None:
                new = ctx.violation(replay, key=key)
            else:
                new = ctx.violation(replay, key=key, no_input=True)
        out.append(dict(s, concrete=bool(conc), known=not new))
    return out


# ------------------------------------------------------------------------------------------------ run

def merge_dyn(a, b):
    """results of a narrower stage a and of the widening stage b (disjoint cells)"""
    out = dict(a)
    for k in ("stat", "by_kind", "by_layout", "sequence"):
        c = collections.Counter(a.get(k) or {})
        c.update(b.get(k) or {})
        out[k] = dict(c)
    out["hits"] = a["hits"] + b["hits"]
    out["degenerate"] = a["degenerate"] + b["degenerate"]
    out["distinct"] = a["distinct"] | b["distinct"]
    out["distinct_ok"] = len(out["distinct"])
    out["ran"] = a["ran"] | b["ran"]
    out["executed"] = set(a["executed"]) | set(b["executed"])
    out["type_checks"] = a["type_checks"] + b["type_checks"]
    out["type_violations"] = a["type_violations"] + b["type_violations"]
    return out


WIDEN_BUDGET_S = 230      # a failing quick run should stay below ~5 min: the widened search stops when this much wall time has passed since the start of the run


def site_tokens(want):
    """words by which cells that are likely to reach an open static site are recognised (class name without the
    LinearOperator suffix, function name): those cells are run first in the widened, time-boxed search"""
    toks = []
    for s in (want if isinstance(want, list) else []):
        f = s["function"].split(".")[0]
        for suf in ("LinearOperator",):
            if f.endswith(suf) and len(f) > len(suf):
                f = f[:-len(suf)]
        short = {"KroneckerProduct": "Kron", "KroneckerProductAddedDiag": "KronAddedDiag", "KroneckerProductDiag": "KronDiag",
                 "KroneckerProductTriangular": "KronTriangular", "SumKronecker": "SumKron"}.get(f, f)
        for t in (f, short, s["function"].split(".")[-1].strip("_")):
            if t and t not in toks:
                toks.append(t)
    return toks


def search(ctx, meta, types, seqh, want=None):
    """the dynamic search (grid cells in this process + call-sequence cells from the workers `seqh`) at the tier's width; in the quick
    tier, when something is open (`want`: failing static sites without a known finding, or a broken proof: want=True) and the
    quick width does not produce a concrete input for it, the search is widened towards the thorough width (cells already run are
    skipped), cells that mention the class / function of an open site first, within a wall-time budget (WIDEN_BUDGET_S since the
    start of the run).  Returns the results and the cells of the TIER's width (what the trace stage re-runs)."""
    def satisfied(d):
        new = [h for h in d["hits"] if not h["known"]]
        if want is True:
            return bool(new)
        return all(site_hits(s, new) for s in want)
    cells = grid(ctx)
    d = dynamic_stage(ctx, meta, cells, types, localise_limit=400 if want else 200, seq_rows=seq_collect(ctx, seqh))
    if want and ctx.quick and not satisfied(d):
        left = WIDEN_BUDGET_S - (time.time() - ctx.t0)
        if left < 20:
            ctx.say("open obligation without a concrete input at quick width; no time budget left for a wider search")
            return d, cells
        ctx.say("open obligation without a concrete input at quick width: widening the dynamic search (budget %d s)" % left)
        toks = site_tokens(want)
        h2 = seq_start(ctx, True, budget=left, tokens=toks)
        wide = [c for c in grid(ctx, thorough=True) if (c[0][0], c[0][1], c[1]) not in d["ran"]]
        wide.sort(key=lambda c: 0 if any(t in c[0][0] for t in toks) else 1)
        d2 = dynamic_stage(ctx, meta, wide, types, localise_limit=400, skip=d["ran"], deadline=time.time() + left, seq_rows=None)
        d3 = dynamic_stage(ctx, meta, [], types, localise_limit=400, seq_rows=seq_collect(ctx, h2, timeout=left + 60), skip=d["ran"])
        d = merge_dyn(merge_dyn(d, d2), d3)
    return d, cells


def run(ctx):
    import torch
    torch.set_num_threads(1)
    types = json.load(open(os.path.join(HERE, "c13_types.json")))
    t0 = time.time()
    try:
        meta = regenerate()
        tr_err = None
    except own_ir.Untranslatable as ex:
        meta, tr_err = None, str(ex)
    # the call-sequence cells run in two worker processes, concurrently with the stages below
    seqh = seq_start(ctx, not ctx.quick)
    if meta is None:
        # fail closed: the IR cannot be regenerated -> every obligation is open; search the implementation
        ctx.say("translator rejected the source:", tr_err)
        dyn, _ = search(ctx, None, types, seqh, want=True)
        if not [h for h in dyn["hits"] if not h["known"]]:
            ctx.violation({"kind": "translator-rejected-source", "error": tr_err,
                           "obligation": "coq/C13/gen/OwnIR.v could not be regenerated; C13_library_functions_owned is not re-proved"}, no_input=True)
        ctx.coverage.update({"obligations": len(common.property_obligations(PROP)), "discharged": 0, "checker_cmd": "translator failed",
                             "trusted_base": common.COQ_TRUSTED, "evaluations": sum(dyn["stat"].values()), "distinct_nontrivial": dyn["distinct_ok"],
                             "rule": "dynamic grid only (translator failed)", "samples": [tr_err, dyn["stat"]]})
        return
    t_tr = time.time() - t0

    searched = {}

    def on_fail(info):
        # a generated obligation (or a hand proof) no longer compiles: search the implementation for a concrete failing input
        d, _ = search(ctx, meta, types, seqh, want=True)
        searched["dyn"] = d
        return any(not h["known"] for h in d["hits"])
    ok = common.proof_stage(ctx, on_fail)
    t_pf = time.time() - t0 - t_tr
    static_fail = failing_sites(meta)
    if not ok:
        if "dyn" not in searched:
            seq_collect(ctx, seqh)
        ctx.coverage.update({"trusted_base": common.COQ_TRUSTED, "evaluations": 0, "distinct_nontrivial": 0, "rule": "proof stage failed",
                             "samples": [static_fail[:2], (searched.get("dyn") or {}).get("stat")]})
        return
    # (1) what the translator trusts about torch
    scan_st = scan_stage(ctx, meta)
    optab = op_table_stage(ctx, meta)
    clos = closure_stage(ctx, ctx.quick)
    t_val = time.time() - t0 - t_tr - t_pf
    # (2) dynamic search: always on; widened when a static site fails that no known finding covers and no concrete input is found
    unknown_static = [s for s in static_fail
                      if common.kf_match(PROP, {"kind": "static", "function": s["function"], "op": s["op"], "effect": "static-" + s["program"]}) is None]
    dyn, cells = search(ctx, meta, types, seqh, want=unknown_static or None)
    stat_rep = report_static(ctx, meta, dyn)
    t_dyn = time.time() - t0 - t_tr - t_pf - t_val
    trc = trace_stage(ctx, meta, trace_cells(ctx, cells))
    t_trc = time.time() - t0 - t_tr - t_pf - t_val - t_dyn
    # coverage
    executed = dyn["executed"]
    translated = {(t["module"], t["qual"]) for t in meta["table"]}
    n_sites = sum(len({(s["line"], s["why"]) for s in t["sites"]}) for t in meta["table"])
    n_allowed = sum(len({(s["line"], s["why"]) for s in t["sites"] if s["status"] == "allowed"}) for t in meta["table"])
    anch = [l for l in open(os.path.join(common.VERIF, "properties.jsonl")) if '"C13"' in l]
    anchors = json.loads(anch[0])["anchors"]["files"] if anch else []
    anchor_progs = sum(1 for t in meta["table"] if t["module"] in anchors)
    ctx.coverage.update({
        "trusted_base": common.COQ_TRUSTED + [
            "translator harness/own_ir.py (Python ast -> SSA ownership IR; reaching definitions iterated to a fixed point; control flow dropped "
            "(sound: any-order semantics); fail-closed on unknown statement / expression forms, on assignments to .data/.grad, on *args calls of "
            "in-place helpers); the candidate sets it emits are NOT trusted (own_check re-checks closedness)",
            "modular reasoning of the translator: every function is checked against its own parameters / self attributes / captured variables / "
            "module globals as caller-owned; private module-level helpers that write their parameters are expanded at every (bare-name, resolved) "
            "call site; 'returns fresh memory' summaries are re-checked in Coq (C13_return_summaries_sound) and composed by induction on call depth",
            "naming convention: a torch call writes its receiver only if the method name ends in '_' or an out= argument is given "
            "(validated for the table entries by the op-table correspondence; untracked writers would surface in the dynamic search)",
            "harness/torch_ops.json classification (validated against the running torch in 4 layouts by Check.permits; trusted for completeness)",
            "closure assumption: results of closure parameters and of the operator protocol methods (_matmul, _t_matmul, matmul, solve, ...) are "
            "fresh or alias their ARGUMENT (validated for every operator class and library-built preconditioner; trusted for user closures)",
            "tensor-typed parameters: annotations and harness/c13_types.json (validated by a profile hook on every call of the dynamic grid)",
            "allow-list harness/c13_allow.json (%d entries in use: cache / memo attribute rebinding and one Python-int augmented assignment; each with a written "
            "justification and a stated assumption under which Coq re-checks the full program incl. the site: C13_allowlisted_sites_conditional)" % len(meta["allow_ids_used"]),
            "the translator's reasons for emitting no site at an in-place-looking construct (python container by reaching definitions, int counter, "
            "value-preserving method, module state, autograd ctx): listed in the evidence; that nothing else is missing is checked by harness/c13_scan.py",
            "dynamic search harness (harness/c13_dyn.py, c13_cases.py, c13_seq.py): layouts, before/after comparison, operator-state walker "
            "(instance attributes, memoize caches, closures), localiser; "
            "trace correspondence harness/c13_trace.py (sys.settrace; bounded-depth search for storages inside containers / operators)",
            "storage-identity abstraction: tensors are abstracted to storage identifiers; partial overlap inside one storage is treated as aliasing"],
        "evaluations": sum(dyn["stat"].values()) + optab["observations"] + clos["closure_calls_checked"] + trc["cells_traced"],
        "distinct_nontrivial": dyn["distinct_ok"],
        "rule": "dynamic cells (entry, variant, layout) whose call completed without raising (call-sequence cells: at least one call of the sequence "
                "completed) and in which every caller tensor / pre-existing operator (sequence cells: also every cached and every returned tensor) "
                "was compared before/after; distinct by (entry, variant, layout); cells that raised or could not be built are not counted",
        "dynamic": {"cells": sum(dyn["stat"].values()), "status": dyn["stat"], "by_kind": dyn["by_kind"], "by_kind_and_layout": dyn["by_layout"], "hits": len(dyn["hits"]),
                    "hits_unknown": sum(1 for h in dyn["hits"] if not h["known"]), "tensors_that_could_not_take_layout": dyn["degenerate"],
                    "library_functions_executed": len(executed), "translated_functions_with_inplace_sites_executed":
                        len({(m, q) for (m, q) in executed if (m, q) in translated}),
                    "type_assumption_checks": dyn["type_checks"], "type_assumption_violations": dyn["type_violations"],
                    "raised_samples": dyn["raised_samples"],
                    "call_sequences": dict(dyn.get("sequence") or {}, cells=dyn["by_kind"].get("sequence", 0), worker_seconds=seqh.get("seconds"),
                                           what="operator-state snapshots over call sequences (harness/c13_seq.py): base K, two derived operators "
                                                "sharing K, the same query on each and on K again; after every call: every tensor reachable from the "
                                                "pre-existing operators (_args/_kwargs, _memoize_cache, ad-hoc cache attributes, closures in caches) and "
                                                "every tensor returned by earlier calls is compared bitwise + _version + metadata, every operator's "
                                                "representation flags and the dense matrix of a cache-free twin")},
        "static": {"functions_scanned": meta["n_functions"], "programs_with_inplace_sites": meta["n_programs"], "programs_in_anchored_files": anchor_progs,
                   "inplace_sites": n_sites, "sites_allow_listed": n_allowed, "sites_failing": len(static_fail),
                   "failing_sites": stat_rep, "return_summaries": len(meta["returns_fresh"]), "inplace_helpers": meta["helpers"],
                   "allow_ids_unused": meta["allow_ids_unused"], "independent_scan": scan_st,
                   "operator_class_method_programs": sum(1 for t in meta["table"] if t["module"].startswith("linear_operator/operators/") and "." in t["qual"]),
                   "classification_usage": {k: v for k, v in meta["used"].items() if k.split(":")[0] in ("binop", "ambiguous_as_unknown", "closure_param_call")}},
        "op_table": optab, "closure_assumption": clos, "ir_trace_correspondence": trc,
        "seconds": {"translate": round(t_tr, 1), "proofs": round(t_pf, 1), "validation": round(t_val, 1), "dynamic": round(t_dyn, 1),
                    "trace": round(t_trc, 1)},
        "samples": [
            {"cell": [cells[0][0][0], cells[0][0][1], cells[0][1]], "what": "caller tensors compared before/after"},
            {"cell": [cells[len(cells) // 2][0][0], cells[len(cells) // 2][0][1], cells[len(cells) // 2][1]]},
            {"static_program": meta["table"][len(meta["table"]) // 2]["qual"], "sites": meta["table"][len(meta["table"]) // 2]["sites"][:3]},
        ] + dyn["hits"][:2],
    })
    ctx.assumptions = [
        "single-threaded use; CPU tensors (CUDA branches of the library are translated but never executed)",
        "user-supplied closures return fresh memory or (a view of) their argument, never other caller-owned memory",
        "torch methods write their receiver only under the trailing-underscore / out= convention",
        "explicit out= parameters are excluded, as the property excludes them; detach_/requires_grad_ are value preserving",
        "KeOpsLinearOperator cannot be constructed here (pykeops missing): static coverage only",
    ]


# ------------------------------------------------------------------------------------------------ replay

def replay(rp):
    import torch
    torch.set_num_threads(1)
    from . import c13_cases, c13_dyn
    if rp.get("kind") == "ownership-obligation-failed" and rp.get("concrete_input"):
        c = rp["concrete_input"]
        rp = dict(rp, entry=c["entry"], variant=c["variant"], layout=c["layout"], seed=c.get("seed", rp.get("seed", 0)))
    if "entry" not in rp:
        print(json.dumps(rp, indent=1)[:3000])
        print("no concrete input in this replay file (broken obligation / contradicted table): see fields above")
        return 1
    if rp["entry"].startswith("seq."):
        from . import c13_seq
        case = c13_seq.find_case(rp["entry"], rp["variant"])
    else:
        allc = c13_cases.utility_cases() + c13_cases.degenerate_utility_cases() + c13_cases.operator_cases() + c13_cases.backward_grad_cases() + \
            c13_cases.history_cases() + \
            c13_cases.random_history_cases(400)
        case = next((c for c in allc if c[0] == rp["entry"] and c[1] == rp["variant"]), None)
    if case is None:
        print("unknown case", rp["entry"], rp["variant"])
        return 2
    seed = int(rp.get("seed", 0))
    r = c13_dyn.run_case(case, rp["layout"], seed)
    print("entry %s variant %s layout %s seed %d -> status %s %s" % (rp["entry"], rp["variant"], rp["layout"], seed, r["status"], r.get("error") or ""))
    if r.get("seq"):
        print("  calls made:", r["seq"]["calls"])
    for h in r["hits"]:
        print("  MUTATED:", h)
    if r["hits"]:
        print("  written at:", c13_dyn.localise(case, rp["layout"], seed))
    else:
        print("  no caller tensor / pre-existing operator changed")
    return 1 if r["hits"] else 0
