"""C17 — settings contexts are properly scoped and never leak.

tie      : translator settings.py -> coq/C17/gen/Settings.v (theorems of Property.v are re-proved over it)
           + correspondence: event histories on the real classes vs `run` of the generated model
search   : the same histories checked directly against the property on the real classes
"""
import importlib
import itertools
import json
import os
import random
import sys

from . import common, settings_tr


def regenerate():
    gen = os.path.join(common.COQ, "C17", "gen")
    os.makedirs(gen, exist_ok=True)
    code, meta = settings_tr.translate(common.REPO)
    code = code.replace(" | c_", "\n    | c_").replace(" | k_", "\n    | k_").replace("; g_", ";\n    g_")
    p = os.path.join(gen, "Settings.v")
    if not os.path.exists(p) or open(p).read() != code:
        open(p, "w").write(code)
    json.dump(meta, open(os.path.join(gen, "settings_meta.json"), "w"), indent=1)
    return meta


# ----------------------------------------------------------------------------------------
# real classes

def load_real():
    for m in [m for m in sys.modules if m.startswith("linear_operator")]:
        pass
    import linear_operator.settings as S
    import linear_operator.beta_features as B
    import torch
    return S, B, torch


class Real:
    """Executes events on the real setting classes and observes every class after each event."""

    def __init__(self, meta):
        self.S, self.B, self.torch = load_real()
        self.meta = meta
        self.prim = meta["prim"]
        self.cls = {}
        for c in meta["prim"] + meta["comp"]:
            self.cls[c] = getattr(self.S, c, None) or getattr(self.B, c)
        t = self.torch
        self.dt = {"torch.float": t.float, "torch.double": t.double, "torch.half": t.half}
        self.slots = list(settings_tr.SLOTS) + ["probe_vectors"]
        self.saved = {c: {a: self.cls[c].__dict__[a] for a in self.slots if a in self.cls[c].__dict__} for c in self.prim}
        self.base_obs = None
        self.base_obs = [self.observe_cls(c) for c in self.prim]

    def reset(self):
        for c in self.prim:
            k = self.cls[c]
            for a in self.slots:
                if a in self.saved[c]:
                    setattr(k, a, self.saved[c][a])
                elif a in k.__dict__:
                    delattr(k, a)

    def decode(self, v):
        """model value (python-side encoding) -> real python value"""
        if isinstance(v, str):
            return self.dt[v]
        return v

    def encode(self, v):
        """real value -> comparable/encodable token: None | bool | ('tok', n)"""
        t = self.torch
        if v is None or isinstance(v, bool):
            return v
        if isinstance(v, t.dtype):
            name = {t.float: "torch.float", t.double: "torch.double", t.half: "torch.half"}.get(v)
            if name is None or name not in self.meta["consts"]:
                return ("tok", -2)
            return ("tok", self.meta["consts"].index(name))
        if isinstance(v, int) and v >= 1000:
            return ("tok", v)
        r = repr(v)
        if r in self.meta["consts"]:
            return ("tok", self.meta["consts"].index(r))
        return ("tok", -3)

    def observe_cls(self, c):
        k = self.cls[c]
        out = []
        for o in self.meta["observers"][c]:
            try:
                if o == "on":
                    v = k.on()
                elif o == "off":
                    v = k.off()
                elif o == "value":
                    v = k.value()
                else:
                    v = k.value({"value_float": self.torch.float, "value_double": self.torch.double,
                                 "value_half": self.torch.half}[o])
                out.append(self.encode(v))
            except Exception:
                out.append(("tok", -1))
        return out

    def observe(self):
        d = []
        for i, c in enumerate(self.prim):
            o = self.observe_cls(c)
            if o != self.base_obs[i]:
                d.append((i, o))
        return d

    def run(self, hist):
        """hist: list of events ('new', kid, args) | ('enter', i) | ('exit', i) | ('exitexc', i)
        returns list of ('ok', sparse_obs, swallowed) | ('err', repr)"""
        self.reset()
        objs = []
        out = []
        for e in hist:
            try:
                sw = False
                if e[0] == "new":
                    objs.append(self.cls[e[1]](*[self.decode(a) for a in e[2]]))
                elif e[0] == "enter":
                    objs[e[1]].__enter__()
                elif e[0] == "exit":
                    sw = bool(objs[e[1]].__exit__(None, None, None))
                else:
                    ex = ValueError("boom")
                    sw = bool(objs[e[1]].__exit__(ValueError, ex, None))
                out.append(("ok", self.observe(), sw))
            except Exception as ex:
                out.append(("err", repr(ex)[:100]))
                break
        self.reset()
        return out


# ----------------------------------------------------------------------------------------
# history generation

def arg_pool(meta, k):
    if k in meta["prim"]:
        kind = meta["kinds"][k]
        if kind == "KFlag":
            return [[True], [False]]
        if kind == "KValue":
            return [[1005], [1007], [None]]
        return [[a, b, c] for a in (None, 1005) for b in (None, 1007) for c in (None, 1009)]
    n = len(meta["comp_info"][k]["params"])
    kinds = {meta["kinds"][p[1]] for p in meta["comp_info"][k]["parts"]}
    if kinds == {"KFlag"}:
        return [list(t) for t in itertools.product([True, False], repeat=n)]
    vals = ["torch.float", "torch.double", None]
    return [list(t) for t in itertools.product(["torch.float", "torch.double"], *([vals] * (n - 1)))]


def enum_bal(nobj_max, length, kids_args):
    """all well-nested histories of exactly `length` events over objects created by New events
    (kid/args alternatives given by kids_args), with exception exits; generator."""
    def rec(prefix, nobj, stack, remaining):
        if remaining == 0:
            if not stack:
                yield list(prefix)
            return
        if len(stack) > remaining:
            return
        if nobj < nobj_max:
            for ka in kids_args:
                prefix.append(("new", ka[0], ka[1]))
                yield from rec(prefix, nobj + 1, stack, remaining - 1)
                prefix.pop()
        for i in range(nobj):
            prefix.append(("enter", i))
            stack.append(i)
            yield from rec(prefix, nobj, stack, remaining - 1)
            stack.pop()
            prefix.pop()
        if stack:
            i = stack.pop()
            for kind in ("exit", "exitexc"):
                prefix.append((kind, i))
                yield from rec(prefix, nobj, stack, remaining - 1)
                prefix.pop()
            stack.append(i)
    yield from rec([], 0, [], length)


def random_hist(rng, meta, length, well_nested=True, kids=None):
    kids = kids or (meta["prim"] + meta["comp"])
    h, stack, nobj = [], [], 0
    objk = []
    while len(h) < length:
        r = rng.random()
        if nobj == 0 or (r < 0.3 and nobj < 6):
            # bias towards re-using a class already present (interference needs two objects of one class)
            k = rng.choice(objk) if (objk and rng.random() < 0.6) else rng.choice(kids)
            h.append(("new", k, rng.choice(arg_pool(meta, k))))
            objk.append(k)
            nobj += 1
        elif r < 0.65 or not stack:
            i = rng.randrange(nobj)
            h.append(("enter", i))
            stack.append(i)
        else:
            if well_nested:
                i = stack.pop()
            else:
                i = stack.pop(rng.randrange(len(stack)))
            h.append((rng.choice(["exit", "exit", "exitexc"]), i))
    while stack:
        h.append(("exit", stack.pop()))
    return h


# ----------------------------------------------------------------------------------------
# property predicates evaluated directly on the implementation's observations (search / triage)

def property_failure(meta, hist, obs):
    """Returns a description if the observed run violates C17 on a well-nested history."""
    stack = []
    before = [[]]          # observation before event j  (sparse diffs; [] = defaults)
    cur = []
    objk = []
    for j, e in enumerate(hist):
        if j >= len(obs):
            break
        o = obs[j]
        if o[0] == "err":
            # an exception on a well-nested history: construct/enter/exit must not fail
            return "event %d %s raised %s" % (j, e, o[1])
        new = o[1]
        if o[2]:
            return "event %d %s: __exit__ returned a true value (would swallow the exception)" % (j, e)
        if e[0] == "new":
            objk.append(e[1])
            if new != cur:
                return "constructing %s changed global settings: %s -> %s" % (e[1], cur, new)
        elif e[0] == "enter":
            stack.append((e[1], cur))
            # takes effect + no cross talk
            k = objk[e[1]]
            touched = [k] if k in meta["prim"] else [p[1] for p in meta["comp_info"][k]["parts"]]
            ti = {meta["prim"].index(c) for c in touched}
            if {i: v for i, v in new if i not in ti} != {i: v for i, v in cur if i not in ti}:
                return "entering %s changed an unrelated setting: %s -> %s" % (k, cur, new)
        else:
            if not stack or stack[-1][0] != e[1]:
                return None  # not well nested: outside the property
            i, saved = stack.pop()
            if new != saved:
                return "exit of object %d (%s) restored %s, but %s was in force before its entry" % (i, objk[i], new, saved)
        cur = new
    return None


# documented meaning of the composite constructors' arguments (mirror of spec_composite_args in coq/C17/Laws.v)
COMP_SPEC = {
    "fast_computations": lambda a: [("_fast_covar_root_decomposition", [a[0]]), ("_fast_log_prob", [a[1]]), ("_fast_solves", [a[2]])],
    "linalg_dtypes": lambda a: [("_linalg_dtype_symeig", [a[1] if a[1] is not None else a[0]]),
                                ("_linalg_dtype_cholesky", [a[2] if a[2] is not None else a[0]])],
}


def effect_failure(real, meta, k, args):
    """entering a fresh context of class k with args makes the observers report args
    (composites: every part reports the argument the documentation promises it)"""
    hist = [("new", k, args), ("enter", 0)]
    obs = real.run(hist)
    if any(o[0] == "err" for o in obs):
        return "construct/enter raised"
    got = dict(obs[-1][1])
    if k in meta["prim"]:
        parts = [(k, args)]
    elif k in COMP_SPEC and len(args) == len(meta["comp_info"][k]["params"]):
        parts = COMP_SPEC[k](args)
    else:
        return None
    for pk, pargs in parts:
        if pk not in meta["prim"]:
            return None
        i = meta["prim"].index(pk)
        kind = meta["kinds"][pk]
        base = real.base_obs[i]
        enc = [real.encode(real.decode(a)) for a in pargs]
        if kind == "KFlag":
            exp = [enc[0], (not pargs[0])]
        elif kind == "KValue":
            exp = [enc[0]]
        else:
            exp = [enc[j] if pargs[j] is not None else base[j] for j in range(3)]
        cur = got.get(i, base)
        if cur != exp:
            return "after entering %s(%s) observers of %s report %s, expected %s" % (k, args, pk, cur, exp)
    return None


# ----------------------------------------------------------------------------------------
# Coq case files

def val_lit(v):
    if v is None:
        return "VNone"
    if v is True:
        return "(VBool true)"
    if v is False:
        return "(VBool false)"
    if isinstance(v, tuple):
        return "(VTok %s)" % common.zlit(v[1])
    raise ValueError(v)


def arg_lit(meta, a):
    if isinstance(a, str):
        return "(VTok %d%%Z)" % meta["consts"].index(a)
    if isinstance(a, bool) or a is None:
        return val_lit(a)
    return "(VTok %d%%Z)" % a


def case_lit(meta, hist, obs):
    items = []
    for e, o in zip(hist, obs):
        if e[0] == "new":
            ev = "New kid k_%s [%s]" % (e[1], "; ".join(arg_lit(meta, a) for a in e[2]))
        else:
            ev = "%s kid %d" % ({"enter": "Enter", "exit": "Exit", "exitexc": "ExitExc"}[e[0]], e[1])
        if o[0] == "err":
            ex = "EErr"
        else:
            ex = "EOk [%s]" % "; ".join("(%d%%nat, [%s])" % (i, "; ".join(val_lit(x) for x in vs)) for i, vs in o[1])
        items.append("(%s, %s)" % (ev, ex))
    return "[" + "; ".join(items) + "]"


def shard_src(meta, cases):
    body = ";\n ".join(case_lit(meta, h, o) for h, o in cases)
    return ("From Coq Require Import List ZArith Bool.\nImport ListNotations.\n"
            "Require Import C17.Generic C17.gen.Settings C17.Check.\n"
            "Definition cases : list (list (ev' * expect)) := [\n %s].\n"
            "Eval vm_compute in (bad_cases cases 0).\n" % body)


# ----------------------------------------------------------------------------------------

def histories(ctx, meta):
    rng = random.Random(ctx.seed)
    hs = []
    reps = {"KFlag": ["debug", "deterministic_probes"], "KValue": ["cholesky_max_tries"], "KDtype": ["cholesky_jitter"]}
    reps = {k: [c for c in v if c in meta["prim"]] or [c for c in meta["prim"] if meta["kinds"][c] == k][:1] for k, v in reps.items()}
    groups = []
    for kind, cs in reps.items():
        for c in cs:
            pool = arg_pool(meta, c)
            groups.append([(c, pool[0]), (c, pool[-2] if len(pool) > 2 else pool[-1])])
    for c in meta["comp"]:
        pool = arg_pool(meta, c)
        groups.append([(c, pool[1]), (c, pool[-1])])
    maxlen = 6 if ctx.quick else 7
    n_ex = 0
    for g in groups:
        for L in range(2, maxlen + 1):
            for h in enum_bal(2, L, g):
                hs.append(h)
                n_ex += 1
    # every class at least once in a nested pattern with construction before another entry
    for k in meta["prim"] + meta["comp"]:
        pool = arg_pool(meta, k)
        a, b = pool[0], pool[1 % len(pool)]
        hs.append([("new", k, a), ("new", k, b), ("enter", 1), ("enter", 0), ("exit", 0), ("exit", 1)])
        hs.append([("new", k, b), ("enter", 0), ("enter", 0), ("exitexc", 0), ("exit", 0)])
        hs.append([("new", k, a), ("enter", 0), ("new", k, b), ("enter", 1), ("exit", 1), ("exit", 0), ("enter", 1), ("exit", 1)])
    n_rand = 600 if ctx.quick else 6000
    for i in range(n_rand):
        hs.append(random_hist(rng, meta, rng.randrange(4, 31), well_nested=(i % 5 != 0)))
    return hs, n_ex


def search_real(ctx, meta, hs, real, limit=3):
    """evaluate the property directly on the implementation; report concrete failing histories"""
    found = 0
    seen = set()
    hs_sorted = sorted(hs, key=len)
    for h in hs_sorted:
        obs = real.run(h)
        f = property_failure(meta, h, obs)
        if f:
            key = {"what": f.split(" (")[0][:60], "class": next((e[1] for e in h if e[0] == "new"), None)}
            sig = (key["what"][:25], meta["kinds"].get(key["class"], "comp"))
            if sig in seen:
                continue
            seen.add(sig)
            ctx.violation({"kind": "scoping-failure", "history": h, "observed": obs, "what": f}, key=key)
            found += 1
            if found >= limit:
                break
    for k in list(meta["prim"]) + list(meta["comp"]):
        for a in arg_pool(meta, k):
            f = effect_failure(real, meta, k, a)
            if f:
                ctx.violation({"kind": "no-effect", "class": k, "args": a, "what": f}, key={"what": "no-effect", "class": k})
                found += 1
                break
    return found


def run(ctx):
    try:
        meta = regenerate()
        tr_err = None
    except settings_tr.Untranslatable as ex:
        meta, tr_err = None, str(ex)
    if meta is None:
        # fail closed: the model cannot be regenerated -> obligation broken; search the real classes
        old = os.path.join(common.COQ, "C17", "gen", "settings_meta.json")
        ctx.say("translator rejected settings.py:", tr_err)
        found = 0
        meta_fb = fallback_meta()
        if meta_fb is not None:
            real = Real(meta_fb)
            hs, _ = histories(ctx, meta_fb)
            found = search_real(ctx, meta_fb, hs, real)
        if not found:
            ctx.violation({"kind": "translator-rejected-source", "error": tr_err,
                           "obligation": "coq/C17/gen/Settings.v could not be regenerated; C17_scoping is not re-proved"}, no_input=True)
        ctx.coverage.update({"obligations": 6, "discharged": 0, "checker_cmd": "translator failed", "trusted_base": common.COQ_TRUSTED,
                             "samples": [tr_err]})
        return
    real = Real(meta)
    hs, n_ex = histories(ctx, meta)

    def on_fail(info):
        return search_real(ctx, meta, hs, real) > 0
    ok = common.proof_stage(ctx, on_fail)
    # correspondence (also run when the proof failed: it localises the disagreement)
    cases = [(h, real.run(h)) for h in hs]
    n_wn = 0
    direct = search_real(ctx, meta, hs, real) if ok else 0
    shards = []
    SH = 400
    for i in range(0, len(cases), SH):
        shards.append(("c17_%d" % (i // SH), shard_src(meta, cases[i:i + SH])))
    mism = []
    if ok:
        res = common.run_shards(ctx, shards)
        for si, (name, _) in enumerate(shards):
            rc, out = res[name]
            bad = common.parse_coq_list_of_nat(out) if rc == 0 else None
            if bad is None:
                ctx.violation({"kind": "shard-failed", "shard": name, "out": out[-500:]}, no_input=True)
                continue
            mism += [si * SH + b for b in bad]
        for m in mism[:5]:
            h, o = cases[m]
            f = property_failure(meta, h, o)
            if f:
                ctx.violation({"kind": "scoping-failure", "history": h, "observed": o, "what": f},
                              key={"what": f[:40]})
            else:
                ctx.violation({"kind": "model-implementation-disagreement", "history": h, "observed": o,
                               "correspondence": "coq/C17/Check.v agree (generated model vs real classes)"}, no_input=True)
    distinct = len({json.dumps(h) for h in hs if len(h) >= 4})
    ctx.coverage.update({
        "trusted_base": common.COQ_TRUSTED + [
            "translator harness/settings_tr.py (Python ast -> Gallina; fail-closed; class-attribute inheritance resolved statically; base classes assumed never used as contexts themselves)",
            "Python semantics of with/__enter__/__exit__, class attributes, list.append/pop as modelled in coq/C17/Generic.v (val, vappend, vpop)",
            "correspondence harness harness/c17.py (event executor, observers, sparse-diff comparator coq/C17/Check.v)"],
        "evaluations": len(cases), "distinct_nontrivial": distinct,
        "rule": "well-nested event histories (exhaustive up to length %d over two objects of each representative class kind and composite; "
                "3 fixed nested/re-entrant patterns for every class; random histories of length 4-30 over all classes, 1 in 5 not well nested); "
                "non-trivial = at least 4 events; distinct by event list" % (6 if ctx.quick else 7),
        "exhaustive_histories": n_ex, "mismatches": len(mism), "direct_property_failures": direct,
        "classes": len(meta["prim"]) + len(meta["comp"]),
        "samples": [hs[len(hs) // 3], hs[-1]],
        "traces_validated_against_impl": len(cases),
    })
    ctx.assumptions = ["setting base classes (_feature_flag, _value_context, _dtype_value_context) are not themselves used as contexts",
                       "single-threaded use (settings are process-global)"]


def fallback_meta():
    p = os.path.join(common.COQ, "C17", "gen", "settings_meta.json")
    if os.path.exists(p):
        try:
            return json.load(open(p))
        except Exception:
            return None
    return None


def replay(rp):
    meta = fallback_meta() or regenerate()
    real = Real(meta)
    h = [tuple(e) for e in rp.get("history", [])]
    obs = real.run(h)
    f = property_failure(meta, h, obs)
    print("history:", h)
    print("observed:", obs)
    print("property failure:" if f else "property holds on this history", f or "")
    return 1 if f else 0
