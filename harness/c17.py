"""C17 — settings contexts are properly scoped and never leak.

tie      : translator settings.py -> coq/C17/gen/Settings.v (theorems of Property.v are re-proved over it)
           + correspondence: event histories on the real classes vs `run` of the generated model
direct   : every observer of every class after every event of a structured grid of histories (harness/c17_spec.py:
           skeletons x construction placement x argument cells) compared with the reference SPECIFICATION
           (c17_spec.Spec: independent of the translated model) - run on every check, and it is the failing-input
           search when the translator rejects the source or a law no longer proves; findings are shrunk
"""
import importlib
import itertools
import json
import os
import random
import sys

from . import common, settings_tr, c17_spec
from .c17_spec import COMP_SPEC


def regenerate():
    gen = os.path.join(common.COQ, "C17", "gen")
    os.makedirs(gen, exist_ok=True)
    code, meta = settings_tr.translate(common.REPO)
    code = code.replace(" | c_", "\n    | c_").replace(" | k_", "\n    | k_").replace("; g_", ";\n    g_")
    p = os.path.join(gen, "Settings.v")
    if not os.path.exists(p) or open(p).read() != code:
        open(p, "w").write(code)
    json.dump(meta, open(os.path.join(gen, "settings_meta.json"), "w"), indent=1)
    return meta


# ----------------------------------------------------------------------------------------
# real classes

def load_real():
    for m in [m for m in sys.modules if m.startswith("linear_operator")]:
        pass
    import linear_operator.settings as S
    import linear_operator.beta_features as B
    import torch
    return S, B, torch


class Real:
    """Executes events on the real setting classes and observes every class after each event."""

    def __init__(self, meta):
        self.S, self.B, self.torch = load_real()
        self.meta = meta
        self.prim = meta["prim"]
        self.cls = {}
        for c in meta["prim"] + meta["comp"]:
            self.cls[c] = getattr(self.S, c, None) or getattr(self.B, c)
        t = self.torch
        self.dt = {"torch.float": t.float, "torch.double": t.double, "torch.half": t.half}
        self.slots = list(settings_tr.SLOTS) + ["probe_vectors"]
        # every class whose attributes a (possibly mutated) setter could write: the setting classes and their bases
        self.owners = []
        for c in self.prim:
            for k in self.cls[c].__mro__:
                if k is not object and k not in self.owners:
                    self.owners.append(k)
        self.saved = {k: {a: k.__dict__[a] for a in self.slots if a in k.__dict__} for k in self.owners}
        self.base_obs = None
        self.base_obs = [self.observe_cls(c) for c in self.prim]
        dp = self.cls.get("deterministic_probes")
        self.dp = dp if (dp is not None and "probe_vectors" in dp.__dict__) else None
        self.spec = c17_spec.Spec(meta, self.base_obs, lambda a: self.encode(self.decode(a)))

    def reset(self):
        for k in self.owners:
            for a in self.slots:
                if a in self.saved[k]:
                    if k.__dict__.get(a, self) is not self.saved[k][a]:
                        setattr(k, a, self.saved[k][a])
                elif a in k.__dict__:
                    delattr(k, a)

    def decode(self, v):
        """model value (python-side encoding) -> real python value"""
        if isinstance(v, str):
            return self.dt[v]
        return v

    def encode(self, v):
        """real value -> comparable/encodable token: None | bool | ('tok', n[, text]);  n = index in the
        translator's constant table (0 = numeric zero), the integer itself for harness values >= 1000,
        -2/-3 (+ text) for values unknown to the table"""
        t = self.torch
        if v is None or isinstance(v, bool):
            return v
        r = c17_spec.canon_repr(v, t)
        if r in self.meta["consts"]:
            i = self.meta["consts"].index(r)
            return ("tok", -i if (r.startswith("-") and r[1:2].isdigit()) else i)
        if isinstance(v, t.dtype):
            return ("tok", -2, r)
        if isinstance(v, int) and v >= 1000:
            return ("tok", v)
        return ("tok", -3, r[:60])

    def observe_cls(self, c):
        k = self.cls[c]
        out = []
        for o in self.meta["observers"][c]:
            try:
                if o == "on":
                    v = k.on()
                elif o == "off":
                    v = k.off()
                elif o == "value":
                    v = k.value()
                else:
                    v = k.value({"value_float": self.torch.float, "value_double": self.torch.double,
                                 "value_half": self.torch.half}[o])
                out.append(self.encode(v))
            except Exception:
                out.append(("tok", -1))
        return out

    def observe(self):
        d = []
        for i, c in enumerate(self.prim):
            o = self.observe_cls(c)
            if o != self.base_obs[i]:
                d.append((i, o))
        return d

    def run(self, hist):
        """hist: list of events ('new', kid, args) | ('enter', i) | ('exit', i) | ('exitexc', i)
        returns list of ('ok', sparse_obs, swallowed, stale_probe_cache) | ('err', repr, sparse_obs_afterwards)
        | ('skip', sparse_obs)   (event not executed because its construction / enter raised)

        probe cache: whenever deterministic_probes is on after an event, a tagged stand-in for the probe vectors is
        put into the (empty) cache, as _inv_quad_logdet does; a stand-in that survives a later enter/exit of a
        deterministic_probes context and is visible while the flag is on is reported as stale."""
        self.reset()
        objs, objk = [], []
        out = []
        ndp = 0
        pending = {}        # object index -> number of refused enters whose exit must not be executed
        for e in hist:
            if e[0] != "new" and (e[1] >= len(objs) or objs[e[1]] is None or (e[0] != "enter" and pending.get(e[1], 0) > 0)):
                # the construction or the enter this event belongs to was refused: the event does not happen
                if e[0] != "enter" and pending.get(e[1], 0) > 0:
                    pending[e[1]] -= 1
                out.append(("skip", self.observe()))
                continue
            try:
                sw = False
                if e[0] == "new":
                    objk.append(e[1])
                    objs.append(None)
                    objs[-1] = self.cls[e[1]](*[self.decode(a) for a in e[2]])
                elif e[0] == "enter":
                    objs[e[1]].__enter__()
                elif e[0] == "exit":
                    sw = bool(objs[e[1]].__exit__(None, None, None))
                else:
                    ex = ValueError("boom")
                    sw = bool(objs[e[1]].__exit__(ValueError, ex, None))
                stale = False
                if self.dp is not None:
                    if e[0] != "new" and "deterministic_probes" in c17_spec.touched(self.meta, objk[e[1]]):
                        ndp += 1
                    if self.dp.on() is True:
                        pv = self.dp.probe_vectors
                        if pv is not None and pv != ("probes", ndp):
                            stale = True
                        self.dp.probe_vectors = ("probes", ndp)
                out.append(("ok", self.observe(), sw, stale))
            except Exception as ex:
                try:
                    after = self.observe()
                except Exception:
                    after = [(-1, [])]
                out.append(("err", repr(ex)[:100], after))
                if e[0] == "enter":
                    pending[e[1]] = pending.get(e[1], 0) + 1     # Python: the block is not entered, __exit__ is not called
                    continue
                if e[0] == "new":
                    continue
                break
        self.reset()
        return out


# ----------------------------------------------------------------------------------------
# history generation

def arg_pool(meta, k):
    if k in meta["prim"]:
        kind = meta["kinds"][k]
        if kind == "KFlag":
            return [[True], [False]]
        if kind == "KValue":
            return [[1005], [1007], [0], [None]]
        base = [[a, b, c] for a in (None, 1005) for b in (None, 1007) for c in (None, 1009)]
        return base[:4] + [[0.0, None, None], [None, 0.0, 0.0]] + base[4:]      # incl. the falsy value 0.0
    n = len(meta["comp_info"][k]["params"])
    kinds = {meta["kinds"][p[1]] for p in meta["comp_info"][k]["parts"]}
    if kinds == {"KFlag"}:
        return [list(t) for t in itertools.product([True, False], repeat=n)]
    vals = ["torch.float", "torch.double", None]
    return [list(t) for t in itertools.product(["torch.float", "torch.double"], *([vals] * (n - 1)))]


def enum_bal(nobj_max, length, kids_args):
    """all well-nested histories of exactly `length` events over objects created by New events
    (kid/args alternatives given by kids_args), with exception exits; generator."""
    def rec(prefix, nobj, stack, remaining):
        if remaining == 0:
            if not stack:
                yield list(prefix)
            return
        if len(stack) > remaining:
            return
        if nobj < nobj_max:
            for ka in kids_args:
                prefix.append(("new", ka[0], ka[1]))
                yield from rec(prefix, nobj + 1, stack, remaining - 1)
                prefix.pop()
        for i in range(nobj):
            prefix.append(("enter", i))
            stack.append(i)
            yield from rec(prefix, nobj, stack, remaining - 1)
            stack.pop()
            prefix.pop()
        if stack:
            i = stack.pop()
            for kind in ("exit", "exitexc"):
                prefix.append((kind, i))
                yield from rec(prefix, nobj, stack, remaining - 1)
                prefix.pop()
            stack.append(i)
    yield from rec([], 0, [], length)


def random_hist(rng, meta, length, well_nested=True, kids=None):
    kids = kids or (meta["prim"] + meta["comp"])
    h, stack, nobj = [], [], 0
    objk = []
    while len(h) < length:
        r = rng.random()
        if nobj == 0 or (r < 0.3 and nobj < 6):
            # bias towards re-using a class already present (interference needs two objects of one class)
            k = rng.choice(objk) if (objk and rng.random() < 0.6) else rng.choice(kids)
            h.append(("new", k, rng.choice(arg_pool(meta, k))))
            objk.append(k)
            nobj += 1
        elif r < 0.65 or not stack:
            i = rng.randrange(nobj)
            h.append(("enter", i))
            stack.append(i)
        else:
            if well_nested:
                i = stack.pop()
            else:
                i = stack.pop(rng.randrange(len(stack)))
            h.append((rng.choice(["exit", "exit", "exitexc"]), i))
    while stack:
        h.append(("exit", stack.pop()))
    return h


# ----------------------------------------------------------------------------------------
# property predicates evaluated directly on the implementation's observations (search / triage)

def property_failure(meta, hist, obs):
    """bare scoping predicate (no specification of the effect needed): construct changes nothing, enter/exit touch
    only the object's own classes, exit restores what was in force before the matching enter.
    Returns None or (category, event index, text)."""
    stack = []
    cur = []
    objk = []
    news = [e for e in hist if e[0] == "new"]
    for j, e in enumerate(hist):
        if j >= len(obs):
            break
        o = obs[j]
        if o[0] == "skip":
            continue
        if o[0] == "err":
            if e[0] == "new":
                objk.append(e[1])
            if e[0] in ("new", "enter") and len(o) > 2 and c17_spec.invalid_args(e[2] if e[0] == "new" else news[e[1]][2]):
                if o[2] != cur:
                    return ("failed-enter-changes-settings", j, "refused %s changed settings: %s -> %s" % (e[0], cur, o[2]))
                continue
            return ("raises", j, "event %d %s raised %s" % (j, e, o[1]))
        new = o[1]
        if o[2]:
            return ("swallows-exception", j, "event %d %s: __exit__ returned a true value (would swallow the exception)" % (j, e))
        if e[0] == "new":
            objk.append(e[1])
            if new != cur:
                return ("construct-changes-settings", j, "constructing %s changed global settings: %s -> %s" % (e[1], cur, new))
        elif e[0] == "enter":
            stack.append((e[1], cur))
            k = objk[e[1]]
            ti = {meta["prim"].index(c) for c in c17_spec.touched(meta, k) if c in meta["prim"]}
            if {i: v for i, v in new if i not in ti} != {i: v for i, v in cur if i not in ti}:
                return ("enter-cross-talk", j, "entering %s changed an unrelated setting: %s -> %s" % (k, cur, new))
        else:
            if not stack or stack[-1][0] != e[1]:
                return None  # not well nested: outside the property
            i, saved = stack.pop()
            if new != saved:
                return ("exit-not-restored", j, "exit of object %d (%s) restored %s, but %s was in force before its entry" % (i, objk[i], new, saved))
        cur = new
    return None


# ----------------------------------------------------------------------------------------
# Coq case files

def val_lit(v):
    if v is None:
        return "VNone"
    if v is True:
        return "(VBool true)"
    if v is False:
        return "(VBool false)"
    if isinstance(v, tuple):
        return "(VTok %s)" % common.zlit(v[1])
    raise ValueError(v)


def arg_lit(meta, a):
    if isinstance(a, str):
        return "(VTok %d%%Z)" % meta["consts"].index(a)
    if isinstance(a, bool) or a is None:
        return val_lit(a)
    if isinstance(a, (int, float)) and a == 0:
        return "(VTok 0%Z)"            # token 0 = numeric zero
    if isinstance(a, int) and a >= 1000:
        return "(VTok %d%%Z)" % a
    raise ValueError(a)


def case_lit(meta, hist, obs):
    items = []
    for e, o in zip(hist, obs):
        if e[0] == "new":
            ev = "New kid k_%s [%s]" % (e[1], "; ".join(arg_lit(meta, a) for a in e[2]))
        else:
            ev = "%s kid %d" % ({"enter": "Enter", "exit": "Exit", "exitexc": "ExitExc"}[e[0]], e[1])
        if o[0] == "err":
            ex = "EErr"
        else:
            ex = "EOk [%s]" % "; ".join("(%d%%nat, [%s])" % (i, "; ".join(val_lit(x) for x in vs)) for i, vs in o[1])
        items.append("(%s, %s)" % (ev, ex))
    return "[" + "; ".join(items) + "]"


def shard_src(meta, cases):
    body = ";\n ".join(case_lit(meta, h, o) for h, o in cases)
    return ("From Coq Require Import List ZArith Bool.\nImport ListNotations.\n"
            "Require Import C17.Generic C17.gen.Settings C17.Check.\n"
            "Definition cases : list (list (ev' * expect)) := [\n %s].\n"
            "Eval vm_compute in (bad_cases cases 0).\n"
            "Eval vm_compute in (bad_cases_spec cases 0).\n" % body)


def parse_two_lists(out):
    """the two `= [..] : list nat` answers of a shard: (model mismatches, reference-semantics mismatches)"""
    import re
    ms = re.findall(r"=\s*\[(.*?)\]\s*:\s*list", out, re.S)
    if len(ms) != 2:
        return None
    res = []
    for body in ms:
        body = body.strip()
        try:
            res.append([int(x) for x in body.replace("\n", " ").split(";") if x.strip()] if body else [])
        except ValueError:
            return None
    return res




# ----------------------------------------------------------------------------------------
# the two sets of histories

def histories(ctx, meta):
    """correspondence set (goes through the Coq shards as well)"""
    rng = random.Random(ctx.seed)
    hs = []
    reps = {"KFlag": ["debug", "deterministic_probes"], "KValue": ["cholesky_max_tries"], "KDtype": ["cholesky_jitter"]}
    reps = {k: [c for c in v if c in meta["prim"]] or [c for c in meta["prim"] if meta["kinds"][c] == k][:1] for k, v in reps.items()}
    groups = []
    for kind, cs in reps.items():
        for c in cs:
            pool = arg_pool(meta, c)
            groups.append([(c, pool[0]), (c, pool[-2] if len(pool) > 2 else pool[-1])])
    for c in meta["comp"]:
        pool = arg_pool(meta, c)
        groups.append([(c, pool[1]), (c, pool[-1])])
    maxlen = 6 if ctx.quick else 7
    n_ex = 0
    for g in groups:
        for L in range(2, maxlen + 1):
            for h in enum_bal(2, L, g):
                hs.append(h)
                n_ex += 1
    # every class at least once in a nested pattern with construction before another entry
    for k in meta["prim"] + meta["comp"]:
        pool = arg_pool(meta, k)
        a, b = pool[0], pool[1 % len(pool)]
        hs.append([("new", k, a), ("new", k, b), ("enter", 1), ("enter", 0), ("exit", 0), ("exit", 1)])
        hs.append([("new", k, b), ("enter", 0), ("enter", 0), ("exitexc", 0), ("exit", 0)])
        hs.append([("new", k, a), ("enter", 0), ("new", k, b), ("enter", 1), ("exit", 1), ("exit", 0), ("enter", 1), ("exit", 1)])
    n_rand = 600 if ctx.quick else 6000
    for i in range(n_rand):
        hs.append(random_hist(rng, meta, rng.randrange(4, 31), well_nested=(i % 5 != 0)))
    return hs, n_ex


def pick_values(ctx, meta, n):
    """the seed only picks the VALUES: n distinct integers >= 1001 that are no constant of the source
    (distinct from every default and from each other, so that an observation tells which context wrote it)"""
    rng = random.Random(ctx.seed * 1000003 + 17)
    vals = []
    while len(vals) < n:
        v = rng.randrange(1001, 9000)
        if repr(v) not in meta["consts"] and v not in vals:
            vals.append(v)
    return vals


def direct_grid(ctx, meta):
    """structured grid for the direct comparison with the reference specification (see c17_spec):
    returns (histories, {family: count})"""
    S = c17_spec
    v = pick_values(ctx, meta, 14)
    vals = [v[0:3], v[3:6], v[6:9]]
    prim, kinds, comp = meta["prim"], meta["kinds"], meta["comp"]
    sk2 = S.skeletons(2, 2)
    sk3 = [s for s in S.skeletons(3, 2) if len(s) == 6]
    sk4 = [] if ctx.quick else [s for s in S.skeletons(4, 2) if len(s) == 8]
    # (skeletons used with every cell and every placement, skeletons used with the reduced cells and the
    #  earliest/latest placements): representative primitive classes / composites and pairs of classes
    rep_full, rep_red = (sk2, sk3) if ctx.quick else (sk2 + sk3, sk4)
    cmp_full, cmp_red = (sk2, sk3) if ctx.quick else (sk2, sk3 + sk4)
    out, fam = [], {}

    def add(name, hs):
        fam[name] = fam.get(name, 0) + len(hs)
        out.extend(hs)

    reps = [c for c in ("debug", "deterministic_probes", "default_preconditioner", "cholesky_max_tries", "_linalg_dtype_symeig") if c in prim]
    for kind in ("KFlag", "KValue"):
        if not any(kinds[c] == kind for c in reps):
            reps += [c for c in prim if kinds[c] == kind][:1]
    ndt = 0
    for k in prim:
        kind = kinds[k]
        if kind == "KDtype":
            full, red = S.dtype_cells(k, vals, 0.0)
            ndt += 1
            if ndt <= 2:
                add("dtype-subsets:" + k, S.family(rep_full, rep_red, full, red))
            else:
                add("dtype-subsets-reduced", S.family([], sk2, [], red))
            tr = [[(k, [vals[j][s] if s in sub[j] else None for s in range(3)]) for j in range(3)]
                  for sub in (((0,), (1,), (2,)), ((0, 1), (1, 2), (0, 2)), ((), (0, 1, 2), (1,)), ((2,), (0,), (0, 1, 2)))]
            for t in tr:
                add("dtype-three-objects", S.triple_histories(t))
            continue
        if kind == "KFlag":
            pool = [(k, [True]), (k, [False])]
            red = S.pool_cells(pool)
            t3 = [(k, [True]), (k, [False]), (k, [True])]
        else:
            if k.startswith("_linalg_dtype"):
                pool = [(k, ["torch.float"]), (k, ["torch.half"]), (k, ["torch.double"]), (k, [None])]
            else:
                pool = [(k, [v[9]]), (k, [v[10]]), (k, [0]), (k, [None])]
            red = [(pool[0], pool[1]), (pool[0], pool[3]), (pool[3], pool[1]), (pool[2], pool[0]), (pool[0], pool[0])]
            t3 = [pool[0], pool[1], pool[2]]
        if k in reps:
            add("%s:%s" % (kind, k), S.family(rep_full, rep_red, S.pool_cells(pool), red))
            add("three-objects", S.triple_histories(t3))
        else:
            add("%s-other-classes" % kind, S.family([], sk2, [], red))
    # composites together with their parts
    if "fast_computations" in comp:
        c = "fast_computations"
        pool = [(c, [True, False, True]), (c, [False, False, False]), (c, [False, True, True]), (c, [True, True, False])]
        pool += [(p, [False]) for p in S.touched(meta, c)] + [(S.touched(meta, c)[-1], [True])]
        add("composite+parts:" + c, S.family(cmp_full, cmp_red, S.pool_cells(pool), S.pool_cells(pool[:2] + pool[4:6])))
        add("three-objects", S.triple_histories([pool[0], pool[4], pool[1]]) + S.triple_histories([pool[6], pool[2], pool[7]]))
    if "linalg_dtypes" in comp:
        c = "linalg_dtypes"
        pool = [(c, ["torch.float", None, None]), (c, ["torch.double", "torch.float", None]), (c, ["torch.float", None, "torch.double"]),
                (c, ["torch.half", "torch.float", "torch.double"]), (c, ["torch.double", "torch.half", "torch.half"])]
        for p in S.touched(meta, c):
            pool += [(p, ["torch.float"]), (p, ["torch.half"])]
        add("composite+parts:" + c, S.family(cmp_full, cmp_red, S.pool_cells(pool), S.pool_cells(pool[1:3] + pool[5:7])))
        add("three-objects", S.triple_histories([pool[1], pool[5], pool[2]]) + S.triple_histories([pool[6], pool[3], pool[8]]))
    # two different classes (same kind: a class attribute shared through the base class; different kinds)
    pairs = []
    byk = {kd: [c for c in prim if kinds[c] == kd] for kd in ("KFlag", "KValue", "KDtype")}
    for kd in ("KFlag", "KValue", "KDtype"):
        cs = byk[kd]
        pairs += [(cs[i], cs[(i + 1) % len(cs)]) for i in range(len(cs))] if len(cs) > 1 else []
    for a, b in (("debug", "cholesky_max_tries"), ("cholesky_jitter", "deterministic_probes"), ("cholesky_max_tries", "cholesky_jitter"),
                 ("tridiagonal_jitter", "cholesky_jitter"), ("fast_computations", "debug"), ("linalg_dtypes", "cholesky_max_tries"),
                 ("fast_computations", "linalg_dtypes")):
        if a in prim + comp and b in prim + comp:
            pairs.append((a, b))

    def one_arg(k, j):
        if k in comp:
            return arg_pool(meta, k)[1 + j]
        return {"KFlag": [j == 0], "KValue": ["torch.float" if k.startswith("_linalg_dtype") else v[11 + j]],
                "KDtype": [vals[j][0], None, vals[j][2]] if j == 0 else [None, vals[j][1], None]}[kinds[k]]
    named = set(pairs[-7:])
    for a, b in pairs:
        cells = [((a, one_arg(a, 0)), (b, one_arg(b, 1))), ((b, one_arg(b, 0)), (a, one_arg(a, 1)))]
        add("two-classes", S.family(sk2, sk3 + (sk4 if (a, b) in named else []), cells, cells))
    if all(c in prim for c in ("debug", "cholesky_max_tries", "cholesky_jitter")):
        add("three-objects", S.triple_histories([("debug", [False]), ("cholesky_max_tries", [v[9]]), ("cholesky_jitter", [None, vals[0][1], None])]))
    # every class with every argument of its pool: a plain block
    for k in prim + comp:
        for a in arg_pool(meta, k):
            add("plain-block", [[("new", k, a), ("enter", 0), ("exit", 0)]])
    return out, fam


def refused_grid(ctx, meta):
    """histories in which a construction / enter may legitimately be REFUSED (a negative number among the arguments,
    placed after valid ones): alone, inside a valid block of the same class (normal and exceptional unwinding),
    followed by a later valid use, and re-used.  Whether the enter raises is decided by the implementation; the
    runner then leaves out the matching exit (Python does not call __exit__ when __enter__ raised)."""
    v = pick_values(ctx, meta, 14)
    hs = []
    for k in meta["prim"]:
        kind = meta["kinds"][k]
        if kind == "KDtype":
            valid = [v[0], v[1], v[2]]
            inv = [[v[3], -1.0, None], [v[3], v[4], -1.0], [-1.0, None, None], [None, v[3], -1.0], [None, None, -2.5], [-1.0, -1.0, -1.0]]
        elif kind == "KValue" and not k.startswith("_linalg_dtype"):
            valid = [v[5]]
            inv = [[-3]]
        else:
            continue
        for a in inv:
            hs.append([("new", k, a), ("enter", 0), ("exit", 0)])
            hs.append([("new", k, a), ("enter", 0), ("exit", 0), ("enter", 0), ("exitexc", 0)])
            for x in ("exit", "exitexc"):
                hs.append([("new", k, valid), ("new", k, a), ("enter", 0), ("enter", 1), ("exit", 1), (x, 0)])
            hs.append([("new", k, a), ("enter", 0), ("exit", 0), ("new", k, valid), ("enter", 1), ("exit", 1)])
            hs.append([("new", k, a), ("new", k, valid), ("enter", 1), ("enter", 0), ("exit", 0), ("enter", 1), ("exit", 1), ("exit", 1)])
    return hs


# ----------------------------------------------------------------------------------------
# first use in a FRESH process (class attributes never assigned, nothing imported or warned about before)

def first_use_plans(ctx, meta, wide):
    """one list of histories per fresh process; the first history of each list is the first use of a context in
    that process, with arguments that differ from the current values of all other settings; it is followed by a
    second use and a nested use.  wide (search after a broken obligation): every composite in two argument
    patterns, every private class, the beta features, one representative per kind; otherwise a small dose."""
    v = pick_values(ctx, meta, 14)
    prim, comp, kinds = meta["prim"], meta["comp"], meta["kinds"]

    def plan(k, a, b):
        blk = lambda x: [("new", k, x), ("enter", 0), ("exit", 0)]
        return [blk(a), blk(a), [("new", k, a), ("new", k, b), ("enter", 0), ("enter", 1), ("exitexc", 1), ("exit", 0)], blk(b)]

    def args(k, j):
        if k == "linalg_dtypes":
            return [["torch.double", "torch.float", None], ["torch.float", None, "torch.double"], ["torch.half", None, None]][j % 3]
        if k == "fast_computations":
            return [[False, True, False], [True, False, True], [False, False, False]][j % 3]
        if k in comp:
            return arg_pool(meta, k)[j % len(arg_pool(meta, k))]
        if kinds[k] == "KFlag":
            return [[True], [False]][j % 2]
        if kinds[k] == "KDtype":
            return [[v[0], None, v[1]], [None, v[2], None]][j % 2]
        if k.startswith("_linalg_dtype"):
            return [["torch.float"], ["torch.half"]][j % 2]
        return [v[3 + j % 2]]
    plans = []
    for k in comp:
        plans.append(plan(k, args(k, 0), args(k, 1)))
    if wide:
        for k in comp:
            plans.append(plan(k, args(k, 1), args(k, 2)))
        reps = [c for c in prim if c.startswith("_")] + [c for c in ("default_preconditioner", "deterministic_probes", "debug",
                                                                        "cholesky_jitter", "cholesky_max_tries", "tridiagonal_jitter") if c in prim]
        for k in reps:
            plans.append(plan(k, args(k, 0), args(k, 1)))
    else:
        for k in [c for c in ("cholesky_jitter",) if c in prim]:
            plans.append(plan(k, args(k, 0), args(k, 1)))
    return plans


def _norm_obs(obs):
    def sp(x):
        return [(i, [tuple(y) if isinstance(y, list) else y for y in vs]) for i, vs in x]
    out = []
    for o in obs:
        if o[0] == "ok":
            out.append(("ok", sp(o[1]), o[2], o[3]))
        elif o[0] == "err":
            out.append(("err", o[1], sp(o[2])))
        else:
            out.append(("skip", sp(o[1])))
    return out


def fresh_worker():
    """runs in a fresh interpreter: stdin = {"meta":…, "hists":[…]} ; stdout = last line JSON list of observation lists"""
    d = json.load(sys.stdin)
    real = Real(d["meta"])
    res = []
    for h in d["hists"]:
        h = [tuple(e) for e in h]
        res.append(real.run(h))
    sys.stdout.write("\nC17FRESH " + json.dumps(res) + "\n")


def run_fresh(meta, plans):
    """[(history, observations, first_use: bool)] — each plan in its own interpreter, at most 3 at a time"""
    import subprocess
    from concurrent.futures import ThreadPoolExecutor

    def one(hists):
        try:
            p = subprocess.run([sys.executable, "-W", "ignore", "-c", "from harness import c17; c17.fresh_worker()"],
                               input=json.dumps({"meta": meta, "hists": hists}), capture_output=True, text=True, timeout=300,
                               cwd=common.VERIF)
            line = [l for l in p.stdout.split("\n") if l.startswith("C17FRESH ")]
            if not line:
                return hists, None, (p.stderr or p.stdout)[-400:]
            return hists, [_norm_obs(o) for o in json.loads(line[-1][9:])], None
        except Exception as ex:
            return hists, None, repr(ex)
    out = []
    with ThreadPoolExecutor(max_workers=3) as ex:
        for hists, obs, err in ex.map(one, plans):
            if obs is None:
                out.append((hists[0], None, err))
                continue
            for j, (h, o) in enumerate(zip(hists, obs)):
                out.append(([tuple(e) if e[0] != "new" else (e[0], e[1], list(e[2])) for e in h], o, j == 0))
    return out


def search_fresh(ctx, meta, real, wide):
    """direct predicate on first-use runs in fresh processes; returns (number of violations reported, runs made)"""
    runs = run_fresh(meta, first_use_plans(ctx, meta, wide))
    found, seen = 0, set()
    for h, obs, first in runs:
        if obs is None:
            ctx.violation({"kind": "fresh-process-run-failed", "history": h, "error": first}, no_input=True)
            found += 1
            continue
        f = failure_of(meta, real, h, obs)
        if not f or f[0] in seen:
            continue
        seen.add(f[0])
        ctx.violation({"kind": "scoping-failure", "history": h, "observed": obs, "expected": real.spec.run(h, obs), "what": f[2],
                       "category": f[0], "python": c17_spec.pretty(meta, h, obs), "fresh_process": True, "first_use_in_process": bool(first),
                       "constants": dict(enumerate(meta["consts"]))},
                      key={"what": f[0], "class": next(e[1] for e in h if e[0] == "new"), "event": h[f[1]][0], "fresh": True})
        found += 1
    return found, len(runs)


# ----------------------------------------------------------------------------------------
# direct predicate + search

def failure_of(meta, real, h, obs):
    """(category, event index, text) or None: reference specification first, then the bare scoping predicate
    (covers contexts for which no specification of the effect is available)"""
    return c17_spec.spec_failure(meta, real.spec, h, obs) or property_failure(meta, h, obs)


def search_real(ctx, meta, hs, real, limit=3):
    """evaluate the property directly on the implementation; report concrete failing histories: for every kind of
    failure (category x class kind) the history with the shortest failing prefix, shrunk to a local minimum"""
    best = {}

    def who(h, f):
        objk = [e[1] for e in h if e[0] == "new"]
        ev = h[f[1]]
        return (ev[1] if ev[0] == "new" else objk[ev[1]]), ev[0]
    for h in hs:
        obs = real.run(h)
        f = failure_of(meta, real, h, obs)
        if not f:
            continue
        sig = (f[0], meta["kinds"].get(who(h, f)[0], "comp"))
        if sig not in best or f[1] < best[sig][1][1]:
            best[sig] = (h, f)
    shrunk = []
    for sig, (h, f) in best.items():
        hm, fm = c17_spec.shrink(h, lambda c: failure_of(meta, real, c, real.run(c)),
                                 dtype_classes=[c for c in meta["prim"] if meta["kinds"][c] == "KDtype"])
        shrunk.append((len(hm), json.dumps(hm), hm, fm, h))
    shrunk.sort(key=lambda t: t[:2])
    found, seen = 0, set()
    for _, js, hm, fm, h in shrunk:
        if js in seen:
            continue
        seen.add(js)
        k, evk = who(hm, fm)
        om = real.run(hm)
        ctx.violation({"kind": "scoping-failure", "history": hm, "observed": om, "expected": real.spec.run(hm, om), "what": fm[2],
                       "category": fm[0], "python": c17_spec.pretty(meta, hm, om), "found_as": h if h != hm else None,
                       "constants": dict(enumerate(meta["consts"]))},
                      key={"what": fm[0], "class": k, "event": evk})
        found += 1
        if found >= limit:
            break
    return found


def run(ctx):
    n_obl = len(common.property_obligations("C17"))
    try:
        meta = regenerate()
        tr_err = None
    except settings_tr.Untranslatable as ex:
        meta, tr_err = None, str(ex)
    if meta is None:
        # fail closed: the model cannot be regenerated -> obligation broken; search the real classes with a class
        # table obtained by introspection (independent of the translator and of earlier runs)
        ctx.say("translator rejected settings.py:", tr_err)
        S, B, torch = load_real()
        meta_i = c17_spec.introspect_meta(S, B, torch)
        real = Real(meta_i)
        dg, fam = direct_grid(ctx, meta_i)
        rg = refused_grid(ctx, meta_i)
        hs, _ = histories(ctx, meta_i)
        found = search_real(ctx, meta_i, dg + rg + hs, real)
        if not found:
            found = search_fresh(ctx, meta_i, real, wide=True)[0]
        if not found:
            ctx.violation({"kind": "translator-rejected-source", "error": tr_err,
                           "obligation": "coq/C17/gen/Settings.v could not be regenerated; C17_scoping is not re-proved"}, no_input=True)
        ctx.coverage.update({"obligations": n_obl, "discharged": 0, "checker_cmd": "translator failed", "trusted_base": common.COQ_TRUSTED,
                             "evaluations": len(dg) + len(hs), "distinct_nontrivial": 0, "rule": "translator failed; direct search only",
                             "samples": [tr_err, "searched %d histories" % (len(dg) + len(hs))]})
        return
    real = Real(meta)
    hs, n_ex = histories(ctx, meta)
    dg, fam = direct_grid(ctx, meta)
    rg = refused_grid(ctx, meta)
    fam["refused-enter"] = len(rg)

    def on_fail(info):
        return search_real(ctx, meta, dg + rg + hs, real) > 0 or search_fresh(ctx, meta, real, wide=True)[0] > 0
    ok = common.proof_stage(ctx, on_fail)
    direct = search_real(ctx, meta, dg + rg + hs, real) if ok else 0
    n_fresh = 0
    if ok:
        nf, n_fresh = search_fresh(ctx, meta, real, wide=not ctx.quick)
        direct += nf
    # correspondence (model vs implementation): the correspondence set + a deterministic sample of the direct grid
    stride = max(1, len(dg) // (1600 if ctx.quick else 12000))
    chs = hs + dg[::stride]
    cases = [(h, real.run(h)) for h in chs]
    for f in os.listdir(ctx.gen):                      # stale shards of earlier (wider) runs
        if f.startswith("cases_c17_") and f.endswith(".v"):
            os.remove(os.path.join(ctx.gen, f))
    shards = []
    SH = 400
    for i in range(0, len(cases), SH):
        shards.append(("c17_%d" % (i // SH), shard_src(meta, cases[i:i + SH])))
    mism, mism_spec = [], []
    if ok:
        res = {}
        for i in range(0, len(shards), 3):          # at most 3 coqc at a time
            res.update(common.run_shards(ctx, shards[i:i + 3]))
        for si, (name, _) in enumerate(shards):
            rc, out = res[name]
            two = parse_two_lists(out) if rc == 0 else None
            if two is None:
                ctx.violation({"kind": "shard-failed", "shard": name, "out": out[-500:]}, no_input=True)
                continue
            mism += [si * SH + b for b in two[0]]
            mism_spec += [si * SH + b for b in two[1]]
        for m in mism[:5]:
            h, o = cases[m]
            f = failure_of(meta, real, h, o)
            if f:
                ctx.violation({"kind": "scoping-failure", "history": h, "observed": o, "what": f[2], "category": f[0]},
                              key={"what": f[0]})
            else:
                ctx.violation({"kind": "model-implementation-disagreement", "history": h, "observed": o,
                               "correspondence": "coq/C17/Check.v agree (generated model vs real classes)"}, no_input=True)
        for m in [x for x in mism_spec if x not in mism][:5]:
            # the implementation agrees with the proven model but not with the Gallina reference semantics
            h, o = cases[m]
            f = failure_of(meta, real, h, o)
            if f:
                ctx.violation({"kind": "scoping-failure", "history": h, "observed": o, "what": f[2], "category": f[0]},
                              key={"what": f[0]})
            else:
                ctx.violation({"kind": "reference-semantics-disagreement", "history": h, "observed": o,
                               "correspondence": "coq/C17/Check.v agree_spec (Generic.srun vs real classes) although the Python "
                                                 "reference harness/c17_spec.py accepts the run"}, no_input=True)
    allh = {json.dumps(h) for h in hs + dg}
    distinct = len({x for x in allh if x.count("[\"enter\"") + x.count("[\"exit") + x.count("[\"new\"") >= 4})
    nobs = sum(len(v) for v in meta["observers"].values())
    ctx.coverage.update({
        "trusted_base": common.COQ_TRUSTED + [
            "translator harness/settings_tr.py (Python ast -> Gallina; fail-closed; class-attribute inheritance resolved statically; base classes assumed never used as contexts themselves)",
            "Python semantics of with/__enter__/__exit__, class attributes, truthiness, list append/pop as modelled in coq/C17/Generic.v (val, truthy, vappend, vpop)",
            "reference specification harness/c17_spec.py (Spec; mirrors spec_enter / spec_composite_args of the Coq development; validated against "
            "the proven model on every green run: both agree with the implementation on the same histories)",
            "correspondence harness harness/c17.py (event executor, observers, sparse-diff comparator coq/C17/Check.v)"],
        "evaluations": len(cases) + len(dg) + len(rg) + len(hs) + n_fresh, "distinct_nontrivial": distinct,
        "rule": "correspondence set: well-nested event histories (exhaustive up to length %d over two objects of each representative class kind and composite; "
                "3 fixed nested/re-entrant patterns for every class; random histories of length 4-30 over all classes, 1 in 5 not well nested) + every "
                "%d-th history of the direct grid; direct grid: enter/exit skeletons (all balanced shapes with <= %d pairs over two objects, all labellings, "
                "normal/exceptional/alternating exits) x construction placements (every point up to the first enter) x argument cells (per-dtype: all 8x8 subsets "
                "of {float,double,half} with pairwise distinct values + zero-valued cells; flags; values incl. 0 and None; composites with their parts; pairs of "
                "different classes; three objects nested in every order); after every event ALL %d observers of all %d classes are compared with the reference "
                "specification; non-trivial = at least 4 events; distinct by event list"
                % (6 if ctx.quick else 7, stride, 3 if ctx.quick else 4, nobs, len(meta["prim"])),
        "exhaustive_histories": n_ex, "mismatches": len(mism), "mismatches_reference_semantics": len(mism_spec), "direct_property_failures": direct,
        "direct_grid": len(dg) + len(rg), "direct_grid_families": fam, "fresh_process_runs": n_fresh, "correspondence_cases": len(cases),
        "observer_reads_direct": sum(len(h) for h in dg + hs) * nobs,
        "values_picked_by_seed": pick_values(ctx, meta, 14),
        "classes": len(meta["prim"]) + len(meta["comp"]),
        "samples": [hs[len(hs) // 3], dg[len(dg) // 2], dg[-1]],
        "traces_validated_against_impl": len(cases),
    })
    ctx.assumptions = ["setting base classes (_feature_flag, _value_context, _dtype_value_context) are not themselves used as contexts",
                       "single-threaded use (settings are process-global)",
                       "setting values are scalars / dtypes (no mutable containers), flags are entered with True/False"]


def replay(rp):
    try:
        _, meta = settings_tr.translate(common.REPO)      # class table only; gen/ is left alone
    except settings_tr.Untranslatable:
        S, B, torch = load_real()
        meta = c17_spec.introspect_meta(S, B, torch)
    real = Real(meta)
    h = [tuple(e) for e in rp.get("history", [])]
    h = [(e[0], e[1], list(e[2])) if e[0] == "new" else e for e in h]
    obs = real.run(h)
    f = failure_of(meta, real, h, obs)
    print(c17_spec.pretty(meta, h, obs))
    print("history:", h)
    print("observed:", obs)
    print("expected:", real.spec.run(h, obs))
    print("property failure:" if f else "property holds on this history", f[2] if f else "")
    return 1 if f else 0
