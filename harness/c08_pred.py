"""C08: the property predicates evaluated directly on the implementation's outputs with an independent
dense float64 oracle (torch.linalg on the dense matrices; never linear_cg / never the Coq model)."""
import math

import torch

from . import c08_sys as S

F64 = torch.float64


def mach_eps(spec):
    return 6e-8 if spec.get("dtype") == "float32" else 1.2e-16


def as_run(t, spec):
    """master float64 tensor -> the values the implementation actually saw (dtype cast), as float64"""
    if t is None:
        return None
    if spec.get("dtype") == "float32":
        return t.to(torch.float32).to(F64)
    return t.to(F64)


def eff_limits(sp, obs):
    st = obs["settings"]
    mi = sp.get("max_iter")
    mi = st["max_cg"] if mi is None else mi
    mt = sp.get("max_tridiag_iter")
    mt = st["max_lq"] if mt is None else mt
    tol = sp.get("tol")
    tol = st["tol"] if tol is None else tol
    return mi, mt, tol


def expected_error(sp, obs):
    """the raise the property demands (independent restatement: inconsistent limits, bad closure, NaN)"""
    mi, mt, _ = eff_limits(sp, obs)
    if mt > mi:
        return "ErrTridiagLimit"
    if sp.get("mc", "callable") not in ("callable", "tensor"):
        return "ErrNotCallable"
    if sp.get("poison") or sp.get("x0") == "nan":
        return "ErrNaN"
    return None


def fail(sp, check, what, detail=None, symptom=None):
    return {"spec": sp, "check": check, "what": what, "detail": detail, "symptom": symptom}


def result_full(sp, obs):
    """result as float64 (*batch, n, c) ; None if the shape is not what the squeeze rule allows"""
    batch, n, c = S.full_shapes(sp)
    r = obs["res"].to(F64)
    want = (*batch, n, c)
    if tuple(r.shape) == want:
        return r, False
    if c == 1 and tuple(r.shape) == (*batch, n):
        return r.unsqueeze(-1), True
    return None, None


def sym(obs):
    if obs["err"] is not None:
        return "raises-" + (obs["err"].split(":")[1] if obs["err"].startswith("other:") else obs["err"])
    if obs["res"] is not None and not bool(torch.isfinite(obs["res"]).all()):
        return "nan-result"
    return "wrong-values"


def regular_iters(sp, obs, A):
    """number of leading loop bodies, per (batch, column), in which the safe division by p^T A p (lines 68 / 254) cannot
    have fired: p_k^T A p_k >= 10 * eps, computed with the dense oracle from the recorded closure arguments p_k.
    None when the closure calls were not recorded (tensor closure)."""
    calls = obs.get("mm_calls")
    if calls is None:
        return None
    batch, n, c = S.full_shapes(sp)
    eps = sp.get("eps") if sp.get("eps") is not None else 1e-10
    reg = torch.zeros(*batch, c, dtype=torch.long)
    alive = torch.ones(*batch, c, dtype=torch.bool)
    for k in range(1, len(calls)):
        try:
            pk = S.expand_cols(calls[k], sp)
        except RuntimeError:      # the closure was called with something that is not (*batch, n, c): no statement
            return None
        pAp = (pk * (A @ pk)).sum(-2)
        alive = alive & (pAp >= 10 * eps) & torch.isfinite(pAp)
        reg = reg + alive.long()
    return reg


def check_system(spec, T, runs, cnt, single=False):
    """runs: list of (run spec, observation) for one system (budgets ascending).  Returns (failures, #evaluations)"""
    fails, ne = [], 0
    batch, n, c = S.full_shapes(spec)
    A = as_run(T["A"], spec)
    rhs = S.expand_cols(as_run(T["rhs"], spec), spec)
    finite_inputs = not (spec.get("poison") or spec.get("x0") == "nan")
    me = mach_eps(spec)
    x0 = None if T["x0"] is None else S.expand_cols(as_run(T["x0"], spec), spec)
    lam = torch.linalg.eigvalsh(A) if finite_inputs else None
    kappa = float((lam[..., -1] / lam[..., 0]).max()) if finite_inputs else float("nan")
    normA = float(lam[..., -1].max()) if finite_inputs else float("nan")
    xstar = torch.linalg.solve(A, rhs) if finite_inputs else None
    bnorm = rhs.norm(dim=-2, keepdim=True) if finite_inputs else None
    good = []       # (budget iterations executed, spec, obs, x)
    for sp, obs in runs:
        ne += 1
        if obs.get("settings_read") is not None and obs["settings_read"] != obs["settings"]:
            fails.append(fail(sp, "settings-value", "inside its contexts the library reports the limits %s, the caller asked for %s: the "
                              "configuration in force is not the one that was set" % (obs["settings_read"], obs["settings"]), symptom="settings"))
        ne += 1
        exp = expected_error(sp, obs)
        if obs["err"] != exp:
            if obs["err"] is None:
                fails.append(fail(sp, "raises", "linear_cg returned although %s was demanded" % exp, symptom="no-raise"))
            else:
                fails.append(fail(sp, "raises", "linear_cg raised %s, expected %s" % (obs["err"], exp or "a result"), symptom=sym(obs)))
            continue
        if exp is not None:
            continue
        x, squeezed = result_full(sp, obs)
        if x is None:
            fails.append(fail(sp, "shape", "result has shape %s" % (tuple(obs["res"].shape),), symptom="shape"))
            continue
        # squeeze rule: 1-D in -> 1-D out as decided by the LAST of (rhs, initial_guess) that was given
        vec_flag = bool(sp.get("rhs_vec"))
        if T["x0"] is not None:
            vec_flag = T["x0"].dim() == 1
        ne += 1
        if squeezed != (vec_flag and c == 1):
            fails.append(fail(sp, "shape", "squeeze rule: result ndim %d" % obs["res"].dim(), symptom="shape"))
        ne += 1
        if not bool(torch.isfinite(x).all()):
            fails.append(fail(sp, "finite", "non-finite entries in the result for finite SPD inputs", symptom="nan-result"))
            continue
        its = (len(obs["mm_calls"]) - 1) if obs["mm_calls"] is not None else None
        _, _, tol = eff_limits(sp, obs)
        eps = sp.get("eps") if sp.get("eps") is not None else 1e-10
        stop = sp.get("stop") if sp.get("stop") is not None else 1e-10
        rhs_zero = bnorm < eps
        nrm = torch.where(rhs_zero, torch.ones_like(bnorm), bnorm)
        xh = x / nrm
        rtrue = rhs / nrm - A @ xh
        rn = rtrue.norm(dim=-2, keepdim=True)
        drift = 2e3 * me * (normA * xh.norm(dim=-2, keepdim=True) + 1.0) * math.sqrt(n)
        # zero right-hand side, default guess -> exactly zero
        if T["x0"] is None:
            for j, kd in enumerate(spec["cols"]):
                if kd == "z":
                    ne += 1
                    if bool((x[..., j] != 0).any()):
                        fails.append(fail(sp, "zero-column", "column %d has zero rhs but the result is not 0" % j))
        # finishing without a NumericalWarning means the tolerance was reached
        ne += 1
        rn_masked = torch.where(rhs_zero, torch.zeros_like(rn), rn)
        mi_eff, _, _ = eff_limits(sp, obs)
        if not obs["warn"] and mi_eff >= 1:
            executed = its if its is not None else 1
            bound = tol if executed >= 1 else max(stop, 0.0)
            if executed == 0 and its is not None:
                # early-convergence shortcut: every column (unmasked) below stop_updating_after
                if bool((rn > stop + drift).any()):
                    fails.append(fail(sp, "no-warning", "no iteration and no warning, but a residual norm is %g >= stop_updating_after" % float(rn.max())))
            elif float(rn_masked.mean()) >= bound + float(drift.mean()):
                fails.append(fail(sp, "no-warning", "no NumericalWarning but mean relative residual %g >= tolerance %g" % (float(rn_masked.mean()), tol)))
        # the warning text reports the residual the loop carries: it must be the true residual
        if obs["warn"] and obs["wmean"] is not None:
            ne += 1
            if abs(obs["wmean"] - float(rn_masked.mean())) > float(drift.mean()) + 1e-4 * abs(obs["wmean"]):
                fails.append(fail(sp, "true-residual", "warning reports mean residual %g, true mean residual is %g" % (obs["wmean"], float(rn_masked.mean()))))
        if obs["warn"] and obs["wk"] is not None and its is not None:
            ne += 1
            if obs["wk"] != its:
                fails.append(fail(sp, "warning-text", "warning reports %d iterations, %d loop bodies called the closure" % (obs["wk"], its)))
        good.append((its, sp, obs, x, xh, rn, drift, nrm))
        # t_mat
        if sp.get("n_tridiag"):
            f, k = check_tmat(sp, T, obs, A, its)
            fails += f
            ne += k
    if single or not good:
        return fails, ne
    # ---- relations between budgets
    errs = []
    for (its, sp, obs, x, xh, rn, drift, nrm) in good:
        e = xstar - x
        errs.append(S.anorm(A, e))          # (*batch, c)
    xs_norm = S.anorm(A, xstar)
    slack = 200 * me * kappa
    for a in range(len(good) - 1):
        ia, ib = good[a][0], good[a + 1][0]
        if ia is not None and ib is not None and ib < ia:
            fails.append(fail(good[a + 1][1], "budget-monotone", "larger budget executed fewer loop bodies (%d < %d)" % (ib, ia)))
        ne += 1
        worse = errs[a + 1] > errs[a] * (1 + 1e-9) + slack * xs_norm + 1e-300
        if bool(worse.any()):
            idx = torch.nonzero(worse)[0].tolist()
            fails.append(fail(good[a + 1][1], "anorm-monotone",
                              "A-norm error grew from budget %s to %s at (batch, column) %s: %g -> %g" % (
                                  good[a][1].get("max_iter"), good[a + 1][1].get("max_iter"), idx,
                                  float(errs[a][tuple(idx)]), float(errs[a + 1][tuple(idx)]))))
        # frozen columns: a column whose true residual is clearly below stop_updating_after no longer changes
        stop = good[a][1].get("stop") if good[a][1].get("stop") is not None else 1e-10
        rn_a, drift_a = good[a][5], good[a][6]
        frozen = (rn_a + drift_a < 0.5 * stop).expand(*batch, 1, c)
        if bool(frozen.any()) and ia is not None and ia >= 1:
            ne += 1
            xa, xb = good[a][3], good[a + 1][3]
            ch = ((xa != xb).any(dim=-2, keepdim=True)) & frozen
            if bool(ch.any()):
                fails.append(fail(good[a + 1][1], "frozen", "a converged column changed between budgets %s and %s" % (
                    good[a][1].get("max_iter"), good[a + 1][1].get("max_iter"))))
    # ---- Chebyshev rate (NOT proved in Coq: numerical support on the implementation), float64 only:
    #      ||x* - x_k||_A <= 2 ((sqrt(kp)-1)/(sqrt(kp)+1))^k ||x* - x_0||_A  down to the accuracy floor of the thresholds,
    #      kp = condition number of the preconditioned operator (any SPD preconditioner only changes the rate)
    if spec.get("dtype") != "float32" and finite_inputs:
        lam_p = S.precond_spectrum(T)
        kp = (lam_p[..., -1] / lam_p[..., 0]).clamp_min(1.0)                    # (*batch)
        rho = ((kp.sqrt() - 1) / (kp.sqrt() + 1)).reshape(*batch, 1)
        lmin = lam[..., 0].reshape(*batch, 1)
        x0f = torch.zeros_like(xstar) if x0 is None else x0
        e0 = S.anorm(A, xstar - x0f)
        for gi, (its, sp, obs, x, xh, rn, drift, nrm) in enumerate(good):
            if its is None or its < 1:
                continue
            eps_ = sp.get("eps") if sp.get("eps") is not None else 1e-10
            stop_ = sp.get("stop") if sp.get("stop") is not None else 1e-10
            # floor: relative residual sqrt(eps) + stop (+ rounding), turned into an A-norm error, un-normalised
            floor_rel = math.sqrt(eps_) * 3 + stop_ * 3 + 1e4 * me * float(kappa)
            floor = floor_rel * nrm.squeeze(-2) / lmin.sqrt()
            # only the iterations before the p^T A p < eps guard fires count (afterwards the column is at the accuracy
            # floor of the safe division, which depends on the scale of M^-1 A; the iterate no longer moves)
            reg = regular_iters(sp, obs, A)
            if reg is None:
                continue
            bound = 2.0 * rho ** reg.to(F64) * e0 * (1 + 1e-6) + floor
            ne += 1
            normal = torch.tensor([kd in "nhs56789" for kd in spec["cols"]]).expand(*batch, c)
            bad = (errs[gi] > bound) & normal
            if bool(bad.any()):
                idx = torch.nonzero(bad)[0].tolist()
                fails.append(fail(sp, "chebyshev", "A-norm error after %d iterations is %g > Chebyshev bound %g (kappa_precond=%g) at (batch, column) %s" % (
                    its, float(errs[gi][tuple(idx)]), float(bound[tuple(idx)]), float(kp.max()), idx)))
    # the residual handed to the preconditioner at iteration k is the true residual of the k-th iterate
    last = good[-1]
    pc = last[2]["pre_calls"]
    if pc:
        by_its = {g[0]: g for g in good if g[0] is not None}
        for k in range(1, len(pc)):
            if k in by_its:
                ne += 1
                g = by_its[k]
                xh, nrm, drift = g[4], g[7], g[6]
                rtrue = rhs / nrm - A @ xh
                d = (S.expand_cols(pc[k], spec) - rtrue).abs().amax(dim=-2, keepdim=True)
                if bool((d > drift * 10).any()):
                    fails.append(fail(last[1], "true-residual", "residual passed to the preconditioner at iteration %d differs from b - A x_%d by %g" % (k, k, float(d.max()))))
    return fails, ne


def check_tmat(sp, T, obs, A, its):
    """symmetric, tridiagonal, Ritz values inside the spectrum of the preconditioned operator"""
    fails, ne = [], 0
    tm = obs["tmat"]
    if tm is None:
        return [fail(sp, "tmat", "n_tridiag requested but no t_mat returned")], 1
    batch, n, c = S.full_shapes(sp)
    q = sp["n_tridiag"]
    ne += 1
    if tm.shape[0] != q or tuple(tm.shape[1:-2]) != tuple(batch) or tm.shape[-1] != tm.shape[-2]:
        return [fail(sp, "tmat", "t_mat has shape %s" % (tuple(tm.shape),), symptom="shape")], ne
    m = tm.shape[-1]
    t = tm.to(F64)
    if m == 0:
        return fails, ne
    ne += 1
    if not bool(torch.isfinite(t).all()):
        return [fail(sp, "tmat", "t_mat has non-finite entries", symptom="nan-result")], ne
    if not torch.equal(t, t.mT):
        fails.append(fail(sp, "tmat", "t_mat is not symmetric"))
    band = torch.ones(m, m, dtype=torch.bool).tril(1).triu(-1)
    ne += 1
    if bool((t[..., ~band] != 0).any()):
        fails.append(fail(sp, "tmat", "t_mat is not tridiagonal"))
    if fails or sp.get("dtype") == "float32" or its is None or its < 1:
        return fails, ne
    # Lanczos content (independent dense oracle): T is the Lanczos matrix of Ahat = M^-1/2 A M^-1/2 started at
    # z = M^-1/2 r0 / sqrt(r0^T M^-1 r0); hence the moments  e1^T T^p e1 = z^T Ahat^p z = r0^T (M^-1 A)^p M^-1 r0 / r0^T M^-1 r0
    # for p <= 2m-1, and the Ritz values lie inside the spectrum of Ahat.  Only while no tridiagonalised column has hit a
    # threshold (after a freeze the loop keeps writing rows from alpha = 0, which the property does not describe).
    rhs = S.expand_cols(as_run(T["rhs"], sp), sp)
    bn = rhs.norm(dim=-2, keepdim=True)
    eps = sp.get("eps") if sp.get("eps") is not None else 1e-10
    x0 = None if T["x0"] is None else S.expand_cols(as_run(T["x0"], sp), sp)
    nrm = torch.where(bn < eps, torch.ones_like(bn), bn)
    r0 = rhs / nrm - (A @ (x0 / nrm) if x0 is not None else 0.0)
    Minv = as_run(T["Minv"], sp) if T["Minv"] is not None else torch.eye(n, dtype=F64).expand(*batch, n, n)
    r0q, = (r0[..., :q],)
    z0 = Minv @ r0q
    rz0 = (r0q * z0).sum(-2)                                   # (*batch, q)
    lam_p = S.precond_spectrum(T)
    lo, hi = lam_p[..., 0], lam_p[..., -1]
    kp = float((hi / lo).max())
    # usable columns: normal rhs, first residual not tiny, the run never got close to a threshold
    tq = t.movedim(0, -3)                                     # (*batch, q, m, m)
    usable = torch.tensor([kd == "n" for kd in sp["cols"][:q]]).expand(*batch, q) & (r0q.norm(dim=-2) > 1e-3)
    reg = regular_iters(sp, obs, A)
    if reg is None:
        return fails, ne
    regq = reg[..., :q]
    # an all-zero t_mat although a loop body was executed: nothing was recorded at all
    ne += 1
    if bool(((tq == 0).all(dim=-1).all(dim=-1) & usable).any()):
        return [fail(sp, "tmat-lanczos", "t_mat is the %dx%d zero matrix although %d loop bodies were executed (the break of line 308 "
                     "precedes the tridiagonal update of lines 311-332)" % (m, m, its), symptom="zero-tmat")], ne
    usable = usable & (regq >= m)          # every kept row was written from a regular alpha
    # ... and no tridiagonalised column ever froze (a frozen column stays frozen, so its final true residual is < stop)
    xres, _ = result_full(sp, obs)
    stop = sp.get("stop") if sp.get("stop") is not None else 1e-10
    if xres is None:
        return fails, ne
    rfin = (rhs / nrm - A @ (xres / nrm)).norm(dim=-2)[..., :q]
    usable = usable & (rfin > 2.0 * stop)
    # completeness, per column: the matrix of a column may stop short of the rows the budget allowed only because THAT
    # column's Lanczos recurrence has broken down (its Krylov space is exhausted) - never because of what happens in
    # another column / batch member.  Rows the budget allowed: one per executed loop body (the loop body that breaks on the
    # tolerance writes none), at most n_tridiag_iter = min(max_tridiag_iter, n).  The column's own couplings come from an
    # independent dense Lanczos process with full re-orthogonalisation on Ahat = M^-1/2 A M^-1/2 started at M^-1/2 r0.
    # The loop body that breaks must not come before the requested number of Lanczos steps is complete: the exit clause
    # `not (n_tridiag and k < min(n_tridiag_iter, max_iter - 1))` is part of the stopping rule of the property, so without a
    # breakdown a column gets min(n_tridiag_iter, max_iter - 1) rows at least, whatever the tolerance.
    mi_eff, mt_eff, _ = eff_limits(sp, obs)
    nti = min(mt_eff, n)
    n_iter = min(mi_eff, n) if obs["settings"]["tcs"] else mi_eff
    if obs["warn"]:
        rows_allowed = min(n_iter, nti)
    else:
        rows_allowed = max(min(its - 1, nti), min(nti, mi_eff - 1, n_iter))
    ne += 1
    if 1 <= m < rows_allowed and bool(usable.any()):
        f = truncated_columns(sp, T, A, Minv, r0q, tq, usable, m, rows_allowed, lam_p)
        if f is not None:
            fails.append(f)
            return fails, ne
    if T["x0"] is None and m >= 1 and bool(usable.any()):
        small = its > m       # rows written after the kept block do not matter
        e1 = torch.zeros(m, dtype=F64)
        e1[0] = 1.0
        v = z0
        tv = e1.expand(*batch, q, m).unsqueeze(-1)
        for p in range(1, min(2 * m - 1, 3) + 1):
            v = Minv @ (A @ v)
            tv = tq @ tv
            mom_a = (r0q * v).sum(-2) / rz0
            mom_t = tv[..., 0, 0]
            ne += 1
            tol = 1e-7 * max(1.0, kp) * mom_a.abs()
            bad = ((mom_a - mom_t).abs() > tol) & usable
            if p <= 2 * min(m, its) - 1 and bool(bad.any()) and last_rows_regular(tq, usable):
                idx = torch.nonzero(bad)[0].tolist()
                fails.append(fail(sp, "tmat-lanczos", "moment p=%d: e1^T T^p e1 = %.12g but z^T Ahat^p z = %.12g at (batch, column) %s" % (
                    p, float(mom_t[tuple(idx)]), float(mom_a[tuple(idx)]), idx)))
                break
        ne += 1
        if last_rows_regular(tq, usable):
            ritz = torch.linalg.eigvalsh(tq)
            slack = 1e-7 * max(1.0, kp)
            outside = ((ritz[..., 0] < lo.unsqueeze(-1) * (1 - slack)) | (ritz[..., -1] > hi.unsqueeze(-1) * (1 + slack))) & usable
            if bool(outside.any()):
                idx = torch.nonzero(outside)[0].tolist()
                fails.append(fail(sp, "tmat-ritz", "Ritz values [%g, %g] outside the spectrum [%g, %g] of the preconditioned operator at (batch, column) %s" % (
                    float(ritz[tuple(idx)][0]), float(ritz[tuple(idx)][-1]), float(lo.reshape(-1)[0]), float(hi.reshape(-1)[0]), idx)))
    return fails, ne


def dense_lanczos(Ah, z, steps):
    """independent oracle: Lanczos with full re-orthogonalisation on the dense symmetric matrix Ah started at z.
    Returns (alphas, betas): betas[i] couples rows i and i+1 (betas[steps-1] = coupling to the first row not built)."""
    n = Ah.shape[-1]
    q = z / z.norm()
    Q = [q]
    al, be = [], []
    for i in range(steps):
        w = Ah @ Q[i]
        a = float(w @ Q[i])
        al.append(a)
        for _ in range(2):
            for qq in Q:
                w = w - (w @ qq) * qq
        b = float(w.norm())
        be.append(b)
        if b < 1e-13 * max(1.0, abs(a)) or len(Q) >= n:
            break
        Q.append(w / b)
    return al, be


def truncated_columns(sp, T, A, Minv, r0q, tq, usable, m, rows_allowed, lam_p):
    """a usable column whose own Lanczos couplings up to row m are all far from zero, but whose matrix has only m rows
    although the budget allowed rows_allowed: the failing input (with the quadrature it spoils)"""
    batch, n, c = S.full_shapes(sp)
    q = sp["n_tridiag"]
    B = S.prod(batch)
    Af = A.reshape(B, n, n)
    Mf = Minv.reshape(B, n, n)
    r0f = r0q.reshape(B, n, q)
    tf = tq.reshape(B, q, m, m)
    uf = usable.reshape(B, q)
    hi = lam_p.reshape(B, n)[:, -1]
    for b in range(B):
        w, v = torch.linalg.eigh(Mf[b])
        h = (v * torch.sqrt(w.clamp_min(0)).unsqueeze(0)) @ v.T
        Ah = h @ Af[b] @ h
        Ah = (Ah + Ah.T) / 2
        for j in range(q):
            if not bool(uf[b, j]):
                continue
            z = h @ r0f[b, :, j]
            al, be = dense_lanczos(Ah, z, m + 1)
            if len(be) < m:
                continue
            floor = max(1e-3 * float(hi[b]), 1e-4)   # far above anything that could be called a breakdown
            if min(be[:m]) < floor:
                continue
            # ... and the column is above the accuracy floor of the beta safe division (line 39: r^T z < eps gives beta = 0,
            # hence an off-diagonal that is exactly 0 - a threshold event of this very column, which the property allows):
            # r_k^T z_k = r_0^T z_0 (beta_k e_k^T T_k^-1 e_1)^2 from the oracle's Lanczos coefficients, k = 1..m
            eps = sp.get("eps") if sp.get("eps") is not None else 1e-10
            rz0 = float(z @ z)
            above = rz0 >= 100 * eps
            for k in range(1, m + 1):
                Tk = torch.diag(torch.tensor(al[:k], dtype=F64))
                for i in range(k - 1):
                    Tk[i, i + 1] = Tk[i + 1, i] = be[i]
                ek1 = torch.zeros(k, dtype=F64)
                ek1[0] = 1.0
                y = torch.linalg.solve(Tk, ek1)
                if rz0 * (be[k - 1] * float(y[-1])) ** 2 < 100 * eps:
                    above = False
                    break
            if not above:
                continue
            # the quadrature this truncation spoils: e1^T T^(2m) e1 vs z^T Ahat^(2m) z
            zz = z / z.norm()
            e1 = torch.zeros(m, dtype=F64)
            e1[0] = 1.0
            tv, av = e1, zz
            for _ in range(m):
                tv = tf[b, j] @ tv
                av = Ah @ av
            mom_t, mom_a = float(tv @ tv), float(av @ av)
            return fail(sp, "tmat-truncated",
                        "t_mat of (batch member, column) (%d, %d) has %d rows although the budget allowed %d and this column's own Lanczos "
                        "recurrence is far from breaking down (couplings beta_1..beta_%d >= %.3g, dense oracle): it is not the Lanczos matrix "
                        "the call could deliver; e1^T T^%d e1 = %.12g but z^T Ahat^%d z = %.12g" % (
                            b, j, m, rows_allowed, m, min(be[:m]), 2 * m, mom_t, 2 * m, mom_a))
    return None


def last_rows_regular(tq, usable):
    """no tridiagonalised usable column shows the signature of a fired threshold (an off-diagonal that is exactly 0 or
    tiny: the column converged / its safe division fired while rows were still being written)"""
    m = tq.shape[-1]
    if m < 2:
        return True
    off = torch.diagonal(tq, offset=1, dim1=-2, dim2=-1).abs()        # (*batch, q, m-1)
    dg = torch.diagonal(tq, dim1=-2, dim2=-1).abs()
    rel = off / dg[..., :-1].clamp_min(1e-300)
    return not bool(((rel < 1e-5).any(dim=-1) & usable).any())


def triage(sp, T, obs, reason):
    """model and implementation disagree on (sp, obs): does the implementation deviate from the dense oracle?
    returns a description of the failing property, or None (then the model is at fault)"""
    fs, _ = check_system(sp, T, [(sp, obs)], {}, single=True)
    if fs:
        return fs[0]["what"]
    return None


def check_scaling(sp, T, obs, obs_c, c):
    """linear_cg(c * rhs, c * x0) == c * linear_cg(rhs, x0) ; for c a power of two the normalised systems are
    bit-identical, so the results must agree exactly (and raise / warn / t_mat identically), provided no column is
    below eps before or after scaling (the hypothesis of theorem cg_scaling)."""
    fails = []
    if obs["err"] is not None or obs_c["err"] is not None:
        if obs["err"] != obs_c["err"]:
            fails.append(fail(sp, "scaling", "rhs raises %s but %g*rhs raises %s" % (obs["err"], c, obs_c["err"])))
        return fails, 1
    rhs = S.expand_cols(as_run(T["rhs"], sp), sp)
    eps = sp.get("eps") if sp.get("eps") is not None else 1e-10
    if sp.get("dtype") == "float32":
        eps = float(torch.tensor(eps, dtype=torch.float32))
    bn = rhs.norm(dim=-2)
    hyp = (bn >= eps * 1.001) & (bn * c >= eps * 1.001) | (bn * max(c, 1.0) < eps * 0.999) & (bn == 0)
    x, _ = result_full(sp, obs)
    xc, _ = result_full(sp, obs_c)
    if x is None or xc is None:
        return fails, 1
    if not bool(torch.isfinite(x).all()):
        return fails, 1
    bad = ((xc != c * x).any(dim=-2)) & hyp
    if bool(bad.any()):
        idx = torch.nonzero(bad)[0].tolist()
        d = float((xc - c * x).abs().max())
        fails.append(fail(sp, "scaling", "linear_cg(%g*rhs) != %g*linear_cg(rhs) (max abs difference %g) at (batch, column) %s" % (c, c, d, idx)))
    if bool(hyp.all()):
        if obs["warn"] != obs_c["warn"]:
            fails.append(fail(sp, "scaling", "warning flag changes under scaling of the rhs by %g" % c))
        if (obs["tmat"] is None) != (obs_c["tmat"] is None) or (obs["tmat"] is not None and not torch.equal(obs["tmat"], obs_c["tmat"])):
            fails.append(fail(sp, "scaling", "t_mat changes under scaling of the rhs by %g" % c))
    return fails, 1


def scaling_factor(spec):
    """4 everywhere; 2^12 for the systems with tiny-norm columns (kinds 5..9), so that every rung of the ladder is carried
    across the range in which a precision-dependent zero test would change its mind"""
    return 4096.0 if any(kd in "56789" for kd in spec["cols"]) else 4.0


def check_op(sp, T, obs_direct, obs_op, entry, debug):
    """operator-level entry point vs the property and vs the direct call of linear_cg with the same settings.
    sp: the resolved spec of the direct call (limits and tolerance from the settings)."""
    fails, ne = [], 0
    spo = dict(sp, op_entry=entry, op_debug=bool(debug))
    # the raise the property demands, from the limits the caller asked the settings to provide
    ne += 1
    exp = expected_error(sp, obs_direct)
    if obs_op["err"] != exp:
        if obs_op["err"] is None:
            fails.append(fail(spo, "op-raises", "%s through a LinearOperator returned although %s was demanded (max_cg_iterations %s, "
                              "max_lanczos_quadrature_iterations %s asked of the settings)" % (
                                  entry, exp, obs_direct["settings"]["max_cg"], obs_direct["settings"]["max_lq"]), symptom="no-raise"))
        else:
            fails.append(fail(spo, "op-raises", "%s through a LinearOperator raised %s, expected %s" % (entry, obs_op["err"], exp or "a result"),
                              symptom="raises"))
        return fails, ne
    if entry in ("_solve_tri", "inv_quad_logdet"):
        ne += 1
        if obs_op["err"] is None and not bool(torch.isfinite(obs_op["res"].to(F64)).all()):
            fails.append(fail(spo, "op-finite", "%s through a LinearOperator returned non-finite values" % entry, symptom="nan-result"))
        return fails, ne
    ne += 1
    if obs_op["err"] != obs_direct["err"]:
        fails.append(fail(spo, "op-raises", "%s (debug %s) raised %s, linear_cg with the same settings %s" % (
            entry, debug, obs_op["err"], obs_direct["err"] or "returned"), symptom="raises"))
        return fails, ne
    if obs_op["err"] is not None:
        return fails, ne
    batch, n, c = S.full_shapes(sp)
    A = as_run(T["A"], sp)
    rhs = S.expand_cols(as_run(T["rhs"], sp), sp)
    _, _, tol = eff_limits(sp, obs_direct)
    eps = 1e-10
    bn = rhs.norm(dim=-2, keepdim=True)
    rhs_zero = bn < eps
    nrm = torch.where(rhs_zero, torch.ones_like(bn), bn)
    me = mach_eps(sp)
    lam = torch.linalg.eigvalsh(A)
    normA = float(lam[..., -1].max())
    if entry in ("solve", "_solve"):
        x = obs_op["res"].to(F64)
        if x.dim() == len(batch) + 1:
            x = x.unsqueeze(-1)
        x = x.expand(*batch, n, c)
        xh = x / nrm
        rn = (rhs / nrm - A @ xh).norm(dim=-2, keepdim=True)
        drift = 2e3 * me * (normA * xh.norm(dim=-2, keepdim=True) + 1.0) * math.sqrt(n)
        rn_masked = torch.where(rhs_zero, torch.zeros_like(rn), rn)
        # the property at the operator level: no NumericalWarning => mean relative residual below the tolerance in force
        ne += 1
        if not obs_op["warn"] and float(rn_masked.mean()) >= tol + float(drift.mean()):
            fails.append(fail(spo, "op-no-warning", "%s through a LinearOperator (settings.debug %s, max_cg_iterations %s, cg_tolerance %g) "
                              "issued no NumericalWarning but the mean relative residual is %g" % (
                                  entry, "on" if debug else "off", obs_direct["settings"]["max_cg"], tol, float(rn_masked.mean()))))
        # the operator-level call is the direct call: same values, same warning
        ne += 1
        d = obs_direct["res"]
        if d is not None and tuple(d.shape) == tuple(obs_op["res"].shape) and not torch.equal(d, obs_op["res"]):
            fails.append(fail(spo, "op-result", "%s returns values different from linear_cg(op._matmul, rhs, max_iter=max_cg_iterations, ...) "
                              "(max abs difference %g)" % (entry, float((d - obs_op["res"]).abs().max()))))
    else:
        iq = float(obs_op["res"].to(F64).sum())
        xs = torch.linalg.solve(A, rhs)
        want = float((rhs * xs).sum())
        # |b^T (x - x*)| <= ||b|| ||r|| / lambda_min with ||r_j|| <= C tol ||b_j|| when the mean relative residual is < tol
        C = c * max(S.prod(batch), 1)
        bound = C * tol * float((bn ** 2).sum()) / float(lam[..., 0].min()) + 1e-9 * abs(want)
        ne += 1
        if not obs_op["warn"] and abs(iq - want) > bound:
            fails.append(fail(spo, "op-no-warning", "inv_quad through a LinearOperator (settings.debug %s, cg_tolerance %g) issued no NumericalWarning "
                              "but returned %.12g for b^T A^-1 b = %.12g (allowed error %g)" % ("on" if debug else "off", tol, iq, want, bound)))
    ne += 1
    if obs_op["warn"] != obs_direct["warn"]:
        fails.append(fail(spo, "op-warning", "%s through a LinearOperator (settings.debug %s) %s a NumericalWarning, linear_cg with the same "
                          "settings %s" % (entry, "on" if debug else "off", "issued" if obs_op["warn"] else "did not issue",
                                           "did" if obs_direct["warn"] else "did not")))
    return fails, ne
