"""Regenerates /verif/MANIFEST.json from the table below (python3 -m harness.manifest)."""
import json
import os

VERIF = os.path.dirname(os.path.dirname(os.path.abspath(__file__)))

CHECKS = {
    "C17": dict(
        category="proof",
        text="Scoping, no-cross-talk, takes-effect and exit-restores theorems are proved in Coq for ALL well-nested event histories "
             "(unbounded length/nesting, re-used and re-entered objects, exception exits, all 30 setting classes and both composites) "
             "over a Gallina model that a fail-closed translator regenerates from settings.py on every run; the generated model is "
             "additionally run against the real classes on ~2.8k (quick) / 30k (thorough) histories. A source change that breaks scoping "
             "breaks restore_law/effect_law for the regenerated code; the real classes are then searched exhaustively for the shortest leaking history.",
        design_ref="DESIGN.md section 3 C17",
        note="Trusted: Coq kernel; translator harness/settings_tr.py (Python ast -> Gallina, inheritance resolved statically); Python with-protocol and "
             "list push/pop as modelled in coq/C17/Generic.v; assumption that the private base classes are not themselves used as contexts. No axioms (Print Assumptions: closed).",
        technique="Coq proof by induction over balanced histories on a model translated from source + vm_compute correspondence"),
}

NOT_YET = {}


def load_entries():
    d = os.path.join(VERIF, "harness", "manifest.d")
    if os.path.isdir(d):
        for f in sorted(os.listdir(d)):
            if f.endswith(".json"):
                e = json.load(open(os.path.join(d, f)))
                CHECKS[e["property_id"]] = dict(category=e.get("category", "proof"), text=e["text"], design_ref=e.get("design_ref", "DESIGN.md section 3 " + e["property_id"]),
                                                note=e["note"], technique=e["technique"])


def main():
    load_entries()
    props = [json.loads(l)["id"] for l in open(os.path.join(VERIF, "properties.jsonl"))]
    checks = []
    for p in props:
        if p not in CHECKS:
            continue
        c = CHECKS[p]
        checks.append({
            "property_id": p,
            "quick_cmd": "./check %s quick" % p,
            "thorough_cmd": "./check %s thorough" % p,
            "evidence_file": "/verif/evidence/%s.json" % p,
            "replay_cmd_template": "./check replay {path}",
            "engine": "coq-proof+correspondence",
            "level_claimed": {"category": c["category"], "text": c["text"], "design_ref": c["design_ref"]},
            "level_note": c["note"],
            "technique": c["technique"],
        })
    na = [{"property_id": p, "reason": NOT_YET.get(p, "check not built yet in this revision of /verif (work in progress; see DESIGN.md section 3 for the planned Coq model and tie)")}
          for p in props if p not in CHECKS]
    m = {
        "version": 1,
        "setup_cmd": "./check setup",
        "hooks": {
            "guard": "LINEAR_OPERATOR_VERIF",
            "enable": "checks export LINEAR_OPERATOR_VERIF=1; no instrumentation hook exists in /repo (iterates are obtained by re-running with budgets and by wrapping closures), so the guard is unused",
            "baseline_off_cmd": "cd /repo && env -u LINEAR_OPERATOR_VERIF /venv/bin/python -m pytest -ra -q -p no:cacheprovider --timeout=900 --continue-on-collection-errors",
            "source_commits": [],
            "add_only": True,
        },
        "engines": [{"name": "coq-proof+correspondence", "path": "/verif/check",
                     "serves_properties": [c["property_id"] for c in checks],
                     "kind_free_text": "Coq 8.16.1 theorems over Gallina models (coq/<id>/), tied to /repo by translators (gen/*.v regenerated per run) "
                                       "and by vm_compute correspondence shards written by harness/<id>.py"}],
        "checks": checks,
        "not_applicable": na,
        "notes": "Repairs of genuine defects are unguarded 'fix:' commits in /repo, listed in /verif/known_findings.json (status fixed). "
                 "Known findings (status known) are replayed on every run and printed as KNOWN-FINDING lines.",
    }
    json.dump(m, open(os.path.join(VERIF, "MANIFEST.json"), "w"), indent=1)
    print("MANIFEST.json: %d checks, %d not_applicable" % (len(checks), len(na)))


if __name__ == "__main__":
    main()
