"""C08 helpers: build SPD systems from a JSON-able spec, run the real linear_cg with recording
closures, and the independent dense float64 oracle (plain torch; never linear_cg itself)."""
import math
import re
import warnings

import torch

F64 = torch.float64


def prod(t):
    r = 1
    for x in t:
        r *= int(x)
    return r


# ------------------------------------------------------------------------------------------ spectra

def spectrum(fam, n, kappa, g):
    kappa = float(kappa)
    if n == 1:
        return torch.tensor([math.sqrt(kappa)], dtype=F64)
    if fam == "identity":
        return torch.ones(n, dtype=F64)
    if fam == "uniform":
        return torch.linspace(1.0, kappa, n, dtype=F64)
    if fam == "geometric":
        return torch.tensor([kappa ** (i / (n - 1)) for i in range(n)], dtype=F64)
    if fam == "clustered":
        u = torch.rand(n, generator=g, dtype=F64)
        lo = 1.0 + 0.01 * u
        hi = kappa * (1.0 - 0.01 * u)
        lam = torch.where(torch.arange(n) % 2 == 0, lo, hi)
        lam[0], lam[1] = 1.0, kappa
        return lam
    if fam.startswith("lrid"):
        # identity + rank-d perturbation: d + 1 distinct eigenvalues (1 with multiplicity n - d)
        d = min(max(n - 1, 1), int(fam[4:] or 2))
        lam = torch.ones(n, dtype=F64)
        for i in range(d):
            lam[n - 1 - i] = kappa ** ((d - i) / d)
        return lam
    if fam.startswith("few"):
        d = min(n, int(fam[3:] or 3))
        vals = [kappa ** (i / max(d - 1, 1)) for i in range(d)]
        return torch.tensor([vals[i % d] for i in range(n)], dtype=F64)
    raise ValueError(fam)


def rand_orth(n, g):
    q, r = torch.linalg.qr(torch.randn(n, n, generator=g, dtype=F64))
    return q * torch.sign(torch.diagonal(r)).unsqueeze(0)


def build(spec):
    """spec -> dict of float64 master tensors (A, rhs, x0, Minv, lam) ; everything deterministic in spec"""
    g = torch.Generator().manual_seed(int(spec["vseed"]))
    n, c = spec["n"], spec["nc"]
    batch = tuple(spec["batch"])
    B = prod(batch)
    same = bool(spec.get("same_batch"))
    As, lams = [], []
    for b in range(B):
        if same and b > 0:
            As.append(As[0].clone())
            lams.append(lams[0].clone())
            continue
        fam_b, kappa_b = spec["fam"], spec["kappa"]
        if b == 0 and spec.get("fam0"):
            # heterogeneous batch: member 0 has its own spectrum family (e.g. few distinct eigenvalues: its Krylov spaces
            # are exhausted after a few iterations while the other members are generic)
            fam_b, kappa_b = spec["fam0"][0], spec["fam0"][1]
        lam = spectrum(fam_b, n, kappa_b, g) * float(spec.get("scale", 1.0))
        if spec["fam"] == "identity":
            a = torch.diag(lam)
        else:
            q = rand_orth(n, g)
            a = (q * lam.unsqueeze(0)) @ q.T
            a = (a + a.T) / 2
        As.append(a)
        lams.append(lam)
    A = torch.stack(As).reshape(*batch, n, n)
    # right-hand sides: column kinds n(ormal) z(ero) t(iny 1e-12) h(uge 1e12) s(mall 1e-7) 5..9 (1e-5 .. 1e-9)
    rb = batch if (spec.get("rhs_batch", "full") == "full") else ()
    RB = prod(rb)
    cols = []
    for j, kd in enumerate(spec["cols"]):
        if same or RB == 1:
            v = torch.randn(1, n, generator=g, dtype=F64).expand(RB, n).clone()
        else:
            v = torch.randn(RB, n, generator=g, dtype=F64)
        v = v / v.norm(dim=-1, keepdim=True) * (0.5 + torch.rand(1, generator=g, dtype=F64))
        if kd == "z":
            v = v * 0.0
        elif kd == "t":
            v = v * 1e-12
        elif kd == "h":
            v = v * 1e12
        elif kd == "s":
            v = v * 1e-7
        elif kd in "56789":
            # norm ~ 1e-<digit>: tiny but far above the rhs_is_zero threshold eps = 1e-10 (the ladder 1e-5 .. 1e-9 spans the
            # range between that threshold and float32 machine epsilon 1.2e-7, where a dtype-dependent test would differ)
            v = v * 10.0 ** (-int(kd))
        cols.append(v)
    rhs = torch.stack(cols, dim=-1).reshape(*rb, n, c)
    rhs_full = rhs
    if spec.get("rhs_vec"):
        assert c == 1 and not rb, "rhs_vec needs nc == 1 and rhs_batch none"
        rhs = rhs.reshape(n)
    # preconditioner (dense inverse of an SPD matrix M)
    pk = spec.get("pre", "none")
    Minv = None
    if pk != "none":
        Ms = []
        for b in range(B):
            a = As[b]
            if same and b > 0:
                Ms.append(Ms[0].clone())
                continue
            if pk == "identity":
                mi = torch.eye(n, dtype=F64)
            elif pk == "jacobi":
                mi = torch.diag(1.0 / torch.diagonal(a))
            elif pk == "exact":
                mi = torch.linalg.inv(a)
                mi = (mi + mi.T) / 2
            elif pk == "lowrank":
                r = max(1, n // 3)
                w, v = torch.linalg.eigh(a)
                L = v[:, -r:] * torch.sqrt(w[-r:]).unsqueeze(0)
                m = L @ L.T + float(w[: max(n - r, 1)].mean()) * torch.eye(n, dtype=F64)
                mi = torch.linalg.inv(m)
                mi = (mi + mi.T) / 2
            elif pk == "randspd":
                r = torch.randn(n, n, generator=g, dtype=F64)
                mi = r @ r.T / n + 0.5 * torch.eye(n, dtype=F64)
            else:
                raise ValueError(pk)
            Ms.append(mi)
        Minv = torch.stack(Ms).reshape(*batch, n, n)
    # column kinds e(xhausted early) / d(ominated): the rhs lies in an invariant subspace of dimension 2 of the (preconditioned) operator,
    # r0 = H^-1 (c1 u_a + c2 u_b) with H = Minv^1/2 and u eigenvectors of H A H: its Krylov space has dimension 2, so the
    # column has converged to rounding level after two loop bodies while the other columns are still far from it
    if "e" in spec["cols"] or "d" in spec["cols"]:
        ge = torch.Generator().manual_seed(int(spec["vseed"]) ^ 0x5EED)
        rhs = rhs.clone()
        rflat = rhs.reshape(RB, n, c)
        for b in range(RB):
            a = As[b]
            if Minv is not None:
                w, v = torch.linalg.eigh(Minv.reshape(B, n, n)[b])
                h = (v * torch.sqrt(w.clamp_min(1e-300)).unsqueeze(0)) @ v.T
                hinv = (v / torch.sqrt(w.clamp_min(1e-300)).unsqueeze(0)) @ v.T
            else:
                h = hinv = torch.eye(n, dtype=F64)
            _, u = torch.linalg.eigh(h @ a @ h)
            for j, kd in enumerate(spec["cols"]):
                if kd not in "ed":
                    continue
                ia = int(torch.randint(0, n, (1,), generator=ge))
                ib = (ia + 1 + int(torch.randint(0, max(n - 1, 1), (1,), generator=ge))) % n
                cf = 0.5 + torch.rand(2, generator=ge, dtype=F64)
                comb = cf[0] * u[:, ia] + cf[1] * u[:, ib]
                if kd == "d":
                    # d(ominated): plus a 1e-5 generic component - after two loop bodies the residual is ~1e-5, below a
                    # stop_updating_after of 1e-3 but far above eps: only the has_converged mask keeps the column frozen
                    comb = comb + 1e-5 * torch.randn(n, generator=ge, dtype=F64)
                vv = hinv @ comb
                rflat[b, :, j] = vv / vv.norm() * (0.5 + float(torch.rand(1, generator=ge, dtype=F64)))
        rhs = rflat.reshape(*rb, n, c)
        rhs_full = rhs
        if spec.get("rhs_vec"):
            rhs = rhs.reshape(n)
    # initial guess
    xk = spec.get("x0", "none")
    x0 = None
    xstar = torch.linalg.solve(A, rhs_full.expand(*batch, n, c))
    if xk == "rand":
        x0 = torch.randn(*rb, n, c, generator=g, dtype=F64)
        x0 = x0 * rhs_full.norm(dim=-2, keepdim=True).clamp_min(1e-3)
    elif xk == "vec":
        x0 = torch.randn(n, generator=g, dtype=F64)
    elif xk == "mat1":      # 2-D (n,1) guess for a 1-D rhs: the result is then NOT squeezed
        x0 = torch.randn(n, 1, generator=g, dtype=F64)
    elif xk == "exact":     # residual of the guess is rounding noise: the early-convergence shortcut
        x0 = xstar.clone()
    elif xk == "exact0":    # heterogeneous guess: exact for column 0 only (has_converged is True there and False elsewhere)
        x0 = xstar.clone()
        if c > 1:
            x0[..., 1:] = torch.randn(*batch, n, c - 1, generator=g, dtype=F64) * rhs_full.expand(*batch, n, c)[..., 1:].norm(dim=-2, keepdim=True)
    elif xk == "near":
        x0 = xstar * (1.0 + 1e-6 * torch.randn(xstar.shape, generator=g, dtype=F64))
    elif xk == "nan":
        x0 = torch.randn(*rb, n, c, generator=g, dtype=F64)
        x0.reshape(-1)[0] = float("nan")
    if spec.get("poison") == "rhs_nan":
        rhs = rhs.clone()
        rhs.reshape(-1)[-1] = float("nan")
    elif spec.get("poison") == "rhs_inf":
        rhs = rhs.clone()
        rhs.reshape(-1)[0] = float("inf")
    elif spec.get("poison") == "A_nan":
        A = A.clone()
        A.reshape(-1)[0] = float("nan")
    return {"A": A, "rhs": rhs, "x0": x0, "Minv": Minv, "lam": torch.stack(lams).reshape(*batch, n), "xstar": xstar}


# ------------------------------------------------------------------------------------------ closures

class Rec:
    """records (a copy of) every argument; applies matrix M with the requested memory behaviour"""

    def __init__(self, M, alias, nbatch):
        self.M, self.alias, self.nbatch = M, alias, nbatch
        self.calls = []

    def __call__(self, v):
        self.calls.append(v.detach().clone())
        if self.alias == "arg":           # legitimate only for M = I
            return v
        if self.alias == "view":          # legitimate only for M = I
            return v.view(v.shape)
        if self.alias == "expand" and v.dim() == self.nbatch + 2 and self.nbatch > 0:
            # legitimate only when all batch members (matrix and argument) are identical
            idx = (0,) * self.nbatch
            return (self.M[idx] @ v[idx]).expand_as(v)
        if self.alias == "inplace_safe":  # fresh memory through an out-of-place multiply by one
            return (self.M @ v) * 1.0
        return self.M @ v


ERR_PAT = [("ErrTridiagLimit", "Getting a tridiagonalization larger"),
           ("ErrNotCallable", "matmul_closure must be a tensor"),
           ("ErrNaN", "NaNs encountered")]


def settings_ctx(spec):
    import contextlib
    from linear_operator import settings
    st = contextlib.ExitStack()
    st.enter_context(settings.terminate_cg_by_size(bool(spec.get("tcs", False))))
    if spec.get("set_max_cg") is not None:
        st.enter_context(settings.max_cg_iterations(int(spec["set_max_cg"])))
    if spec.get("set_max_lq") is not None:
        st.enter_context(settings.max_lanczos_quadrature_iterations(int(spec["set_max_lq"])))
    if spec.get("set_tol") is not None:
        st.enter_context(settings.cg_tolerance(float(spec["set_tol"])))
    return st


def read_settings():
    from linear_operator import settings
    return {"max_cg": int(settings.max_cg_iterations.value()),
            "max_lq": int(settings.max_lanczos_quadrature_iterations.value()),
            "tol": float(settings.cg_tolerance.value()),
            "tcs": bool(settings.terminate_cg_by_size.on())}


def requested_settings(spec):
    """the settings in force as the CALLER asked for them: the library's values outside any context (defaults), overlaid
    with the value each context of the spec is asked to provide.  This - not the value read back from the library inside
    the context - is what the model and the predicates are fed, so that a settings class that alters, clamps or reconciles
    its value shows up as model != implementation and as a predicate failure."""
    st = read_settings()
    if spec.get("set_max_cg") is not None:
        st["max_cg"] = int(spec["set_max_cg"])
    if spec.get("set_max_lq") is not None:
        st["max_lq"] = int(spec["set_max_lq"])
    if spec.get("set_tol") is not None:
        st["tol"] = float(spec["set_tol"])
    st["tcs"] = bool(spec.get("tcs", False))
    return st


def run_impl(spec, T, max_iter="spec", rhs_scale=None):
    """one call of the real linear_cg.  Returns the observation dict."""
    from linear_operator.utils.linear_cg import linear_cg
    from linear_operator.utils.warnings import NumericalWarning
    dt = torch.float32 if spec.get("dtype") == "float32" else F64
    nb = len(spec["batch"])
    A = T["A"].to(dt)
    rhs = T["rhs"].to(dt)
    if rhs_scale is not None:
        rhs = rhs * rhs_scale
    x0 = None if T["x0"] is None else T["x0"].to(dt)
    if rhs_scale is not None and x0 is not None:
        x0 = x0 * rhs_scale
    mmr = Rec(A, spec.get("mm_alias", "fresh"), nb)
    mck = spec.get("mc", "callable")
    mc = mmr if mck == "callable" else (A if mck == "tensor" else {"none": None, "str": "A", "float": 3.0}[mck])
    prr = None
    if T["Minv"] is not None:
        prr = Rec(T["Minv"].to(dt), spec.get("pre_alias", "fresh"), nb)
    kw = {}
    for k_spec, k_arg in (("n_tridiag", "n_tridiag"), ("tol", "tolerance"), ("eps", "eps"), ("stop", "stop_updating_after"),
                          ("max_tridiag_iter", "max_tridiag_iter")):
        if spec.get(k_spec) is not None:
            kw[k_arg] = spec[k_spec]
    mi = spec.get("max_iter") if max_iter == "spec" else max_iter
    if mi is not None:
        kw["max_iter"] = mi
    if x0 is not None:
        kw["initial_guess"] = x0
    if prr is not None:
        kw["preconditioner"] = prr
    obs = {"err": None, "res": None, "tmat": None, "warn": False, "wk": None, "wmean": None,
           "mm_calls": None, "pre_calls": None, "settings": None, "settings_read": None, "other_warnings": []}
    torch.set_printoptions(precision=17)
    obs["settings"] = requested_settings(spec)
    with settings_ctx(spec):
        obs["settings_read"] = read_settings()
        with warnings.catch_warnings(record=True) as wl:
            warnings.simplefilter("always")
            try:
                out = linear_cg(mc, rhs, **kw)
            except Exception as ex:  # noqa
                msg = str(ex)
                kind = next((k for k, p in ERR_PAT if p in msg and isinstance(ex, RuntimeError)), None)
                obs["err"] = kind or ("other:" + type(ex).__name__ + ":" + msg[:160])
                out = None
    torch.set_printoptions(profile="default")
    for w in wl:
        if issubclass(w.category, NumericalWarning):
            obs["warn"] = True
            m = re.search(r"terminated in (\d+) iterations with average residual norm (?:tensor\()?([-+0-9.einfa]+)", str(w.message))
            if m:
                obs["wk"] = int(m.group(1))
                try:
                    obs["wmean"] = float(m.group(2))
                except ValueError:
                    obs["wmean"] = None
        else:
            obs["other_warnings"].append(str(w.message)[:80])
    if out is not None:
        if isinstance(out, tuple):
            obs["res"], obs["tmat"] = out[0], out[1]
        else:
            obs["res"] = out
    if mck == "callable":
        obs["mm_calls"] = mmr.calls
    if prr is not None:
        obs["pre_calls"] = prr.calls
    return obs


def run_op(spec, T, entry, debug):
    """the same solve through the operator-level entry points of the property (anchor _linear_operator.py): a dense
    LinearOperator on the CG path (max_cholesky_size(0)); every limit comes from the settings, as LinearOperator._solve
    passes them.  entry: solve | _solve | inv_quad | _solve_tri | inv_quad_logdet.  Returns {err, res, warn, settings}."""
    import contextlib
    from linear_operator import settings
    from linear_operator.operators import DenseLinearOperator
    from linear_operator.utils.warnings import NumericalWarning
    dt = torch.float32 if spec.get("dtype") == "float32" else F64
    A = T["A"].to(dt)
    rhs = T["rhs"].to(dt)
    op = DenseLinearOperator(A)
    prr = None
    if T["Minv"] is not None:
        prr = Rec(T["Minv"].to(dt), "fresh", len(spec["batch"]))
    obs = {"err": None, "res": None, "warn": False, "settings": requested_settings(spec)}
    with settings_ctx(spec), settings.max_cholesky_size(0), settings.debug(bool(debug)), settings.num_trace_samples(3):
        with warnings.catch_warnings(record=True) as wl:
            warnings.simplefilter("always")
            try:
                if entry == "solve":
                    out = op.solve(rhs)
                elif entry == "_solve":
                    out = op._solve(rhs, prr)
                elif entry == "inv_quad":
                    out = op.inv_quad(rhs)
                elif entry == "_solve_tri":          # the route of the stochastic log-determinant: tridiagonalise 2 columns
                    out = op._solve(rhs, prr, num_tridiag=min(2, rhs.shape[-1] if rhs.dim() > 1 else 1))
                    out = out[0] if isinstance(out, tuple) else out
                elif entry == "inv_quad_logdet":
                    out = op.inv_quad_logdet(rhs, logdet=True)
                    out = torch.stack([o.to(F64).sum() for o in out])
                else:
                    raise ValueError(entry)
            except Exception as ex:  # noqa
                msg = str(ex)
                kind = next((k for k, pat in ERR_PAT if pat in msg and isinstance(ex, RuntimeError)), None)
                obs["err"] = kind or ("other:" + type(ex).__name__ + ":" + msg[:160])
                out = None
    obs["warn"] = any(issubclass(w.category, NumericalWarning) for w in wl)
    obs["res"] = out
    return obs


# ------------------------------------------------------------------------------------------ oracle

def full_shapes(spec):
    batch = tuple(spec["batch"])
    return batch, spec["n"], spec["nc"]


def expand_cols(t, spec, vec_ok=True):
    """tensor broadcastable to (*batch, n, c) -> float64 tensor of exactly that shape"""
    batch, n, c = full_shapes(spec)
    t = t.to(F64)
    if t.dim() == 1:
        t = t.unsqueeze(-1)
    return t.expand(*batch, n, c)


def anorm(A, e):
    """A-norm of every column of e: sqrt(e_j^T A e_j) ; shape (*batch, c)"""
    return torch.sqrt(((A @ e) * e).sum(-2).clamp_min(0.0))


def precond_spectrum(T):
    """eigenvalues of M^{-1/2} A M^{-1/2} (= of Minv^{1/2} A Minv^{1/2}) per batch member, ascending"""
    A = T["A"]
    if T["Minv"] is None:
        return torch.linalg.eigvalsh(A)
    w, v = torch.linalg.eigh(T["Minv"])
    h = (v * torch.sqrt(w.clamp_min(0)).unsqueeze(-2)) @ v.mT
    return torch.linalg.eigvalsh(h @ A @ h)
