"""C09: the consumers of lanczos_tridiag at the operator level — root_decomposition(method="lanczos"),
root_inv_decomposition(method="lanczos", initial_vectors, test_vectors), diagonalization(method="lanczos") — and
lanczos_tridiag_to_diag called directly.  The calls are made on the real library; lanczos_tridiag, torch.linalg.eigh
and torch.randn are wrapped IN THE HARNESS PROCESS (no repository hook) to read back the (Q, T), the jittered
matrix handed to eigh, the (evals, evecs) it returned and the random start vector."""
import contextlib

import torch

from . import c09_sys as S

F64 = torch.float64


class Recorder:
    def __init__(self):
        self.lanczos = []      # (kwargs summary, q, t)
        self.eigh = []         # (input, evals, evecs)
        self.randn = []        # tensors returned by torch.randn inside lanczos_tridiag
        self.post = []         # (inv_roots, initial_vectors, test_vectors, chosen) of _postprocess_lanczos_root_inv_decomp


@contextlib.contextmanager
def recording():
    import linear_operator.utils.lanczos as L
    import linear_operator.operators._linear_operator as LO
    rec = Recorder()
    orig_l, orig_e, orig_r = L.lanczos_tridiag, torch.linalg.eigh, torch.randn
    orig_p = LO._postprocess_lanczos_root_inv_decomp

    def w_post(linear_op, inv_roots, initial_vectors, test_vectors):
        r = orig_p(linear_op, inv_roots, initial_vectors, test_vectors)
        rec.post.append((inv_roots.detach().clone(), initial_vectors.detach().clone(), test_vectors.detach().clone(),
                         r.detach().clone()))
        return r
    inside = {"l": 0}

    def w_lanczos(matmul_closure, max_iter, dtype, device, matrix_shape, batch_shape=torch.Size(), init_vecs=None,
                  num_init_vecs=1, tol=1e-5):
        inside["l"] += 1
        try:
            q, t = orig_l(matmul_closure, max_iter, dtype, device, matrix_shape, batch_shape=batch_shape,
                          init_vecs=init_vecs, num_init_vecs=num_init_vecs, tol=tol)
        finally:
            inside["l"] -= 1
        rec.lanczos.append(({"max_iter": int(max_iter), "matrix_shape": list(matrix_shape), "batch_shape": list(batch_shape),
                             "init": None if init_vecs is None else init_vecs.detach().clone(),
                             "num_init_vecs": int(num_init_vecs), "tol": float(tol), "dtype": dtype},
                            q.detach().clone(), t.detach().clone()))
        return q, t

    def w_eigh(a, *args, **kw):
        r = orig_e(a, *args, **kw)
        rec.eigh.append((a.detach().clone(), r[0].detach().clone(), r[1].detach().clone()))
        return r

    def w_randn(*args, **kw):
        r = orig_r(*args, **kw)
        if inside["l"]:
            rec.randn.append(r.detach().clone())
        return r

    L.lanczos_tridiag = w_lanczos
    LO._postprocess_lanczos_root_inv_decomp = w_post
    torch.linalg.eigh = w_eigh
    torch.randn = w_randn
    try:
        yield rec
    finally:
        L.lanczos_tridiag = orig_l
        LO._postprocess_lanczos_root_inv_decomp = orig_p
        torch.linalg.eigh = orig_e
        torch.randn = orig_r


def probe_diag_jitter_form():
    """Which entries of T does Diagonalization.forward add tridiagonal_jitter * min(diag T) to on the tree under
    test?  'all' (the pinned code: diag_embed of a keepdim minimum, expanded), 'diag' (repaired) or 'unknown'.
    Probed by running op.diagonalization(method="lanczos") on a fixed 4 x 4 matrix with jitter 0.5 and reading back
    the matrix handed to torch.linalg.eigh."""
    from linear_operator import settings
    from linear_operator.operators import to_linear_operator
    try:
        A = torch.tensor([[4.0, 1.0, 0.0, 0.5], [1.0, 3.0, 1.0, 0.0], [0.0, 1.0, 2.0, 1.0], [0.5, 0.0, 1.0, 5.0]], dtype=F64)
        with recording() as rec, settings.tridiagonal_jitter(0.5), settings.max_root_decomposition_size(100):
            to_linear_operator(A).diagonalization(method="lanczos")
        T = rec.lanczos[-1][2].to(F64)
        m = T.shape[-1]
        T = T.reshape(m, m)
        ein = rec.eigh[-1][0].to(F64).reshape(m, m)
        jm = 0.5 * float(torch.diagonal(T).min())
        D = ein - T
        if float((D - jm * torch.ones(m, m, dtype=F64)).abs().max()) <= 1e-9 * abs(jm):
            return "all"
        if float((D - jm * torch.eye(m, dtype=F64)).abs().max()) <= 1e-9 * abs(jm):
            return "diag"
    except Exception:  # noqa
        pass
    return "unknown"


def probe_variants():
    """Which version of the code that has a pinned and a repaired form does the tree under test contain?  Probed by
    behaviour on fixed tiny inputs (the model has both transcriptions, selected by these flags; a third behaviour shows
    up as a model disagreement):
      first_guard       lanczos_tridiag on 2*I_3 stops after the first step (m = 1)      [fix C09-degenerate-budget-and-start]
      root/diag/post_shape_fixed   batch (1, 2) resp. (1,) keeps its leading dimension   [fix C09-leading-singleton-batch]"""
    from linear_operator.operators import to_linear_operator
    from linear_operator.utils.lanczos import lanczos_tridiag
    out = {"first_guard": False, "root_shape_fixed": False, "diag_shape_fixed": False, "post_shape_fixed": False}
    try:
        A = 2.0 * torch.eye(3, dtype=F64)
        v = torch.tensor([[1.0], [2.0], [-1.0]], dtype=F64)
        q, t = lanczos_tridiag(A.matmul, 3, dtype=F64, device=A.device, matrix_shape=A.shape, init_vecs=v)
        out["first_guard"] = int(t.shape[-1]) == 1
    except Exception:  # noqa
        pass
    g = torch.Generator().manual_seed(5)
    Bm = torch.randn(1, 2, 4, 4, generator=g, dtype=F64)
    A = Bm @ Bm.mT + torch.eye(4, dtype=F64)
    try:
        r = to_linear_operator(A).root_decomposition(method="lanczos").root
        out["root_shape_fixed"] = tuple(r.shape[:2]) == (1, 2) and r.dim() == 4
    except Exception:  # noqa
        pass
    try:
        ev, V = to_linear_operator(A).diagonalization(method="lanczos")
        out["diag_shape_fixed"] = tuple(ev.shape[:2]) == (1, 2) and ev.dim() == 3
    except Exception:  # noqa
        pass
    try:
        A1 = A[:, 0]
        r = to_linear_operator(A1).root_inv_decomposition(initial_vectors=torch.randn(1, 4, 2, generator=g, dtype=F64),
                                                          test_vectors=torch.randn(1, 4, 3, generator=g, dtype=F64),
                                                          method="lanczos").root
        r = r.to_dense() if hasattr(r, "to_dense") else r
        out["post_shape_fixed"] = r.dim() == 3 and r.shape[0] == 1
    except Exception:  # noqa
        pass
    return out


def grid(quick):
    """API cells: api, n, batch, fam, size (max_root_decomposition_size), dtype, jitter (None = default), nprobe"""
    cells = []
    sizes = [3, 5, 8, 16] if quick else [2, 3, 4, 5, 8, 16, 32]
    for n in sizes:
        for fi, fam in enumerate(["uniform", "kappa10", "rank2", "geometric", "few3", "intgram"]):
            for bi, batch in enumerate([[], [2]] if quick else [[], [2], [2, 2]]):
                for si, size in enumerate(sorted({2, max(2, n // 2), n, 100})):
                    if quick and (fi + bi + si + n) % 3:
                        continue
                    for api in ("root", "root_inv", "diag"):
                        if quick and (fi + si + len(api)) % 2 and api != "root":
                            continue
                        dt = "f32" if (fi + bi + si + len(api)) % 5 == 0 else "f64"
                        jit = [None, None, 1e-3, 0.0][(fi + si) % 4]
                        cells.append({"api": api, "n": n, "batch": batch, "fam": fam, "size": size, "dtype": dt,
                                      "jitter": jit, "nprobe": 1, "start": "random", "nvec": 1})
    # several probes + test vectors: the best-probe selection
    for n in ([5, 8] if quick else [4, 5, 8, 16]):
        for fam in ("uniform", "kappa10", "geometric"):
            for nprobe in (2, 3):
                for batch in ([], [2]):
                    cells.append({"api": "root_inv_multi", "n": n, "batch": batch, "fam": fam, "size": max(2, n - 2),
                                  "dtype": "f64", "jitter": None, "nprobe": nprobe, "start": "random", "nvec": nprobe})
    # several probes with a budget that reaches the dimension (max_root_decomposition_size >= n): every probe gets the WHOLE
    # budget, so every inverse root inverts A; incl. n above max_root_decomposition_size / number of probes
    for (n, size, nprobe, batch) in ([(8, 8, 2, []), (8, 100, 3, [2]), (16, 100, 8, []), (64, 100, 2, [])] if quick else
                                     [(8, 8, 2, []), (8, 100, 3, [2]), (16, 16, 2, [2]), (16, 100, 8, []), (24, 100, 5, []),
                                      (64, 100, 2, []), (64, 100, 2, [2])]):
        cells.append({"api": "root_inv_multi", "n": n, "batch": batch, "fam": "uniform", "size": size, "dtype": "f64",
                      "jitter": None, "nprobe": nprobe, "start": "random", "nvec": nprobe})
    # mixed breakdown at the operator level: one member of the batch is a multiple of the identity (its Lanczos run breaks
    # down in the first step), at every position; the other members are owed exact roots / inverse roots / diagonalisations
    for n in ([6] if quick else [4, 6, 9]):
        for batch in ([2], [3], [2, 2]):
            Bn = 1
            for x in batch:
                Bn *= x
            for pos in range(Bn):
                fams = [["uniform", "kappa10"][(b + pos) % 2] for b in range(Bn)]
                fams[pos] = "scalar"
                for api in ("root", "root_inv", "diag"):
                    cells.append({"api": api, "n": n, "batch": batch, "fam": fams, "size": 100, "dtype": "f64", "jitter": None,
                                  "nprobe": 1, "start": "random", "nvec": 1})
    # batch shapes with dimensions of size 1 (the unsqueeze / squeeze bookkeeping of the forward passes and the
    # squeeze(0) of the probe selection)
    for bi, batch in enumerate([[1], [1, 2], [2, 1], [1, 1], [3, 1, 2]] if not quick else [[1], [1, 2], [2, 1], [1, 1]]):
        for n in ([4, 6] if quick else [3, 4, 6, 9]):
            for api in ("root", "root_inv", "diag"):
                cells.append({"api": api, "n": n, "batch": batch, "fam": ["uniform", "kappa10"][(bi + n) % 2], "size": [100, n - 1][bi % 2],
                              "dtype": "f64", "jitter": None, "nprobe": 1, "start": "random", "nvec": 1})
            for nprobe in (2, 3):
                cells.append({"api": "root_inv_multi", "n": n, "batch": batch, "fam": "uniform", "size": max(2, n - 1),
                              "dtype": "f64", "jitter": None, "nprobe": nprobe, "start": "random", "nvec": nprobe})
    # a 1-D initial vector (root_inv_decomposition's argument check lets it through for an operator without batch)
    for n in ([4, 6] if quick else [3, 4, 6, 9]):
        for fam in ("uniform", "kappa10"):
            cells.append({"api": "root_inv_1d", "n": n, "batch": [], "fam": fam, "size": 100, "dtype": "f64", "jitter": None,
                          "nprobe": 1, "start": "random", "nvec": 1})
    # lanczos_tridiag_to_diag on tridiagonal matrices with negative eigenvalues (the masking branch)
    for k in ([2, 3, 6, 33] if quick else [1, 2, 3, 6, 12, 31, 32, 33, 40]):
        for lead in ([], [2], [3, 2]):
            for kind in ("indef", "psd", "negdef"):
                cells.append({"api": "to_diag", "n": k, "batch": lead, "fam": kind, "size": k,
                              "dtype": "f32" if (k + len(lead)) % 4 == 0 else "f64", "jitter": None, "nprobe": 1,
                              "start": "random", "nvec": 1})
    # root of an indefinite symmetric matrix (negative Ritz values are masked): model comparison only
    for n in ([4, 8] if quick else [3, 4, 8, 16]):
        for size in (n, 100):
            cells.append({"api": "root", "n": n, "batch": [], "fam": "indef", "size": size, "dtype": "f64",
                          "jitter": None, "nprobe": 1, "start": "random", "nvec": 1})
    return cells


def tridiag(c, g):
    k = c["n"]
    lead = tuple(c["batch"])
    d = torch.randn(*lead, k, generator=g, dtype=F64)
    e = torch.randn(*lead, max(k - 1, 0), generator=g, dtype=F64)
    if c["fam"] == "psd":
        d = d.abs() + 2.5
    elif c["fam"] == "negdef":
        d = -d.abs() - 2.5
    t = torch.diag_embed(d)
    if k > 1:
        t = t + torch.diag_embed(e, offset=1) + torch.diag_embed(e, offset=-1)
    return t


def build(c):
    g = torch.Generator().manual_seed(int(c["vseed"]))
    if c["api"] == "to_diag":
        return {"T": tridiag(c, g)}
    if c["fam"] == "indef":
        n = c["n"]
        q = S.rand_orth(n, g)
        lam = torch.linspace(-1.0, 2.0, n, dtype=F64)
        A = (q * lam.unsqueeze(0)) @ q.T
        A = (A + A.T) / 2
        return {"A": A.reshape(*c["batch"], n, n), "d": [n], "init": None}
    sp = {"n": c["n"], "batch": c["batch"], "nvec": c["nvec"], "fam": c["fam"], "vseed": c["vseed"],
          "start": "random" if c["api"] in ("root_inv_multi", "root_inv_1d") else "none"}
    d = S.build(sp)
    if c["api"] == "root_inv_multi":
        d["test"] = torch.randn(*c["batch"], c["n"], 4, generator=g, dtype=F64)
    return d


def run_api(c, d):
    """returns dict(ok, rec, out...) ; every exception is reported as ('err', ...)"""
    import linear_operator
    from linear_operator import settings
    from linear_operator.operators import to_linear_operator
    from linear_operator.utils.lanczos import lanczos_tridiag_to_diag
    dt = {"f64": torch.float64, "f32": torch.float32}[c["dtype"]]
    res = {"ok": True}
    try:
        with recording() as rec:
            if c["api"] == "to_diag":
                ev, V = lanczos_tridiag_to_diag(d["T"].to(dt).clone())
                res.update({"rec": rec, "evals": ev, "evecs": V})
                return res
            A = d["A"].to(dt)
            op = to_linear_operator(A)
            with contextlib.ExitStack() as st:
                st.enter_context(settings.max_root_decomposition_size(c["size"]))
                if c["jitter"] is not None:
                    st.enter_context(settings.tridiagonal_jitter(c["jitter"]))
                if c["api"] == "root":
                    r = op.root_decomposition(method="lanczos")
                    res["root"] = r.root.to_dense() if hasattr(r.root, "to_dense") else r.root
                elif c["api"] == "root_inv":
                    r = op.root_inv_decomposition(method="lanczos")
                    res["inv"] = r.root.to_dense() if hasattr(r.root, "to_dense") else r.root
                elif c["api"] == "root_inv_multi":
                    iv = d["init"].to(dt)
                    r = op.root_inv_decomposition(initial_vectors=iv, test_vectors=d["test"].to(dt), method="lanczos")
                    res["inv"] = r.root.to_dense() if hasattr(r.root, "to_dense") else r.root
                elif c["api"] == "root_inv_1d":
                    r = op.root_inv_decomposition(initial_vectors=d["init"].to(dt)[:, 0].clone(), method="lanczos")
                    res["inv"] = r.root.to_dense() if hasattr(r.root, "to_dense") else r.root
                elif c["api"] == "diag":
                    ev, V = op.diagonalization(method="lanczos")
                    res["dvals"] = ev
                    res["dvecs"] = V.to_dense() if hasattr(V, "to_dense") else V
            res["rec"] = rec
    except Exception as ex:  # noqa
        return {"ok": False, "error": "%s: %s" % (type(ex).__name__, str(ex)[:200])}
    return res


# ------------------------------------------------------------------------------------------ judging / literals

def _lead(x, *tail):
    return x.to(F64).reshape(-1, *tail)


def oracle_psd_part(T64):
    w, V = torch.linalg.eigh(T64)
    return (V * w.clamp_min(0.0).unsqueeze(-2)) @ V.mT


def judge_api(c, d, r, lanczos_cell, default_jitter=1e-6, member_ok=None):
    """property predicates on what the API returned (plain torch, float64), using the (Q, T) read back from the
    call.  lanczos_cell: the cell classification of the recorded Lanczos run ('regular' or a known defective
    cell; in the latter case only the model comparison is made).  Returns (fails, info)."""
    fails, info = [], {}
    eps = {"f64": 2.2e-16, "f32": 1.2e-7}[c["dtype"]]
    rt = 1e-8 if c["dtype"] == "f64" else 2e-3
    if not r["ok"]:
        return [{"fail": "raises", "error": r["error"]}], info
    rec = r["rec"]
    if c["api"] == "to_diag":
        T = d["T"].to({"f64": torch.float64, "f32": torch.float32}[c["dtype"]]).to(F64)
        k = c["n"]
        ev, V = r["evals"].to(F64), r["evecs"].to(F64)
        if list(ev.shape) != list(T.shape[:-1]) or list(V.shape) != list(T.shape):
            return [{"fail": "shape", "evals": list(ev.shape), "evecs": list(V.shape)}], info
        got = (V * ev.unsqueeze(-2)) @ V.mT
        exp = oracle_psd_part(T)
        err = float((got - exp).abs().max()) / max(float(T.abs().max()), 1e-300)
        info["to_diag_err"] = err
        if not (err <= (1e-9 if c["dtype"] == "f64" else 1e-4)):
            fails.append({"fail": "to_diag-psd-part", "value": err})
        if bool((ev <= 0).any()):
            fails.append({"fail": "to_diag-nonpositive-eigenvalue-returned", "value": float(ev.min())})
        return fails, info
    if not rec.lanczos:
        return [{"fail": "lanczos-not-called"}], info
    kw, q, t = rec.lanczos[-1]
    n = c["n"]
    m = t.shape[-1]
    info["m"] = m
    B = S.prod(c["batch"])
    A = d["A"].to({"f64": torch.float64, "f32": torch.float32}[c["dtype"]]).to(F64).reshape(B, n, n)
    qq, tt = _lead(q, n, m), _lead(t, m, m)
    Lq = qq.shape[0]
    nprobe = Lq // B
    ein, evals, evecs = rec.eigh[-1]
    ein, evals, evecs = _lead(ein, m, m), _lead(evals, m), _lead(evecs, m, m)
    jit = default_jitter if c["jitter"] is None else c["jitter"]
    exp_shape = list(c["batch"]) + [n, m]
    shape_fails = []

    def shape_fail(what, got, exp):
        # known finding C09-leading-singleton-batch: exactly the leading batch dimension of size 1 is missing
        kind = "shape"
        if len(c["batch"]) >= 1 and c["batch"][0] == 1 and list(got) == list(exp)[1:]:
            kind = "shape-leading-singleton-batch-dropped"
        shape_fails.append({"fail": kind, "what": what, "shape": list(got), "expected": list(exp)})
    for key in ("root", "inv", "dvecs"):
        if key in r and list(r[key].shape) != exp_shape:
            shape_fail(key, r[key].shape, exp_shape)
    if "dvals" in r and list(r["dvals"].shape) != list(c["batch"]) + [m]:
        shape_fail("dvals", r["dvals"].shape, list(c["batch"]) + [m])
    info["shapes"] = {k: list(r[k].shape) for k in ("root", "inv", "dvecs", "dvals") if k in r}
    if any(f["fail"] == "shape" for f in shape_fails) or any(r[k].numel() != Lq * n * m for k in ("root", "inv", "dvecs") if k in r and c["api"] != "root_inv_multi"):
        return [f for f in shape_fails if f["fail"] == "shape"] or shape_fails, info
    if c["fam"] == "indef" or (lanczos_cell != "regular" and not member_ok):
        return shape_fails, info
    # in a mixed cell (some member of the batch broke down) the members whose own Lanczos run is regular are judged
    worst = {}
    for li in range(Lq):
        b = li % B
        if lanczos_cell != "regular" and [li // B, b] not in member_ok:
            continue
        Q, T = qq[li], tt[li]
        an = max(float(A[b].abs().max()), 1e-300)
        jm = jit * float(torch.diagonal(T).min())
        P = Q @ Q.T
        E = P @ A[b] @ P + jm * P
        lam = evals[li]
        lmin, lmax = float(lam.min()), float(lam.max())
        if c["api"] in ("root",) or (c["api"] == "root_inv" and "root" in r):
            R = _lead(r["root"], n, m)[li]
            e = float((R @ R.T - E).abs().max()) / an
            worst["root"] = max(worst.get("root", 0.0), e / rt)
            if not (e <= rt):
                fails.append({"fail": "root-not-compression", "lead": li, "value": e, "tolerance": rt})
            if m == n:
                e2 = float((R @ R.T - A[b] - jm * torch.eye(n, dtype=F64)).abs().max()) / an
                worst["root_full"] = max(worst.get("root_full", 0.0), e2 / rt)
                if not (e2 <= rt):
                    fails.append({"fail": "root-not-A-on-full-space", "lead": li, "value": e2, "tolerance": rt})
        if c["api"] == "diag":
            Qd, dv = _lead(r["dvecs"], n, m)[li], _lead(r["dvals"], m)[li]
            got = (Qd * dv.unsqueeze(0)) @ Qd.T
            e = float((got - E).abs().max()) / an
            if not (e <= rt):
                # known finding C09-diagonalization-jitter-all-entries: the jitter lands on every entry of T
                E2 = P @ A[b] @ P + jm * (Q @ torch.ones(m, m, dtype=F64) @ Q.T)
                e2 = float((got - E2).abs().max()) / an
                if e2 <= rt:
                    fails.append({"fail": "diag-jitter-on-all-entries", "lead": li, "value": e, "tolerance": rt,
                                  "error_against_all_entries_formula": e2})
                else:
                    fails.append({"fail": "diagonalization-not-compression", "lead": li, "value": e, "tolerance": rt})
            else:
                worst["diag"] = max(worst.get("diag", 0.0), e / rt)
        if c["api"] in ("root_inv", "root_inv_multi", "root_inv_1d") and lmin > 1e-3 * lmax and (nprobe == 1 or rec.post):
            # several probes: the inverse root of EVERY probe (what the probe selection was given) must invert on its span
            Ri = _lead(r["inv"], n, m)[li] if nprobe == 1 else _lead(rec.post[-1][0], n, m)[li]
            kap = lmax / lmin
            tl = (1e-9 if c["dtype"] == "f64" else 1e-4) * kap * 10
            e = float((E @ (Ri @ Ri.T) - P).abs().max())
            worst["inv"] = max(worst.get("inv", 0.0), e / tl)
            if not (e <= tl):
                fails.append({"fail": "inverse-root-not-inverse-on-span", "lead": li, "value": e, "tolerance": tl})
    if c["api"] == "root_inv_multi" and rec.post:
        inv_roots, iv, tv, chosen = rec.post[-1]
        res, idx = probe_residuals(A.reshape(*c["batch"], n, n), inv_roots, tv, chosen)
        info["residuals"] = res
        info["chosen"] = idx
        if idx is None:
            fails.append({"fail": "best-probe-not-one-of-the-inverse-roots"})
        elif min(res) < res[idx] * (1 - 1e-9):
            fails.append({"fail": "best-probe-not-argmin", "residuals": res, "chosen": idx})
    info["worst"] = worst
    # a wrong value is reported before the (known) dropped singleton dimension
    return fails + shape_fails, info


def probe_residuals(A, inv_roots, test_vectors, chosen):
    """summed residuals of every probe (the formula of _postprocess_lanczos_root_inv_decomp, in float64) and the index
    of the probe whose inverse root was returned"""
    ir = inv_roots.to(F64)
    tv = test_vectors.to(F64).unsqueeze(0)
    solves = ir.matmul(ir.mT.matmul(tv))
    resid = (A.to(F64).unsqueeze(0).matmul(solves) - tv).norm(2, dim=-2)
    res = resid.reshape(resid.shape[0], -1).sum(-1).tolist()
    idx = None
    for j in range(inv_roots.shape[0]):
        if torch.equal(inv_roots[j], chosen) or torch.equal(inv_roots[j].squeeze(0), chosen):
            idx = j
            break
    return res, idx


def pcase_lits(c, d, r, flit, fmat_lit, seq_lit, coq_bool, default_jitter=1e-6):
    """Coq literals (MkPCase ...) for every leading index of an API call, MkSCase for the probe selection and MkHCase
    for the shapes handed back"""
    out, sc, hc = [], [], []
    if not r["ok"]:
        return out, sc, hc
    f32 = c["dtype"] == "f32"
    rtol = 1e-9 if not f32 else 2e-4
    dt = {"f64": torch.float64, "f32": torch.float32}[c["dtype"]]

    def opt(x):
        return "None" if x is None else "(Some %s)" % x

    def vec(v):
        return seq_lit([flit(x) for x in v.tolist()])
    if c["api"] == "to_diag":
        k = c["n"]
        T = _lead(d["T"].to(dt), k, k)
        ein, ev0, V0 = r["rec"].eigh[-1]
        ev0, V0 = _lead(ev0, k), _lead(V0, k, k)
        ev1, V1 = _lead(r["evals"], k), _lead(r["evecs"], k, k)
        eye = torch.eye(k, dtype=F64)
        for li in range(T.shape[0]):
            out.append("MkPCase %s %d %d true %s %s %s %s %s %s None None %s %s %s" % (
                coq_bool(f32), k, k, flit(0.0), fmat_lit(eye), fmat_lit(T[li]), fmat_lit(T[li]), vec(ev0[li]), fmat_lit(V0[li]),
                opt(vec(ev1[li])), opt(fmat_lit(V1[li])), flit(rtol)))
        return out, sc, hc
    rec = r["rec"]
    if not rec.lanczos or not rec.eigh:
        return out, sc, hc
    kw, q, t = rec.lanczos[-1]
    n, m = c["n"], t.shape[-1]
    qq, tt = _lead(q, n, m), _lead(t, m, m)
    ein, evals, evecs = rec.eigh[-1]
    ein, evals, evecs = _lead(ein, m, m), _lead(evals, m), _lead(evecs, m, m)
    jit = default_jitter if c["jitter"] is None else c["jitter"]
    if f32:
        jit = float(torch.tensor(jit, dtype=torch.float32))
    L = qq.shape[0]
    if not (bool(torch.isfinite(qq).all()) and bool(torch.isfinite(tt).all())):
        # NaN from a first-step breakdown (known finding): torch.min / eigh on NaN are not what the model describes
        return out, sc, hc
    obs = {}
    if c["api"] == "root_inv_multi" and rec.post:
        obs["inv"] = _lead(rec.post[-1][0], n, m)
    else:
        for key in ("root", "inv", "dvecs"):
            if key in r and r[key].numel() == L * n * m:
                obs[key] = _lead(r[key], n, m)
        if "dvals" in r and r["dvals"].numel() == L * m:
            obs["dvals"] = _lead(r["dvals"], m)
    for li in range(L):
        out.append("MkPCase %s %d %d %s %s %s %s %s %s %s %s %s %s %s %s" % (
            coq_bool(f32), n, m, coq_bool(c["api"] == "diag"), flit(jit), fmat_lit(qq[li]), fmat_lit(tt[li]), fmat_lit(ein[li]),
            vec(evals[li]), fmat_lit(evecs[li]),
            opt(fmat_lit(obs["root"][li]) if "root" in obs else None),
            opt(fmat_lit(obs["inv"][li]) if "inv" in obs else None),
            opt(vec(obs["dvals"][li]) if "dvals" in obs else None),
            opt(fmat_lit(obs["dvecs"][li]) if "dvecs" in obs else None), flit(rtol)))
    def nats(xs):
        return seq_lit(["%d" % int(x) for x in xs])
    if n > 1 and m > 1:
        if c["api"] in ("root", "root_inv", "root_inv_1d"):
            key = "root" if "root" in r else "inv"
            hc.append("MkHCase 0 1 %s %d %d %s [::]" % (nats(c["batch"]), n, m, nats(r[key].shape)))
        elif c["api"] == "diag":
            hc.append("MkHCase 1 1 %s %d %d %s %s" % (nats(c["batch"]), n, m, nats(r["dvecs"].shape), nats(r["dvals"].shape)))
        elif c["api"] == "root_inv_multi" and rec.post:
            hc.append("MkHCase 0 %d %s %d %d %s [::]" % (c["nprobe"], nats(c["batch"]), n, m, nats(rec.post[-1][0].shape)))
            hc.append("MkHCase 2 %d %s %d %d %s [::]" % (c["nprobe"], nats(c["batch"]), n, m, nats(r["inv"].shape)))
    if c["api"] == "root_inv_multi" and rec.post:
        inv_roots, iv, tv, chosen = rec.post[-1]
        B = S.prod(c["batch"])
        A = d["A"].to(dt).to(F64)
        res, idx = probe_residuals(A, inv_roots, tv, chosen)
        srt = sorted(res)
        if idx is not None:
            clear = len(srt) < 2 or srt[1] - srt[0] > 1e-9 * max(srt[1], 1e-300)
            Pn = inv_roots.shape[0]
            t = tv.shape[-1]
            ir = inv_roots.to(F64).reshape(Pn, B, n, m)
            tvv = tv.to(F64).reshape(B, n, t)
            AA = A.reshape(B, n, n)
            sc.append("MkSCase %d %d %d %s %s %s %s %d %s %s" % (
                n, m, t, seq_lit([fmat_lit(AA[b]) for b in range(B)]),
                seq_lit([seq_lit([fmat_lit(ir[p, b]) for b in range(B)]) for p in range(Pn)]),
                seq_lit([fmat_lit(tvv[b]) for b in range(B)]),
                seq_lit([flit(x) for x in res]), idx, coq_bool(clear), flit(1e-9)))
    return out, sc, hc


# ------------------------------------------------------------------------------------------ api-level argument check

def guard_grid(quick):
    """(batch, n, initial_vectors.shape) triples for root_inv_decomposition(method="lanczos")"""
    out = []
    for batch in ([], [2], [1, 2]) if quick else ([], [2], [1], [1, 2], [2, 3]):
        for n in (4,) if quick else (3, 4, 7):
            shapes = [[n], [n + 1], [n, 1], [n, 2], [n + 1, 1], [1, n, 1], [2, n, 1], [3, n, 2], [2, n + 1, 1], [1, 2, n, 1],
                      [1, 2, n + 1, 2], [2, 1, n, 1], list(batch) + [n, 3], list(batch) + [n - 1, 1], [1] + list(batch) + [n, 1]]
            seen = []
            for sh in shapes:
                if sh not in seen:
                    seen.append(sh)
                    out.append((list(batch), n, sh))
    return out


def run_root_inv_guard(batch, n, ivs):
    """(raised by the argument check?, note): RuntimeError with one of the two messages of lines 2237-2254"""
    from linear_operator.operators import to_linear_operator
    g = torch.Generator().manual_seed(1234 + 17 * n + len(batch) + 3 * len(ivs))
    Bm = torch.randn(*batch, n, n, generator=g, dtype=F64)
    A = Bm @ Bm.mT + torch.eye(n, dtype=F64)
    iv = torch.randn(*ivs, generator=g, dtype=F64)
    try:
        to_linear_operator(A).root_inv_decomposition(initial_vectors=iv, method="lanczos")
    except RuntimeError as ex:
        msg = str(ex)
        if "cannot be multiplied with initial_vectors" in msg or "should have the same number" in msg:
            return True, msg[:120]
        return False, "RuntimeError: " + msg[:120]
    except Exception as ex:  # noqa
        return False, "%s: %s" % (type(ex).__name__, str(ex)[:120])
    return False, "returned"
