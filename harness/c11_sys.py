"""C11 helpers: build symmetric systems from a JSON-able spec, run the real minres /
contour_integral_quad / SqrtInvMatmul with recording closures, and the independent dense float64
oracle (plain torch on dense tensors; never minres / contour_integral_quad themselves)."""
import contextlib
import math

import torch

F64 = torch.float64


def prod(t):
    r = 1
    for x in t:
        r *= int(x)
    return r


# ------------------------------------------------------------------------------------------ spectra

def spectrum(fam, n, kappa, g):
    """eigenvalues in [1, kappa] (SPD families) or in +-[1, kappa] (indef)"""
    kappa = float(kappa)
    if n == 1:
        return torch.tensor([math.sqrt(kappa)], dtype=F64)
    if fam == "identity":
        return torch.ones(n, dtype=F64)
    if fam == "uniform":
        return torch.linspace(1.0, kappa, n, dtype=F64)
    if fam == "geometric":
        return torch.tensor([kappa ** (i / (n - 1)) for i in range(n)], dtype=F64)
    if fam == "clustered":
        u = torch.rand(n, generator=g, dtype=F64)
        lo = 1.0 + 0.01 * u
        hi = kappa * (1.0 - 0.01 * u)
        lam = torch.where(torch.arange(n) % 2 == 0, lo, hi)
        lam[0], lam[1] = 1.0, kappa
        return lam
    if fam.startswith("few"):
        d = min(n, int(fam[3:] or 3))
        vals = [kappa ** (i / max(d - 1, 1)) for i in range(d)]
        return torch.tensor([vals[i % d] for i in range(n)], dtype=F64)
    if fam == "indef":
        lam = torch.tensor([kappa ** (i / (n - 1)) for i in range(n)], dtype=F64)
        sign = torch.where(torch.arange(n) % 2 == 0, 1.0, -1.0).to(F64)
        return lam * sign
    raise ValueError(fam)


def rand_orth(n, g):
    q, r = torch.linalg.qr(torch.randn(n, n, generator=g, dtype=F64))
    return q * torch.sign(torch.diagonal(r)).unsqueeze(0)


def make_cols(kinds, RB, n, g, same=False):
    """columns of kind n(ormal) z(ero) t(iny 1e-12: below the 1e-10 zero threshold) h(uge 1e12) s(mall 1e-7)"""
    cols = []
    for kd in kinds:
        if same or RB == 1:
            v = torch.randn(1, n, generator=g, dtype=F64).expand(RB, n).clone()
        else:
            v = torch.randn(RB, n, generator=g, dtype=F64)
        v = v / v.norm(dim=-1, keepdim=True) * (0.5 + torch.rand(1, generator=g, dtype=F64))
        if kd == "z":
            v = v * 0.0
        elif kd == "t":
            v = v * 1e-12
        elif kd == "h":
            v = v * 1e12
        elif kd == "s":
            v = v * 1e-7
        cols.append(v)
    return torch.stack(cols, dim=-1)        # (RB, n, c)


def build(spec):
    """spec -> dict of float64 master tensors; everything deterministic in spec.
    spec keys: n, cols (string of column kinds), batch, rhs_batch ('full'|'none'), rhs_vec, fam, kappa, scale,
               shifts {'kind': none|scalar|vec|batched|partial, 'Q': int}, value, pre, vseed"""
    g = torch.Generator().manual_seed(int(spec["vseed"]))
    n = spec["n"]
    c = len(spec["cols"])
    batch = tuple(spec["batch"])
    B = prod(batch)
    As, lams = [], []
    for b in range(B):
        lam = spectrum(spec["fam"], n, spec["kappa"], g) * float(spec.get("scale", 1.0))
        if spec["fam"] == "identity":
            a = torch.diag(lam)
        else:
            q = rand_orth(n, g)
            a = (q * lam.unsqueeze(0)) @ q.T
            a = (a + a.T) / 2
        As.append(a)
        lams.append(lam)
    K = torch.stack(As).reshape(*batch, n, n)
    rb = batch if (spec.get("rhs_batch", "full") == "full") else ()
    rhs = make_cols(spec["cols"], prod(rb), n, g).reshape(*rb, n, c)
    if spec.get("rhs_vec"):
        assert c == 1 and not rb
        rhs = rhs.reshape(n)
    # preconditioner closure matrix P (the closure is x -> P x); the shifted systems are then (vK + s P^{-1}) x = b
    pk = spec.get("pre", "none")
    P = None
    if pk not in ("none", "alias", "clone"):
        Ps = []
        for b in range(B):
            a = As[b]
            if pk == "jacobi":
                p = torch.diag(1.0 / torch.diagonal(a).abs())
            elif pk == "randspd":
                r = torch.randn(n, n, generator=g, dtype=F64)
                p = r @ r.T / n + 0.5 * torch.eye(n, dtype=F64)
            elif pk == "scaled":
                p = 0.25 * torch.eye(n, dtype=F64)
            else:
                raise ValueError(pk)
            Ps.append(p)
        P = torch.stack(Ps).reshape(*batch, n, n)
    # shifts
    sk = spec.get("shifts", {"kind": "none"})
    kind = sk["kind"]
    v = spec.get("value")
    lam_all = torch.stack(lams)
    top = float(lam_all.abs().max())
    sgn = -1.0 if (v is not None and v < 0) else 1.0

    def draw(*shape):
        # shifts that keep  vK + sI  definite for the SPD families: same sign as v, magnitudes spread over [0, top]
        u = torch.rand(*shape, generator=g, dtype=F64) if shape else torch.rand((), generator=g, dtype=F64)
        return sgn * (0.05 + u) * top * (abs(v) if v is not None else 1.0) * 0.5
    if kind == "none":
        shifts = None
    elif kind == "scalar":
        shifts = draw()
    elif kind == "vec":
        shifts = draw(int(sk["Q"]))
    elif kind == "zero-first":              # the CIQ layout: first shift 0
        shifts = draw(int(sk["Q"]))
        shifts[0] = 0.0
    elif kind == "spread":
        # shifts of very different difficulty in a prescribed ORDER: 0 (the hardest system: condition number of K),
        # 10 x and 100 x the largest eigenvalue (condition numbers ~1.1 and ~1.01).  order: asc = hardest first (the
        # layout of contour_integral_quad), desc = hardest last, mid = hardest in the middle
        Qs = int(sk["Q"])
        mags = [0.0, 10.0, 100.0][:Qs] if Qs <= 3 else [0.0] + [10.0 * (j + 1) for j in range(Qs - 1)]
        order = sk.get("order", "asc")
        if order == "desc":
            mags = mags[::-1]
        elif order == "mid":
            mags = mags[1:2] + mags[0:1] + mags[2:]
        shifts = sgn * torch.tensor(mags, dtype=F64) * top * (abs(v) if v is not None else 1.0)
    elif kind == "batched":
        shifts = draw(int(sk["Q"]), *batch)
    elif kind == "partial":                 # batch dimensions of size 1 where the rhs batch is larger
        sb = tuple(1 if (i % 2 == 0) else d for i, d in enumerate(batch))
        shifts = draw(int(sk["Q"]), *sb)
    else:
        raise ValueError(kind)
    if spec["fam"] == "indef" and shifts is not None:
        shifts = shifts * 0.01              # stay away from the eigenvalues (|lambda| >= 1)
    return {"K": K, "rhs": rhs, "P": P, "shifts": shifts, "lam": lam_all.reshape(*batch, n)}


# ------------------------------------------------------------------------------------------ closures

class Rec:
    """counts calls; applies matrix M (None = identity) with the requested memory behaviour"""

    def __init__(self, M, alias):
        self.M, self.alias = M, alias
        self.ncalls = 0

    def __call__(self, v):
        self.ncalls += 1
        if self.alias == "arg":           # legitimate only for M = I: returns its argument
            return v
        if self.alias == "clone":         # M = I, fresh memory
            return v.clone()
        return self.M @ v


@contextlib.contextmanager
def settings_ctx(spec):
    from linear_operator import settings
    with contextlib.ExitStack() as st:
        if spec.get("set_tol") is not None:
            st.enter_context(settings.minres_tolerance(float(spec["set_tol"])))
        if spec.get("set_max_cg") is not None:
            st.enter_context(settings.max_cg_iterations(int(spec["set_max_cg"])))
        if spec.get("set_nq") is not None:
            st.enter_context(settings.num_contour_quadrature(int(spec["set_nq"])))
        if spec.get("precond"):
            # make the operator's own preconditioner ACTIVE at small sizes (default threshold: 2000 rows) and inexact
            st.enter_context(settings.min_preconditioning_size(1))
            st.enter_context(settings.max_preconditioner_size(int(spec["precond"])))
        yield


def read_settings():
    from linear_operator import settings
    return {"max_cg": int(settings.max_cg_iterations.value()),
            "tol": float(settings.minres_tolerance.value()),
            "nq": int(settings.num_contour_quadrature.value())}


def cast(t, spec):
    if t is None:
        return None
    return t.to(torch.float32) if spec.get("dtype") == "float32" else t


def run_minres(spec, T, max_iter="spec", rhs_scale=None):
    """one call of the real minres.  Returns the observation dict."""
    from linear_operator.utils.minres import minres
    K = cast(T["K"], spec)
    rhs = cast(T["rhs"], spec)
    if rhs_scale is not None:
        rhs = rhs * rhs_scale
    mmk = spec.get("mm", "callable")
    mmr = Rec(K, {"callable": "fresh", "tensor": "fresh", "alias": "arg", "clone": "clone"}[mmk])
    mc = K if mmk == "tensor" else mmr
    pk = spec.get("pre", "none")
    prr = None
    if pk == "alias":
        prr = Rec(None, "arg")
    elif pk == "clone":
        prr = Rec(None, "clone")
    elif pk != "none":
        prr = Rec(cast(T["P"], spec), "fresh")
    kw = {}
    if spec.get("eps") is not None:
        kw["eps"] = spec["eps"]
    if T["shifts"] is not None:
        kw["shifts"] = cast(T["shifts"], spec)
    if spec.get("value") is not None:
        kw["value"] = spec["value"]
    mi = spec.get("max_iter") if max_iter == "spec" else max_iter
    if mi is not None:
        kw["max_iter"] = mi
    if prr is not None:
        kw["preconditioner"] = prr
    obs = {"err": None, "out": None, "iters": None, "settings": None}
    with settings_ctx(spec):
        obs["settings"] = read_settings()
        try:
            obs["out"] = minres(mc, rhs, **kw)
        except Exception as ex:  # noqa
            obs["err"] = type(ex).__name__ + ":" + str(ex)[:200]
    if mmk != "tensor":
        obs["iters"] = mmr.ncalls - 1
    return obs


# ------------------------------------------------------------------------------------------ shapes

def prod_batch(spec):
    """batch shape of mm_(rhs): broadcast of the operator batch and the rhs batch"""
    batch = tuple(spec["batch"])
    return batch


def full_cols(t, spec):
    """tensor broadcastable to (*batch, n, c) -> float64 tensor of exactly that shape"""
    batch = tuple(spec["batch"])
    n, c = spec["n"], len(spec["cols"])
    t = t.to(F64)
    if t.dim() == 1:
        t = t.unsqueeze(-1)
    return t.expand(*batch, n, c)


def shifts_table(T, spec):
    """(shape list, Q, tensor (Q, *batch) of the broadcast shifts) as minres uses them"""
    batch = tuple(spec["batch"])
    s = T["shifts"]
    if s is None:
        return [], 1, torch.zeros(1, *batch, dtype=F64)
    s = s.to(F64)
    shape = list(s.shape)
    Q = shape[0] if shape else 1
    s2 = s.reshape(Q, *shape[1:], *([1] * (len(batch) - max(len(shape) - 1, 0))))
    return shape, Q, s2.expand(Q, *batch)


def to_qcn(out, spec, Q):
    """observed minres output -> (Q, C, n) float64 tensor, or None if its shape is not one of the legal ones"""
    batch = tuple(spec["batch"])
    n, c = spec["n"], len(spec["cols"])
    B = prod(batch)
    if out.numel() != Q * B * n * c:
        return None
    x = out.to(F64).reshape(Q, B, n, c)
    return x.permute(0, 1, 3, 2).reshape(Q, B * c, n)


# ------------------------------------------------------------------------------------------ oracle

def system_matrices(T, spec):
    """(Q, *batch, n, n) dense matrices  value*K + s*P^{-1}  of the shifted systems (float64)"""
    K = T["K"]
    n = spec["n"]
    v = spec.get("value")
    Kv = K if v is None else K * float(v)
    _, Q, st = shifts_table(T, spec)
    if T["P"] is not None:
        M = torch.linalg.inv(T["P"])
    else:
        M = torch.eye(n, dtype=F64).expand_as(K)
    return Kv.unsqueeze(0) + st.reshape(Q, *st.shape[1:], 1, 1) * M.unsqueeze(0)


def residuals(T, spec, x_qcn):
    """relative residuals ||A_q x - b|| / ||b|| per (q, flat column); zero-kind columns are skipped by the caller"""
    batch = tuple(spec["batch"])
    n, c = spec["n"], len(spec["cols"])
    B = prod(batch)
    Aq = system_matrices(T, spec)
    Q = Aq.shape[0]
    Aq = Aq.reshape(Q, B, n, n)
    b = full_cols(T["rhs"], spec).reshape(B, n, c)
    x = x_qcn.reshape(Q, B, c, n).permute(0, 1, 3, 2)
    r = Aq @ x - b.unsqueeze(0)
    bn = b.norm(dim=-2).clamp_min(1e-300)
    return (r.norm(dim=-2) / bn.unsqueeze(0)).reshape(Q, B * c)


def exact_solutions(T, spec):
    batch = tuple(spec["batch"])
    n, c = spec["n"], len(spec["cols"])
    B = prod(batch)
    Aq = system_matrices(T, spec)
    Q = Aq.shape[0]
    b = full_cols(T["rhs"], spec).reshape(B, n, c)
    x = torch.linalg.solve(Aq.reshape(Q, B, n, n), b.unsqueeze(0).expand(Q, B, n, c))
    return x.permute(0, 1, 3, 2).reshape(Q, B * c, n)


# ------------------------------------------------------------------------------------------ contour integral quadrature

def build_spd(fam, n, kappa, scale, g):
    lam = spectrum(fam, n, kappa, g) * float(scale)
    if fam == "identity":
        return torch.diag(lam), lam
    q = rand_orth(n, g)
    a = (q * lam.unsqueeze(0)) @ q.T
    return (a + a.T) / 2, lam


def build_op(spec):
    """spec -> (LinearOperator built through the public constructors, dense K (*batch, n, n) float64 assembled from the
    constructor arguments, rhs (*batch, n, t), lhs (*batch, o, n) or None).  spec keys: op, n, batch, t, fam, kappa,
    scale, lhs (o or None), vseed"""
    import linear_operator.operators as O
    g = torch.Generator().manual_seed(int(spec["vseed"]))
    n, t = spec["n"], spec["t"]
    batch = tuple(spec["batch"])
    B = prod(batch)
    kind = spec["op"]
    fam, kappa, scale = spec["fam"], spec["kappa"], spec.get("scale", 1.0)

    if kind in ("dense", "constmul", "sum", "root", "added_diag"):
        Ks = [build_spd(fam, n, kappa, scale, g)[0] for _ in range(B)]
        K = torch.stack(Ks).reshape(*batch, n, n)
        if kind == "dense":
            op = O.DenseLinearOperator(K)
        elif kind == "constmul":
            op = O.DenseLinearOperator(K / 2.0) * 2.0
        elif kind == "sum":
            D = torch.diag_embed(0.25 * torch.diagonal(K, dim1=-2, dim2=-1))
            op = O.DenseLinearOperator(K / 4.0 + D) + O.DenseLinearOperator(3.0 * K / 4.0 - D)
        elif kind == "root":
            w, v = torch.linalg.eigh(K)
            R = v * w.clamp_min(0).sqrt().unsqueeze(-2)
            op = O.RootLinearOperator(R)
            K = R @ R.mT
        else:
            d = 0.5 * torch.diagonal(K, dim1=-2, dim2=-1)
            op = O.AddedDiagLinearOperator(O.DenseLinearOperator(K - torch.diag_embed(d)), O.DiagLinearOperator(d))
    elif kind == "diag":
        lam = torch.stack([spectrum(fam, n, kappa, g) * scale for _ in range(B)]).reshape(*batch, n)
        op = O.DiagLinearOperator(lam)
        K = torch.diag_embed(lam)
    elif kind == "lowrank_diag":
        # AddedDiag(Root(W), Diag(d)): the class with a (pivoted-Cholesky / Woodbury) preconditioner
        r = int(spec.get("rank", 3))
        W = torch.randn(*batch, n, r, generator=g, dtype=F64)
        d = (0.5 + torch.rand(*batch, n, generator=g, dtype=F64)) * scale
        op = O.AddedDiagLinearOperator(O.RootLinearOperator(W), O.DiagLinearOperator(d))
        K = W @ W.mT + torch.diag_embed(d)
    elif kind == "blockdiag":
        # dense operator holding a block-diagonal matrix whose blocks live on different scales: e_1 (and every vector
        # supported on the first block) lies in a proper invariant subspace that only sees the small eigenvalues
        a = max(n // 2, 1)
        Ks = []
        for _ in range(B):
            k1 = build_spd("uniform", a, 2.0, 1.0, g)[0]
            k2 = build_spd("uniform", n - a, 2.0, float(spec.get("sep", 400.0)), g)[0]
            Ks.append(torch.block_diag(k1, k2))
        K = torch.stack(Ks).reshape(*batch, n, n)
        op = O.DenseLinearOperator(K)
    elif kind == "krondiag":
        a, b = spec["factors"]
        assert a * b == n
        Ka = torch.stack([build_spd("uniform", a, 5.0, 1.0, g)[0] for _ in range(B)]).reshape(*batch, a, a)
        dd = torch.tensor([1.0] + [float(spec.get("sep", 200.0))] * (b - 1), dtype=F64).expand(*batch, b)
        op = O.KroneckerProductLinearOperator(O.DenseLinearOperator(Ka), O.DiagLinearOperator(dd.clone()))
        K = (Ka[..., :, None, :, None] * torch.diag_embed(dd)[..., None, :, None, :]).reshape(*batch, n, n)
    elif kind == "constdiag":
        c = (0.5 + torch.rand(*batch, 1, generator=g, dtype=F64)) * scale
        op = O.ConstantDiagLinearOperator(c, diag_shape=n)
        K = torch.diag_embed(c.expand(*batch, n))
    elif kind == "identity":
        op = O.IdentityLinearOperator(n, batch_shape=torch.Size(batch), dtype=F64)
        K = torch.eye(n, dtype=F64).expand(*batch, n, n).clone()
    elif kind == "kron":
        a, b = spec["factors"]
        assert a * b == n
        Ka = torch.stack([build_spd(fam, a, math.sqrt(kappa), scale, g)[0] for _ in range(B)]).reshape(*batch, a, a)
        Kb = torch.stack([build_spd("uniform", b, math.sqrt(kappa), 1.0, g)[0] for _ in range(B)]).reshape(*batch, b, b)
        op = O.KroneckerProductLinearOperator(O.DenseLinearOperator(Ka), O.DenseLinearOperator(Kb))
        K = (Ka[..., :, None, :, None] * Kb[..., None, :, None, :]).reshape(*batch, n, n)
    else:
        raise ValueError(kind)
    rb = batch if spec.get("rhs_batch", "full") == "full" else ()
    if spec.get("data_batch") is not None:          # explicit batch shape of rhs (and lhs): more / fewer / singleton dims
        rb = tuple(spec["data_batch"])
    rhs = torch.randn(*rb, n, t, generator=g, dtype=F64)
    if spec.get("rhs_kind") == "orth":
        # an orthogonal n x n right-hand side: out = R Q gives out out^T = R R^T (the Gram matrix of the computed root)
        assert t == n
        rhs = torch.stack([rand_orth(n, g) for _ in range(prod(rb))]).reshape(*rb, n, n)
    r0 = spec.get("rhs0")
    if r0 == "e1":              # the column that seeds the Lanczos eigenvalue estimate is a coordinate vector
        rhs[..., :, 0] = 0.0
        rhs[..., 0, 0] = 1.0
    elif r0 == "eig":           # ... or an eigenvector (of the smallest eigenvalue)
        ev = torch.linalg.eigh(K)[1][..., :, 0]
        rhs[..., :, 0] = ev if rb else ev.reshape(-1, n)[0]
    lhs = None
    if spec.get("lhs"):
        lb = tuple(spec["lhs_batch"]) if spec.get("lhs_batch") is not None else rb
        lhs = torch.randn(*lb, int(spec["lhs"]), n, generator=g, dtype=F64)
    return op, K, rhs, lhs


def ciq_module():
    import sys
    import linear_operator.utils.contour_integral_quad  # noqa
    return sys.modules["linear_operator.utils.contour_integral_quad"]


class CiqRecorder:
    """wraps linear_operator.utils.contour_integral_quad (the name SqrtInvMatmul.forward and the sampling code look up)
    and records what it returned — in the harness process only, nothing of the repository is changed"""

    def __init__(self):
        self.calls = []

    def __enter__(self):
        import linear_operator.utils as U
        import linear_operator.operators._linear_operator as LO
        self.U = U
        self.mod = ciq_module()
        self.orig = self.mod.contour_integral_quad
        rec = self

        def wrapper(*a, **k):
            out = rec.orig(*a, **k)
            rec.calls.append({"rhs": a[1].detach().clone(), "inverse": k.get("inverse", False),
                              "solves": out[0].detach().clone(), "weights": out[1].detach().clone(),
                              "no_shift": out[2].detach().clone(), "shifts": out[3].detach().clone()})
            return out
        self.saved_U = U.contour_integral_quad
        U.contour_integral_quad = wrapper
        self.mod.contour_integral_quad = wrapper
        return self

    def __exit__(self, *exc):
        self.U.contour_integral_quad = self.saved_U
        self.mod.contour_integral_quad = self.orig
        return False


class RandnPatch:
    """replaces torch.randn by a function returning prescribed base samples (harness process only)"""

    def __init__(self, base):
        self.base = base

    def __enter__(self):
        self.orig = torch.randn
        base = self.base

        def fake(*shape, **kw):
            shp = tuple(shape[0]) if len(shape) == 1 and isinstance(shape[0], (tuple, list, torch.Size)) else tuple(shape)
            assert tuple(base.shape) == shp, (base.shape, shp)
            return base.clone().to(kw.get("dtype", base.dtype))
        torch.randn = fake
        return self

    def __exit__(self, *exc):
        torch.randn = self.orig
        return False
