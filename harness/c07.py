"""C07 — gradients through operators equal gradients through the dense computation.

theorems : coq/C07/Property.v over coq/C07/Model.v (transcription of representation() / representation_tree() /
           every `_bilinear_derivative` override and the default path / Matmul.backward)
tie (a)  : correspondence, exact in Z.  For every generated operator expression the REAL operator is built
           (opbuild.build on leaves with a requires_grad mask), `op._bilinear_derivative(U, V)` is called on integer
           U, V; the Coq literal of the expression is written from the structure of the expression and the tensors of the
           REAL `op.representation()` (so expansions done by constructors are what the model sees); Coq evaluates
           `alg_bd` (vm_compute) and lists the cases whose tuple (length, None pattern, shapes, values) differs.
predicate: (a') every returned tuple is compared in Python with torch.autograd.grad of (U * (D @ V)).sum() where D is the
           dense assembly (plain torch) from detached copies of the representation tensors: the independent oracle.
       (b) harness/c07_pred.py: torch.autograd.grad of every scalarised differentiable entry point on the operator vs on
           the dense assembly from the same leaves, memory_efficient on/off, max_cholesky_size 0/default (failing-input
           search for the parts that are not proved: inverse / logdet / eigen functions).
triage   : model != implementation and oracle != implementation -> violation (or keyed known finding)
           model != implementation and oracle == implementation -> the model is wrong (reported, no-failing-input)
           model == implementation and oracle != implementation -> violation (defect transcribed faithfully; known finding)
"""
import itertools
import json
import math
import os
import random
import re
import time
import traceback

import torch

from . import common, opbuild as ob
from . import c07_pred as P
from . import c07_predlib as L

PROP = "C07"
SH = 40                      # cases per shard
F64 = torch.float64

HDR = ("From Coq Require Import List ZArith Bool.\nImport ListNotations.\n"
       "Require Import C07.Model C07.Check.\n")


def regenerate():
    os.makedirs(os.path.join(common.COQ, PROP, "gen"), exist_ok=True)
    return {}


# ------------------------------------------------------------------------------------------ binding to representation()

# classes whose matrix is an affine function of each single leaf (all other leaves fixed): there the unit-step
# coefficient of the model's default path is exact and values are compared; everywhere else only routing is compared
AFFINE = {"Dense", "UserMinimal", "Diag", "ConstantDiag", "Identity", "Toeplitz", "Triangular", "Kron", "KronTriangular",
          "KronDiag", "KronAddedDiag", "SumKron", "AddedDiag", "Sum", "PsdSum", "Matmul", "ConstantMul", "BlockDiag",
          "BlockInterleaved", "SumBatch", "BatchRepeat", "Interpolated", "Masked"}
OPAQUE_ID = {"Kernel": 1, "Cat": 2, "Permutation": 3}
MODELLED = AFFINE | {"Chol", "Root", "LowRankRoot", "LowRankRootAddedDiag", "Mul"} | set(OPAQUE_ID)


class Unbindable(Exception):
    pass


def bind(e, rep):
    """walk the expression in representation order and attach to every tensor field the index of the tensor of
    op.representation() it became.  -> tree of dicts {"cls", ..., fields: {"k": index}} ; raises Unbindable"""
    ctr = itertools.count()

    def leaf(spec, want):
        k = next(ctr)
        if k >= len(rep):
            raise Unbindable("representation() is shorter than the expression's leaves")
        t = rep[k]
        kind = "bool" if t.dtype == torch.bool else ("long" if t.dtype == torch.long else "float")
        if kind != want:
            raise Unbindable("leaf %d is %s, expected %s" % (k, kind, want))
        return {"k": k}

    def rec(x):
        c = x["cls"]
        y = {"cls": c}
        if c not in MODELLED:
            raise Unbindable("class %s is not modelled" % c)
        if c in ("Dense", "UserMinimal", "Triangular", "Chol"):
            y["t"] = leaf(x["t"], "float")
            y["upper"] = bool(x.get("upper"))
        elif c == "Diag":
            y["d"] = leaf(x["d"], "float")
        elif c == "ConstantDiag":
            y["c"] = leaf(x["c"], "float")
            y["n"] = x["n"]
        elif c == "Identity":
            y["n"], y["batch"] = x["n"], list(x.get("batch", []))
        elif c == "Toeplitz":
            y["col"] = leaf(x["col"], "float")
        elif c in ("Root", "LowRankRoot"):
            r = x["root"]
            y["root"] = rec(r) if (isinstance(r, dict) and "cls" in r) else {"cls": "Dense", "t": leaf(r, "float")}
        elif c == "Kernel":
            y["x1"] = leaf(x["x1"], "float")
            y["x2"] = leaf(x["x2"], "float")
            y["c"] = leaf(x["c"], "float") if x.get("c") is not None else None
            y["square"] = bool(x.get("square"))
        elif c == "Permutation":
            y["perm"] = leaf(x["perm"], "long")
            y["inv"] = leaf(x["perm"], "long")        # PermutationLinearOperator(perm, inv_perm): both are arguments
        elif c in ("Kron", "KronTriangular", "KronDiag", "Sum", "PsdSum", "Cat"):
            y["ops"] = [rec(k) for k in x["ops"]]
            y["dim"] = x.get("dim")
        elif c == "KronAddedDiag":
            y["ops"] = [rec(x["kron"]), rec(x["diag"])]
        elif c == "SumKron":
            y["ops"] = [rec(x["a"]), rec(x["b"])]
        elif c == "AddedDiag":
            y["ops"] = [rec(x["base"]), rec(x["diag"])]
        elif c == "LowRankRootAddedDiag":
            y["ops"] = [rec(x["root"]), rec(x["diag"])]
        elif c == "Matmul":
            y["l"], y["r"] = rec(x["l"]), rec(x["r"])
        elif c == "Mul":
            l, r = x["l"], x["r"]
            # MulLinearOperator.__init__ swaps its arguments when the left root is the smaller one
            if rank_of_root(l) < rank_of_root(r):
                l, r = r, l
            y["l"], y["r"] = rec(l), rec(r)
        elif c == "ConstantMul":
            y["base"] = rec(x["base"])
            y["c"] = leaf(x["c"], "float")
        elif c in ("BlockDiag", "BlockInterleaved", "SumBatch"):
            if x.get("block_dim", -3) != -3:
                raise Unbindable("block_dim != -3")
            if c == "BlockDiag" and is_diag_family(x["base"]):
                # _MetaBlockDiagLinearOperator returns DiagLinearOperator(base._diag.flatten(-2, -1))
                return {"cls": "Diag", "d": leaf(None, "float")}
            y["base"] = rec(x["base"])
        elif c == "BatchRepeat":
            y["base"] = rec(x["base"])
            y["rep"] = list(x["rep"])
        elif c == "Interpolated":
            y["base"] = rec(x["base"])
            y["li"], y["lv"] = leaf(x["li"], "long"), leaf(x["lv"], "float")
            y["ri"], y["rv"] = leaf(x["ri"], "long"), leaf(x["rv"], "float")
        elif c == "Masked":
            y["base"] = rec(x["base"])
            y["row_mask"], y["col_mask"] = leaf(x["row_mask"], "bool"), leaf(x["col_mask"], "bool")
        else:
            raise Unbindable("class %s" % c)
        return y

    tree = rec(e)
    n = next(ctr)
    if n != len(rep):
        raise Unbindable("representation() has %d tensors, the expression has %d leaves" % (len(rep), n))
    return tree


def is_diag_family(x):
    """instances of DiagLinearOperator (incl. what _MetaBlockDiagLinearOperator turns into one)"""
    return x["cls"] in ("Diag", "ConstantDiag", "Identity", "KronDiag") or \
        (x["cls"] == "BlockDiag" and x.get("block_dim", -3) == -3 and is_diag_family(x["base"]))


def identity_slots(t):
    """positions, in the tuple returned by _bilinear_derivative, of the slots that IdentityLinearOperator nodes
    contribute although representation() has no tensor for them"""
    out, nleaf = [], [0]

    def rec(x):
        if x["cls"] == "Identity":
            out.append(nleaf[0] + len(out))
            return
        for k, v in x.items():
            if k == "cls":
                continue
            if isinstance(v, dict) and "k" in v:
                pass
        # children / leaves in representation order
        order = {"Interpolated": ["base", "li", "lv", "ri", "rv"], "Masked": ["base", "row_mask", "col_mask"],
                 "ConstantMul": ["base", "c"], "Kernel": ["x1", "x2", "c"], "Permutation": ["perm", "inv"],
                 "Matmul": ["l", "r"], "Mul": ["l", "r"]}.get(x["cls"])
        if order is None:
            order = [k for k in ("t", "d", "c", "col", "root", "base") if k in x] + (["ops"] if "ops" in x else [])
        for k in order:
            v = x.get(k)
            if v is None:
                continue
            if k == "ops":
                for y in v:
                    rec(y)
            elif isinstance(v, dict) and "cls" in v:
                rec(v)
            elif isinstance(v, dict) and "k" in v:
                nleaf[0] += 1
    rec(t)
    return out


def rank_of_root(x):
    if x["cls"] in ("Root", "LowRankRoot"):
        r = x["root"]
        return ob.shape_of(r)[-1] if (isinstance(r, dict) and "cls" in r) else r["shape"][-1]
    return ob.shape_of(x)[-1]


def tree_nodes(t):
    yield t
    for k in ("ops",):
        for x in t.get(k, []) or []:
            yield from tree_nodes(x)
    for k in ("base", "l", "r", "root"):
        if isinstance(t.get(k), dict) and "cls" in t[k]:
            yield from tree_nodes(t[k])


def value_exact(t):
    return all(x["cls"] in AFFINE for x in tree_nodes(t))


def cmp_mode(t):
    """2: values, shapes, pattern ; 1: shapes, pattern (non-affine nodes) ; 0: pattern only (routing-only classes)"""
    if any(x["cls"] in OPAQUE_ID for x in tree_nodes(t)):
        return 0
    return 2 if value_exact(t) else 1


# ------------------------------------------------------------------------------------------ Coq literals

def zl(v):
    v = int(v)
    return "(%d)" % v if v < 0 else "%d" % v


def ints_of(x, tol=1e-6):
    """float64 tensor -> list of ints, or None if some entry is not an integer up to tol"""
    v = x.detach().to(F64).contiguous().reshape(-1)
    r = v.round()
    if v.numel() and not bool(torch.isfinite(v).all()):
        return None
    if v.numel() and float((v - r).abs().max()) > tol * max(1.0, float(r.abs().max())):
        return None
    return [int(a) for a in r.tolist()]


def tz_lit(x):
    d = ints_of(x)
    if d is None:
        raise Unbindable("non-integer data")
    return "(TZ %s [%s]%%Z)" % (common.natlist(list(x.shape)[::-1]), "; ".join(zl(a) for a in d))


def ti_lit(x):
    return "(TI %s %s)" % (common.natlist(list(x.shape)[::-1]), common.natlist(x.reshape(-1).tolist()))


def bools_lit(x):
    return "[" + "; ".join("true" if v else "false" for v in x.reshape(-1).tolist()) + "]"


def model_lit(t, rep):
    """bound tree -> Gallina term of type OpExpr ZK (aliases eDense ... of coq/C07/Check.v)"""
    M = lambda x: model_lit(x, rep)
    F = lambda lf: "%s %s" % (tz_lit(rep[lf["k"]]), common.coq_bool(rep[lf["k"]].requires_grad))
    ops = lambda xs: "[" + "; ".join(M(x) for x in xs) + "]"
    c = t["cls"]
    if c == "Dense":
        return "(eDense %s)" % F(t["t"])
    if c == "UserMinimal":
        return "(eTri (eDense %s) false)" % F(t["t"])
    if c == "Triangular":
        return "(eTri (eDense %s) %s)" % (F(t["t"]), common.coq_bool(t["upper"]))
    if c == "Chol":
        u = common.coq_bool(t["upper"])
        return "(eChol (eTri (eDense %s) %s) %s)" % (F(t["t"]), u, u)
    if c == "Diag":
        return "(eDiag %s)" % F(t["d"])
    if c == "ConstantDiag":
        return "(eCDiag %s %d)" % (F(t["c"]), t["n"])
    if c == "Identity":
        return "(eId %d %s)" % (t["n"], common.natlist(t["batch"][::-1]))
    if c == "Toeplitz":
        return "(eToep %s)" % F(t["col"])
    if c in ("Root", "LowRankRoot"):
        return "(eRoot %s)" % M(t["root"])
    if c in ("Kron", "KronTriangular", "KronDiag"):
        return "(eKron %s)" % ops(t["ops"])
    if c in ("Sum", "PsdSum", "KronAddedDiag", "SumKron", "AddedDiag", "LowRankRootAddedDiag"):
        return "(eSum %s)" % ops(t["ops"])
    if c == "Matmul":
        return "(eMatmul %s %s)" % (M(t["l"]), M(t["r"]))
    if c == "Mul":
        return "(eMul %s %s)" % (M(t["l"]), M(t["r"]))
    if c == "ConstantMul":
        return "(eCMul %s %s)" % (M(t["base"]), F(t["c"]))
    if c == "BlockDiag":
        return "(eBD %s)" % M(t["base"])
    if c == "BlockInterleaved":
        return "(eBI %s)" % M(t["base"])
    if c == "SumBatch":
        return "(eSB %s)" % M(t["base"])
    if c == "BatchRepeat":
        return "(eBR %s %s)" % (M(t["base"]), common.natlist(t["rep"][::-1]))
    if c == "Interpolated":
        return "(eInterp %s %s %s %s %s)" % (M(t["base"]), ti_lit(rep[t["li"]["k"]]), F(t["lv"]),
                                              ti_lit(rep[t["ri"]["k"]]), F(t["rv"]))
    if c == "Masked":
        return "(eMasked %s %s %s)" % (M(t["base"]), bools_lit(rep[t["row_mask"]["k"]]), bools_lit(rep[t["col_mask"]["k"]]))
    if c == "Kernel":
        lf = ["(eLeaf (lF %s))" % F(t["x1"]), "(eLeaf (lF %s))" % F(t["x2"])]
        if t["c"] is not None:
            lf.append("(eLeaf (lF %s))" % F(t["c"]))
        return "(eOpaque %d [%s])" % (OPAQUE_ID[c], "; ".join(lf))
    if c == "Permutation":
        return "(eOpaque %d [eLeaf (lI %s); eLeaf (lI %s)])" % (OPAQUE_ID[c], ti_lit(rep[t["perm"]["k"]]),
                                                                   ti_lit(rep[t["inv"]["k"]]))
    if c == "Cat":
        return "(eOpaque %d %s)" % (OPAQUE_ID[c], ops(t["ops"]))
    raise Unbindable(c)


def obs_lit(obs):
    if obs is None:
        return "None"
    items = []
    for g in obs:
        if g is None:
            items.append("None")
        else:
            d = ints_of(g)
            if d is None:
                raise Unbindable("non-integer gradient")
            items.append("Some (%s, [%s]%%Z)" % (common.natlist(list(g.shape)[::-1]), "; ".join(zl(a) for a in d)))
    return "(Some [%s])" % "; ".join(items)


# ------------------------------------------------------------------------------------------ dense oracle on the representation

def dense_t(t, lv):
    """the dense matrix the bound tree denotes, assembled with plain torch from the tensors lv[k]"""
    D = lambda x: dense_t(x, lv)
    T = lambda lf: lv[lf["k"]]
    c = t["cls"]
    if c in ("Dense", "UserMinimal", "Triangular"):
        return T(t["t"])
    if c == "Chol":
        x = T(t["t"])
        return x.mT @ x if t["upper"] else x @ x.mT
    if c == "Diag":
        return torch.diag_embed(T(t["d"]))
    if c == "ConstantDiag":
        cv = T(t["c"])
        return torch.diag_embed(cv.expand(*cv.shape[:-1], t["n"]))
    if c == "Identity":
        return torch.eye(t["n"], dtype=F64).expand(*t["batch"], t["n"], t["n"])
    if c == "Toeplitz":
        col = T(t["col"])
        n = col.shape[-1]
        idx = (torch.arange(n)[:, None] - torch.arange(n)[None, :]).abs()
        return col[..., idx]
    if c in ("Root", "LowRankRoot"):
        r = D(t["root"])
        return r @ r.mT
    if c in ("Kron", "KronTriangular", "KronDiag"):
        r = None
        for x in t["ops"]:
            r = D(x) if r is None else ob.bkron(r, D(x))
        return r
    if c in ("Sum", "PsdSum", "KronAddedDiag", "SumKron", "AddedDiag", "LowRankRootAddedDiag"):
        r = None
        for x in t["ops"]:
            r = D(x) if r is None else r + D(x)
        return r
    if c == "Matmul":
        return D(t["l"]) @ D(t["r"])
    if c == "Mul":
        return D(t["l"]) * D(t["r"])
    if c == "ConstantMul":
        return D(t["base"]) * T(t["c"])[..., None, None]
    if c in ("BlockDiag", "BlockInterleaved", "SumBatch"):
        base = D(t["base"])
        k, m, n = base.shape[-3:]
        if c == "SumBatch":
            return base.sum(-3)
        out = torch.zeros(*base.shape[:-3], k * m, k * n, dtype=F64)
        rows = []
        for i in range(k):
            if c == "BlockDiag":
                out = out + torch.nn.functional.pad(base[..., i, :, :], (i * n, (k - 1 - i) * n, i * m, (k - 1 - i) * m))
            else:
                z = torch.zeros(*base.shape[:-3], k * m, k * n, dtype=F64)
                z[..., i::k, i::k] = base[..., i, :, :]
                out = out + z
        return out
    if c == "BatchRepeat":
        base = D(t["base"])
        rep = list(t["rep"])
        pad = len(rep) + 2 - base.dim()
        if pad > 0:
            base = base.reshape(*([1] * pad), *base.shape)
        return base.repeat(*([1] * (base.dim() - 2 - len(rep))), *rep, 1, 1)
    if c == "Cat":
        return torch.cat([D(x) for x in t["ops"]], dim=t["dim"])
    if c == "Interpolated":
        base = D(t["base"])
        li, ri = T(t["li"]), T(t["ri"])
        Wl = torch.zeros(*li.shape[:-1], base.shape[-2], dtype=F64).scatter_add(-1, li, T(t["lv"]))
        Wr = torch.zeros(*ri.shape[:-1], base.shape[-1], dtype=F64).scatter_add(-1, ri, T(t["rv"]))
        return Wl @ base @ Wr.mT
    if c == "Masked":
        base = D(t["base"])
        return base[..., T(t["row_mask"]), :][..., :, T(t["col_mask"])]
    if c == "Permutation":
        p = T(t["perm"])
        return torch.eye(p.shape[-1], dtype=F64)[p]
    if c == "Kernel":
        k = T(t["x1"]) @ T(t["x2"]).mT
        if t["square"]:
            k = k * k
        if t["c"] is not None:
            k = k * T(t["c"])
        return k
    raise ValueError(c)


def oracle_grads(tree, rep, U, V):
    """d/d rep[k] of sum(U * (D(rep) @ V)) by torch.autograd on the dense assembly (every slot of rep is an independent
    variable, as in `_bilinear_derivative`).  -> list aligned with rep (None for non-float leaves)"""
    lv = [r.detach().clone().requires_grad_(True) if r.is_floating_point() else r.detach().clone() for r in rep]
    Dm = dense_t(tree, lv)
    s = (U * (Dm @ V)).sum()
    fl = [x for x in lv if x.is_floating_point()]
    if not fl or not s.requires_grad:
        return [None if not x.is_floating_point() else torch.zeros_like(x) for x in lv]
    g = torch.autograd.grad(s, fl, allow_unused=True)
    out, it = [], iter(g)
    for x in lv:
        if x.is_floating_point():
            gi = next(it)
            out.append(torch.zeros_like(x) if gi is None else gi.detach())
        else:
            out.append(None)
    return out


def judge(rep, obs, orc, tree=None):
    """the property's predicate on one `_bilinear_derivative` call.  -> None | (fail kind, slot, text)"""
    v = judge0(rep, obs, orc)
    if v and tree is not None and not isinstance(obs, Exception):
        ids = identity_slots(tree)
        if ids and len(obs) == len(rep) + len(ids) and all(obs[i] is None for i in ids):
            o2 = [g for i, g in enumerate(obs) if i not in set(ids)]
            if judge0(rep, o2, orc) is None:
                return ("identity-slot", ids[0], "the tuple is misaligned by the slot(s) %s that IdentityLinearOperator returns "
                        "although representation() has no tensor for it (%s)" % (ids, v[2]))
    return v


def judge0(rep, obs, orc):
    if isinstance(obs, Exception):
        return ("raises", None, L.exc_str(obs))
    o = list(obs)
    while len(o) > len(rep) and o[-1] is None:       # torch.autograd tolerates trailing None gradients
        o.pop()
    if len(o) != len(rep):
        return ("count", None, "tuple has %d slots, representation() has %d tensors" % (len(obs), len(rep)))
    for k, (r, g) in enumerate(zip(rep, o)):
        if not (r.is_floating_point() and r.requires_grad):
            continue                                   # autograd drops what is returned for non-differentiable inputs
        want = orc[k]
        if g is None:
            if float(want.abs().max()) > 0 if want.numel() else False:
                return ("none", k, "slot %d is None, dense gradient is non-zero" % k)
            continue
        if not torch.is_tensor(g):
            return ("type", k, "slot %d is %s" % (k, type(g).__name__))
        gg = g.detach().to(F64)
        if tuple(gg.shape) != tuple(r.shape):
            try:                                       # autograd reduces a gradient that is an expansion of the input
                if gg.dim() < r.dim():
                    raise RuntimeError("fewer dims")
                gg = gg.sum_to_size(r.shape)
            except RuntimeError:
                return ("shape", k, "slot %d has shape %s, tensor has shape %s" % (k, tuple(g.shape), tuple(r.shape)))
        if not bool(torch.isfinite(gg).all()):
            return ("value", k, "slot %d has non-finite entries" % k)
        err = float((gg - want).abs().max()) if gg.numel() else 0.0
        if err > 1e-6 * max(1.0, float(want.abs().max()) if want.numel() else 1.0):
            return ("value", k, "slot %d differs from the dense gradient by %g" % (k, err))
    return None


# ------------------------------------------------------------------------------------------ grid of part (a)

ROOTS_A = ["Dense", "UserMinimal", "Diag", "ConstantDiag", "Identity", "Toeplitz", "Triangular", "Chol", "Root", "LowRankRoot",
           "Kernel", "Permutation", "Kron", "KronTriangular", "KronDiag", "KronAddedDiag", "SumKron", "AddedDiag",
           "LowRankRootAddedDiag", "Sum", "PsdSum", "Matmul", "Mul", "ConstantMul", "BlockDiag", "BlockInterleaved",
           "SumBatch", "BatchRepeat", "Cat", "Interpolated", "Masked"]
TAKES_CHILD = ["Kron", "Sum", "Matmul", "ConstantMul", "BlockDiag", "BlockInterleaved", "SumBatch", "BatchRepeat",
               "Interpolated", "Masked", "AddedDiag", "Cat", "KronAddedDiag", "PsdSum"]
CHILDREN_A = ["Dense", "Diag", "ConstantDiag", "Identity", "Toeplitz", "Triangular", "UserMinimal", "Kron", "Sum", "Matmul",
              "ConstantMul", "BlockDiag", "BlockInterleaved", "SumBatch", "BatchRepeat", "Interpolated", "Masked", "AddedDiag",
              "KronDiag", "Chol", "Root", "Kernel", "Mul", "Cat", "LowRankRootAddedDiag", "SumKron"]
BATCH_A = {"()": [], "(2,)": [2], "(1,)": [1], "(2,3)": [2, 3], "(3,1)": [3, 1]}
SIZES_A = {"sq3": (3, 3), "wide": (2, 3), "tall": (3, 2), "one": (1, 1), "sq2": (2, 2)}
UV_A = ["same", "bigger", "v_nobatch", "same", "expand1"]
RG_A = ["all", "single", "compl", "none", "all", "alt"]


def cells_a(quick):
    """deterministic structural cells (root, child, batch kind, size kind, uv kind, rg kind, depth, special)"""
    out = []
    bk, sk = list(BATCH_A), list(SIZES_A)
    i = 0

    def add(root, child, b, s, depth, special=None):
        nonlocal i
        out.append({"root": root, "child": child, "batch": b, "size": s, "uv": UV_A[i % len(UV_A)],
                    "rg": RG_A[(i // 2) % len(RG_A)], "d": 1 + (i % 3), "depth": depth, "special": special})
        i += 1
    for ri, root in enumerate(ROOTS_A):
        for bi, b in enumerate(bk):
            if quick and bi >= 3 and (ri + bi) % 2:
                continue
            add(root, None, b, sk[(ri + bi) % len(sk)], 2 if root in TAKES_CHILD else 1)
    for pi, par in enumerate(TAKES_CHILD):
        for ci, ch in enumerate(CHILDREN_A):
            reps = 1 if quick else 3
            for r in range(reps):
                add(par, ch, bk[(pi + ci + r) % len(bk)], sk[(pi + 2 * ci + r) % len(sk)], 2)
    for pi, par in enumerate(TAKES_CHILD):              # depth 3
        for ci, ch in enumerate(TAKES_CHILD):
            if quick and (pi + ci) % 3:
                continue
            add(par, ch, bk[(pi + 3 * ci) % 3], sk[(2 * pi + ci) % len(sk)], 3)
    for si, s in enumerate(P.SPECIALS + P.G_SPECIALS):  # broadcast / expanded parameters, witnesses of pinned defects
        add("special", None, "(2,)", "sq3", 1, special=s)
        add("special", None, "(2,)", "sq2", 1, special=s)
        out[-1]["uv"] = "expand1"
        if not quick:
            add("special", None, "(2,)", "sq2", 1, special=s)
    return out


def gen_expr_a(rng, cell):
    m, n = SIZES_A[cell["size"]]
    if cell["special"]:
        return P.special_expr(rng, cell["special"], False, m)
    e = ob.gen(rng, cell["root"], batch=list(BATCH_A[cell["batch"]]), m=m, n=n, depth=cell["depth"], child=cell["child"])
    return sanitize_chol(e, "Chol" in (cell["root"], cell["child"]), "Identity" in (cell["root"], cell["child"]))


def sanitize_chol(e, chol_cell, id_cell=True):
    """CholLinearOperator(upper=True) differentiates the wrong matrix on the pinned tree (known finding): it is exercised
    in the dedicated Chol cells only and replaced by the equal lower-factor instance elsewhere (so that it cannot mask
    other failures of the composite around it)."""
    if chol_cell and id_cell:
        return e

    def walk(x):
        if x["cls"] == "Identity" and not id_cell:       # same matrix, without the pinned tree's spurious gradient slot
            b = list(x.get("batch", []))
            return {"cls": "ConstantDiag", "c": ob.T(b + [1], [1] * int(math.prod(b))), "n": x["n"]}
        if x["cls"] == "Chol" and x.get("upper") and not x["t"].get("expand") and not chol_cell:
            t = ob.tt(x["t"]).mT.contiguous()
            return {"cls": "Chol", "t": ob.from_torch(t), "upper": False}
        y = dict(x)
        if "ops" in y:
            y["ops"] = [walk(k) for k in y["ops"]]
        for k in L.CHILD_KEYS:
            if isinstance(y.get(k), dict) and "cls" in y[k]:
                y[k] = walk(y[k])
        return y
    return walk(e)


def rg_mask_for(kind, k, salt):
    if k == 0:
        return []
    if kind == "all":
        return [True] * k
    if kind == "none":
        return [False] * k
    if kind == "single":
        return [i == salt % k for i in range(k)]
    if kind == "compl":
        return [i != salt % k for i in range(k)] if k > 1 else [True]
    return [(i + salt) % 2 == 0 for i in range(k)]     # alt


def gen_uv(rng, shape, kind, d):
    batch, m, n = list(shape[:-2]), shape[-2], shape[-1]
    if kind == "bigger":
        ub = vb = [3] + batch
    elif kind == "expand1":                            # size-1 batch dimensions of the operator are broadcast, plus one more
        ub = vb = [2] + [2 if b == 1 else b for b in batch]
    elif kind == "v_nobatch":
        ub, vb = batch, []
    else:
        ub = vb = batch
    return ob.rand_t(rng, list(ub) + [m, d], -2, 2), ob.rand_t(rng, list(vb) + [n, d], -2, 2)


def has_cls(e, name, pred=None):
    return any(x["cls"] == name and (pred is None or pred(x)) for x in L.walk(e))


DEFAULT_PATH = {"Kron", "KronTriangular", "KronDiag", "Cat", "Root", "LowRankRoot", "Chol", "Triangular", "Kernel",
                "UserMinimal", "BatchRepeat"}          # BatchRepeat: only when it is not square


def interp_flags(e):
    """(some Interpolated node has a non-square base, some Interpolated node sits below a default-path class)"""
    rect, below = False, False

    def rec(x, under):
        nonlocal rect, below
        if x["cls"] == "Interpolated":
            bs = ob.shape_of(x["base"])
            rect = rect or bs[-1] != bs[-2]
            below = below or under
        u = under or (x["cls"] in DEFAULT_PATH and
                      (x["cls"] != "BatchRepeat" or ob.shape_of(x)[-1] != ob.shape_of(x)[-2]))
        for _, _, ch in L.children(x):
            rec(ch, u)
    rec(e, False)
    return rect, below


def toeplitz_inner1(e):
    """some ToeplitzLinearOperator column has a batch dimension of size 1 (other than the leading one)"""
    for x in L.walk(e):
        if x["cls"] == "Toeplitz":
            sh = list(x["col"].get("expand") or x["col"]["shape"])[:-1]
            if any(d == 1 for d in sh[1:]):
                return True
    return False


def key_a(e, cell, fk, text, rgkind):
    rect, below = interp_flags(e)
    return {"layer": "bilinear", "fail": fk, "root": e["cls"], "tree": ob.describe(e), "uv": cell["uv"],
            "batched": len(ob.shape_of(e)) > 2, "rg": rgkind, "classes": ",".join(L.classes_of(e)),
            "has_identity": has_cls(e, "Identity"), "has_chol_upper": has_cls(e, "Chol", lambda x: x.get("upper")),
            "interp_rect_base": rect, "interp_below_default_path": below, "toeplitz_size1_batch_dim": toeplitz_inner1(e),
            "exc": (text.split(":")[0] if fk == "raises" else None),
            # torch.autograd.grad inside the default path found no differentiable path to any requested tensor
            "no_grad_path": bool(fk == "raises" and "does not require grad and does not have a grad_fn" in text)}


def observe_one(e, rg_mask, Us, Vs):
    """build the real operator on leaves with the given requires_grad mask, call _bilinear_derivative.
    -> dict(rep, obs (tuple | Exception), tree (bound) | None, why)"""
    Lv = L.Leaves(e, rg_mask)
    if Lv.build_err is not None:
        return {"skip": "build raises: " + Lv.build_err[0]}
    op = Lv.op
    rep = list(op.representation())
    try:
        tree = bind(e, rep)
    except Unbindable as ex:
        return {"skip": "unbindable: %s" % ex}
    if callable(Us):                                   # U, V are generated for the REAL operator's shape
        Us, Vs = Us(list(op.shape))
    U, V = ob.tt(Us), ob.tt(Vs)
    try:
        with torch.no_grad():
            obs = tuple(op._bilinear_derivative(U, V))
    except Exception as ex:  # noqa
        obs = ex
        try:                                           # is it the operator's own multiplication that raises (property C01)?
            with torch.no_grad():
                op._matmul(V)
        except Exception as ex2:  # noqa
            return {"skip": "forward _matmul raises (C01): %s" % type(ex2).__name__}
    return {"rep": rep, "obs": obs, "tree": tree, "U": U, "V": V, "op": op, "Us": Us, "Vs": Vs}


stats_downgraded = [0]


def default_cost(t, rep, U):
    """rough number of ring operations of the model's default path (unit-step coefficient per leaf entry)"""
    worst = 0
    for x in tree_nodes(t):
        if x["cls"] in ("Kron", "KronTriangular", "KronDiag", "Triangular", "UserMinimal") or x["cls"] == "BatchRepeat":
            nl = sum(int(rep[v["k"]].numel()) for y in tree_nodes(x) for v in y.values() if isinstance(v, dict) and "k" in v
                     and rep[v["k"]].is_floating_point())
            worst = max(worst, nl)
    return worst * int(U.numel()) * int(U.shape[-2])


def make_cases_a(ctx, rng, cell_list):
    cases, skipped = [], {}
    stats_downgraded[0] = 0
    for ci, cell in enumerate(cell_list):
        try:
            e = L.reshare(gen_expr_a(rng, cell))
            shape = ob.shape_of(e)
            if int(math.prod(shape)) > (320 if ctx.quick else 1000) or min(shape[-2:]) == 0:
                raise Unbindable("too large")
            if not L.valid_shapes(e):
                raise Unbindable("child shapes do not match")
            k = L.count_leaves(e)
            mask = rg_mask_for(cell["rg"], k, ci)
            r = observe_one(e, mask, lambda shp: gen_uv(rng, shp, cell["uv"], cell["d"]), None)
        except Exception as ex:  # noqa   (generator artefacts: combinations the constructors refuse)
            r = {"skip": "gen raises: %s" % type(ex).__name__}
        if "skip" in r:
            kk = r["skip"][:48]
            skipped[kk] = skipped.get(kk, 0) + 1
            continue
        r.update(e=e, cell=cell, mask=mask, idx=ci)
        try:
            r["orc"] = oracle_grads(r["tree"], r["rep"], r["U"], r["V"])
            r["verdict"] = judge(r["rep"], r["obs"], r["orc"], r["tree"])
        except Exception as ex:  # noqa
            r["orc"], r["verdict"] = None, ("oracle-raises", None, L.exc_str(ex))
        try:
            r["mode"] = cmp_mode(r["tree"])
            if r["mode"] == 2 and default_cost(r["tree"], r["rep"], r["U"]) > (25000 if ctx.quick else 150000):
                r["mode"] = 1       # the model's default path (one bilinear form per leaf entry) would take too long in Coq
                stats_downgraded[0] += 1
            r["full"] = r["mode"] == 2
            r["lit"] = "(mkCase %s %s %s %s %s)" % (model_lit(r["tree"], r["rep"]), tz_lit(r["U"]), tz_lit(r["V"]),
                                                   "%d" % r["mode"],
                                                   obs_lit(None if isinstance(r["obs"], Exception) else r["obs"]))
        except Unbindable as ex:
            kk = "inexpressible: %s" % ex
            skipped[kk] = skipped.get(kk, 0) + 1
            r["lit"] = None
        cases.append(r)
    return cases, skipped


def replay_a(r):
    rp = {"layer": "bilinear", "expr": r["e"], "rg_mask": r["mask"], "U": r["Us"], "V": r["Vs"], "cell": r["cell"],
          "observed": ("raises: " + L.exc_str(r["obs"])) if isinstance(r["obs"], Exception) else
          [None if g is None else {"shape": list(g.shape), "data": [round(float(v), 6) for v in g.reshape(-1).tolist()[:64]]}
           for g in r["obs"]],
          "expected": None if r.get("orc") is None else
          [None if g is None else {"shape": list(g.shape), "data": [round(float(v), 6) for v in g.reshape(-1).tolist()[:64]]}
           for g in r["orc"]],
          "what": "op._bilinear_derivative(U, V) vs torch.autograd.grad of (U * (D @ V)).sum() on the dense assembly D of "
                  "op.representation()"}
    return rp


def rgkind_of(mask):
    k, s = len(mask), sum(bool(x) for x in mask)
    return "none" if s == 0 else ("all" if s == k else ("single" if s == 1 else ("compl" if s == k - 1 else "mixed")))


def report_a(ctx, cases, stats):
    seen = set()
    for r in cases:
        v = r.get("verdict")
        if not v:
            continue
        stats["predicate_failures_a"] += 1
        if v[0] == "oracle-raises":
            # the plain-torch assembly itself cannot be evaluated (generator artefact such as a Cat of pieces whose other
            # dimensions differ): nothing to compare against; counted, and still compared with the model in Coq
            stats["oracle_raises"] = stats.get("oracle_raises", 0) + 1
            stats["predicate_failures_a"] -= 1
            r["verdict"] = None
            continue
        key = key_a(r["e"], r["cell"], v[0], v[2], rgkind_of(r["mask"]))
        sig = json.dumps(key, sort_keys=True)
        if sig in seen:
            continue
        seen.add(sig)
        ctx.violation(dict(replay_a(r), kind="property-fails-on-implementation", detail=v[2], slot=v[1]), key=key)


def shard_src(cases):
    return (HDR + "Definition cases : list case := [\n %s].\n" % ";\n ".join(c["lit"] for c in cases)
            + "Eval vm_compute in (bad_cases cases 0).\n"
            + "Eval vm_compute in (fixed_cases cases 0).\n"
            + "Eval vm_compute in (count_lin cases).\n")


CODES = {1: "length", 2: "none-pattern", 3: "shape", 4: "value", 5: "raises"}


def run_shards_a(ctx, cases, stats):
    lits = [c for c in cases if c.get("lit")]
    shards = [("c07_%d" % (i // SH), shard_src(lits[i:i + SH])) for i in range(0, len(lits), SH)]
    res = {}
    for i in range(0, len(shards), 3):                 # at most 3 shard compilers at a time
        res.update(common.run_shards(ctx, shards[i:i + 3], timeout=600))
    reported = set()
    for si, (name, _) in enumerate(shards):
        rc, out = res[name]
        lists = re.findall(r"=\s*\[(.*?)\]\s*:\s*list nat", out, re.S) if rc == 0 else []
        if rc != 0 or len(lists) < 2:
            ctx.violation({"kind": "shard-failed", "shard": name, "out": out[-800:]}, no_input=True)
            continue
        parse = lambda s: [int(re.sub(r"%\w+", "", x).strip()) for x in s.split(";") if x.strip()]
        bad, fixed = parse(lists[0]), parse(lists[1])
        mc = re.findall(r"=\s*(\d+)(?:%nat)?\s*:\s*nat", out)
        stats["inside_theorem_fragment"] += int(mc[-1]) if mc else 0
        stats["agree_only_with_a_repair_flag"] += len(fixed)
        for code in bad:
            r = lits[si * SH + code // 10]
            stats["model_mismatches"] += 1
            r["model_code"] = CODES.get(code % 10, str(code % 10))
            if r.get("verdict"):
                continue        # the implementation violates the property there: already reported by the predicate
            sig = (r["e"]["cls"], ob.describe(r["e"]), r["model_code"])
            if sig in reported:
                continue
            reported.add(sig)
            ctx.violation(dict(replay_a(r), kind="model-implementation-disagreement", code=r["model_code"],
                               note="the implementation agrees with the dense oracle; coq/C07/Model.v does not"),
                          no_input=True)
    return len(shards)


# ------------------------------------------------------------------------------------------ part (a2): Matmul.backward

RHS_KINDS = ["full", "nobatch", "lead1", "inner1", "mid1", "bigger", "full", "inner1"]


def rhs_batch(kind, batch):
    batch = list(batch)
    if kind == "nobatch":
        return []
    if kind == "lead1":
        return [1] + batch[1:] if batch else []
    if kind == "inner1":                               # same rank, interior singleton
        return batch[:-1] + [1] if len(batch) >= 2 else ([1] if batch else [])
    if kind == "mid1":                                 # fewer dimensions and a singleton
        return batch[1:-1] + [1] if len(batch) >= 2 else []
    if kind == "bigger":
        return [2] + batch
    return batch


def make_cases_b(ctx, rng, cases):
    """for the operators of part (a) whose dense meaning the model has: run the REAL Matmul function forward and
    backward (torch.autograd.grad with an integer grad_output G) and record the gradient delivered to rhs"""
    from linear_operator.functions._matmul import Matmul
    import linear_operator
    out, nskip = [], 0
    for ci, r in enumerate(cases):
        if not r.get("lit") or r.get("mode", 0) < 1 or isinstance(r["obs"], Exception):
            continue
        if ctx.quick and ci % 2:
            continue
        op, tree, rep = r["op"], r["tree"], r["rep"]
        shape = list(op.shape)
        batch, m, n = shape[:-2], shape[-2], shape[-1]
        kind = RHS_KINDS[ci % len(RHS_KINDS)]
        rb = rhs_batch(kind, batch)
        kcols = 1 + ci % 2
        rs = ob.rand_t(rng, rb + [n, kcols], -2, 2)
        try:
            ob_shape = list(torch.broadcast_shapes(tuple(batch), tuple(rb)))
        except RuntimeError:
            nskip += 1
            continue
        Gs = ob.rand_t(rng, ob_shape + [m, kcols], -2, 2)
        G = ob.tt(Gs)
        res = {}
        for me in (False, True):
            rhs = ob.tt(rs).requires_grad_(True)
            try:
                with linear_operator.settings.memory_efficient(me):
                    o = Matmul.apply(op.representation_tree(), rhs, *op.representation())
                    if list(o.shape) != list(G.shape):
                        raise RuntimeError("output shape %s" % (tuple(o.shape),))
                    res[me] = torch.autograd.grad(o, rhs, grad_outputs=G, allow_unused=True)[0]
            except Exception as ex:  # noqa   (forward refuses the broadcast: not a gradient matter)
                res[me] = ex
        if isinstance(res[False], Exception) or isinstance(res[True], Exception) or res[False] is None:
            nskip += 1
            continue
        # oracle: D^T G reduced to the shape of rhs, by autograd on the dense assembly of the representation
        rhs2 = ob.tt(rs).requires_grad_(True)
        Dm = dense_t(tree, [x.detach() for x in rep])
        want = torch.autograd.grad(Dm @ rhs2, rhs2, grad_outputs=G)[0]
        b = {"case": r, "kind": kind, "rs": rs, "Gs": Gs, "got": res[False].detach(), "want": want,
             "memeff_equal": bool(torch.equal(res[False], res[True]))}
        b["ok"] = b["memeff_equal"] and tuple(b["got"].shape) == tuple(want.shape) and \
            float((b["got"] - want).abs().max() if want.numel() else 0.0) <= 1e-6 * max(1.0, float(want.abs().max()) if want.numel() else 1.0)
        d = ints_of(b["got"])
        b["lit"] = None if d is None else "(mkBCase %s %s %s (%s, [%s]%%Z))" % (
            model_lit(tree, rep), tz_lit(ob.tt(rs)), tz_lit(G), common.natlist(list(b["got"].shape)[::-1]),
            "; ".join(zl(a) for a in d))
        out.append(b)
    return out, nskip


def replay_b2(b):
    r = b["case"]
    return {"layer": "matmul-backward", "expr": r["e"], "rg_mask": r["mask"], "rhs": b["rs"], "G": b["Gs"], "rhs_kind": b["kind"],
            "observed": {"shape": list(b["got"].shape), "data": [round(float(v), 6) for v in b["got"].reshape(-1).tolist()[:64]]},
            "expected": {"shape": list(b["want"].shape), "data": [round(float(v), 6) for v in b["want"].reshape(-1).tolist()[:64]]},
            "memory_efficient_on_off_equal": b["memeff_equal"],
            "what": "gradient that torch.autograd.grad delivers to rhs through linear_operator.functions._matmul.Matmul "
                    "(grad_output G) vs autograd on the dense assembly"}


def run_part_b2(ctx, rng, cases, stats, ok):
    bc, nskip = make_cases_b(ctx, rng, cases)
    stats["matmul_backward_cases"] = len(bc)
    stats["matmul_backward_skipped"] = nskip
    seen = set()
    for b in bc:
        if b["ok"]:
            continue
        e = b["case"]["e"]
        key = {"layer": "matmul-backward", "fail": "value" if b["memeff_equal"] else "memeff", "rhs_kind": b["kind"],
               "root": e["cls"], "has_chol_upper": has_cls(e, "Chol", lambda x: x.get("upper")),
               "batch_dims": len(b["case"]["op"].shape) - 2}
        sig = json.dumps(key, sort_keys=True)
        if sig not in seen:
            seen.add(sig)
            ctx.violation(dict(replay_b2(b), kind="property-fails-on-implementation"), key=key)
    if not ok:
        return
    lits = [b for b in bc if b["lit"]]
    SHB = 60
    shards = [("c07_mb_%d" % (i // SHB),
               HDR + "Definition cases : list bcase := [\n %s].\nEval vm_compute in (bad_bcases cases 0).\n"
               % ";\n ".join(b["lit"] for b in lits[i:i + SHB])) for i in range(0, len(lits), SHB)]
    res = {}
    for i in range(0, len(shards), 3):
        res.update(common.run_shards(ctx, shards[i:i + 3], timeout=600))
    reported = set()
    for si, (name, _) in enumerate(shards):
        rc, out = res[name]
        bad = common.parse_coq_list_of_nat(out) if rc == 0 else None
        if bad is None:
            ctx.violation({"kind": "shard-failed", "shard": name, "out": out[-800:]}, no_input=True)
            continue
        for code in bad:
            b = lits[si * SHB + code // 10]
            stats["matmul_backward_model_mismatches"] = stats.get("matmul_backward_model_mismatches", 0) + 1
            if not b["ok"]:
                continue
            sig = (b["case"]["e"]["cls"], b["kind"])
            if sig not in reported:
                reported.add(sig)
                ctx.violation(dict(replay_b2(b), kind="model-implementation-disagreement", code=CODES.get(code % 10),
                                   note="the implementation agrees with the dense oracle; coq/C07/Model.v (matmul_backward) does not"),
                              no_input=True)


# ------------------------------------------------------------------------------------------ part (b)

def report_b(ctx, summ, stats):
    seen = set()
    for res in summ["results"]:
        if res["status"] != "fail":
            continue
        key = res.get("key") or {}
        if key.get("fail") == "raises" and key.get("phase") in ("forward", "build"):
            stats["forward_raises_outside_C07"] += 1   # no gradient is ever requested: properties C01 / C03 / C05 / C06
            continue
        if key.get("fail") == "shape" and (res.get("offender") or {}).get("owner") == "output":
            stats["forward_value_differs_outside_C07"] += 1      # the entry point's result has another shape: forward defect
            continue
        if key.get("fail") in ("value", "none") and res.get("forward_agrees") is False:
            # the scalar itself differs from the dense computation: a forward defect (properties C01 / C03 / C04 / C05 / C06),
            # its gradient is the gradient of another function.  (Until d5282d4 / ff21076 CholLinearOperator(upper=True) was
            # kept here on purpose; what still differs on HEAD for it is indexing, C03-chol-upper-orientation.)
            stats["forward_value_differs_outside_C07"] += 1
            continue
        try:
            ex_ = (res.get("replay") or {}).get("expr")
            rect, below = interp_flags(ex_)
            key = dict(key, interp_rect_base=rect, interp_below_default_path=below,
                       toeplitz_size1_batch_dim=toeplitz_inner1(ex_),
                       lanczos_diagonalization_of_non_dense=bool(
                           (key.get("fn") == "diag_lanczos" or (key.get("fn") == "diag_default" and key.get("chol0")))
                           and ex_ is not None and ex_.get("cls") != "Dense"))
        except Exception:  # noqa
            pass
        sig = json.dumps({k: key.get(k) for k in ("fail", "fn", "fn_kind", "tree", "leaf_cls", "rg", "chol0", "batch", "exc",
                                                  "where", "phase")}, sort_keys=True)
        if sig in seen:
            continue
        seen.add(sig)
        rp = dict(res.get("replay") or {})
        rp.update(layer="autograd", kind="property-fails-on-implementation", fail=res.get("fail"), error=res.get("error"),
                  offender=res.get("offender"), detail=res.get("detail"), shrunk_from=res.get("shrunk_from"))
        ctx.violation(rp, key=key, no_input=(key.get("fail") == "harness-error"))


# ------------------------------------------------------------------------------------------ always-run corpus

def replay_known(ctx, stats):
    """the witness of every listed (status known) finding of C07 is replayed on every run, both tiers, independent of the
    seed and of which cells the grid rotates to: still failing -> goes through the normal reporting (its structural key
    matches the entry: KNOWN-FINDING line; a different failure of the same case is a VIOLATION); repaired -> nothing"""
    n = {"replayed": 0, "still_failing": 0}
    for ent in common.load_known():
        if ent.get("property") != PROP or ent.get("status") != "known":
            continue
        rp = ent.get("replay") or {}
        try:
            if rp.get("layer") == "autograd" and "expr" in rp:
                n["replayed"] += 1
                res = P.replay_case(rp)
                if res.get("status") == "fail":
                    n["still_failing"] += 1
                    res.setdefault("replay", rp)
                    report_b(ctx, {"results": [res]}, stats)
            elif rp.get("layer") == "bilinear" and "expr" in rp:
                n["replayed"] += 1
                r = observe_one(L.reshare(json.loads(json.dumps(rp["expr"]))), rp["rg_mask"], rp["U"], rp["V"])
                if "skip" in r:
                    continue
                r.update(e=rp["expr"], cell=rp.get("cell") or {"uv": "same"}, mask=rp["rg_mask"])
                r["orc"] = oracle_grads(r["tree"], r["rep"], r["U"], r["V"])
                r["verdict"] = judge(r["rep"], r["obs"], r["orc"], r["tree"])
                if r["verdict"]:
                    n["still_failing"] += 1
                    report_a(ctx, [r], stats)
        except Exception:  # noqa   (a witness that cannot be rebuilt on this tree is not a violation)
            stats["corpus_errors"] = stats.get("corpus_errors", 0) + 1
    stats["known_finding_witnesses_replayed"] = n["replayed"]
    stats["known_finding_witnesses_still_failing"] = n["still_failing"]


# ------------------------------------------------------------------------------------------ run / replay

def run(ctx):
    t0 = time.time()
    torch.set_num_threads(1)
    import warnings
    warnings.filterwarnings("ignore")
    L.lo()
    regenerate()
    rng = random.Random(ctx.seed)
    stats = {"predicate_failures_a": 0, "model_mismatches": 0, "inside_theorem_fragment": 0,
             "agree_only_with_a_repair_flag": 0, "forward_raises_outside_C07": 0, "forward_value_differs_outside_C07": 0}

    def on_fail(info):
        before = ctx.violations
        r2 = random.Random(ctx.seed + 1)
        cs, _ = make_cases_a(ctx, r2, cells_a(False))
        report_a(ctx, cs, stats)
        summ = P.run_grid(ctx.seed, False, workers=3, budget_s=600)
        report_b(ctx, summ, stats)
        return ctx.violations > before
    ok = common.proof_stage(ctx, on_fail)

    replay_known(ctx, stats)
    cell_list = cells_a(ctx.quick)
    cases, skipped = make_cases_a(ctx, rng, cell_list)
    report_a(ctx, cases, stats)
    t_a = time.time() - t0
    nshards = run_shards_a(ctx, cases, stats) if ok else 0
    run_part_b2(ctx, rng, cases, stats, ok)
    t_s = time.time() - t0 - t_a

    summ = P.run_grid(ctx.seed, ctx.quick, workers=3, budget_s=100 if ctx.quick else 1100)
    report_b(ctx, summ, stats)

    keys = set()
    hist = {}
    for r in cases:
        hist[r["e"]["cls"]] = hist.get(r["e"]["cls"], 0) + 1
        if len(list(L.walk(r["e"]))) >= 2 or r["cell"]["special"]:
            keys.add((ob.describe(r["e"]), r["cell"]["batch"], r["cell"]["uv"], rgkind_of(r["mask"]), r["cell"]["d"]))
    samples = [replay_a(r) for r in (cases[len(cases) // 3], cases[-1])] if cases else []
    samples += summ.get("samples", [])[:1]
    ctx.coverage.update({
        "trusted_base": common.COQ_TRUSTED + [
            "torch primitives modelled by their mathematical meaning in coq/C07/Model.v (matmul, elementwise ops with "
            "broadcasting, sum, expand, view/reshape as row-major index maps, index_select/gather, masked assignment, the sparse "
            "interpolation products, torch.autograd.grad of a function affine in a leaf = its coefficient, autograd's reduction "
            "of an expanded gradient)",
            "_matmul / _t_matmul / to_dense of sub-operators are modelled by the dense matrix they denote (that is property C01)",
            "sym_toeplitz_derivative_quadratic_form is modelled by its meaning (its FFT implementation is property C20)",
            "builders and literal writers harness/opbuild.py (build), harness/c07.py (bind, model_lit, obs_lit) and the comparator "
            "coq/C07/Check.v",
            "dense oracle harness/c07.py (dense_t, oracle_grads) and harness/opbuild.py (dense) with torch.autograd on plain "
            "tensors: used for triage and for the direct predicate only",
        ],
        "evaluations": len(cases) + stats.get("matmul_backward_cases", 0) + summ["n_comparisons"],
        "distinct_nontrivial": len(keys) + summ["distinct_keys"],
        "rule": "part (a): one evaluation = one call op._bilinear_derivative(U, V) on one generated expression, compared in Coq "
                "(exact, Z) with the model and in Python with autograd on the dense assembly; non-trivial = composite expression or "
                "broadcast/expanded parameter; distinct by (class tree, batch kind, U/V batch kind, requires_grad pattern, number of "
                "vectors).  part (a2): one evaluation = one forward+backward of the real Matmul function with an integer "
                "grad_output, rhs gradient compared in Coq with the model's matmul_backward and in Python with the dense oracle.  "
                "part (b): one evaluation = one comparison of torch.autograd.grad through an entry point on the operator "
                "and on the dense assembly; distinct by (class tree, entry point, argument kind, memory_efficient, max_cholesky_size, "
                "requires_grad pattern, batch shape)",
        "bilinear_cases": len(cases), "bilinear_cells": len(cell_list), "bilinear_skipped": skipped,
        "bilinear_in_coq": sum(1 for c in cases if c.get("lit")), "bilinear_value_exact": sum(1 for c in cases if c.get("full")),
        "bilinear_shards": nshards, "bilinear_class_histogram": hist,
        "bilinear_distinct": len(keys), "bilinear_values_not_compared_too_costly": stats_downgraded[0],
        "autograd_cells": summ["n_cells"], "autograd_comparisons": summ["n_comparisons"], "autograd_ok": summ["n_ok"],
        "autograd_failing": summ["n_fail"], "autograd_skipped": summ["n_skip"], "autograd_ungenerated": summ["ungenerated"],
        "autograd_ungenerated_reasons": summ["ungenerated_reasons"], "autograd_not_run": summ["not_run"],
        "autograd_by_fn": summ["by_fn"], "autograd_by_part": summ["by_part"], "autograd_distinct": summ["distinct_keys"],
        "autograd_max_rel_err_ok": summ["max_rel_err_ok"],
        "samples": samples, "wall_bilinear_python_s": round(t_a, 1), "wall_shards_s": round(t_s, 1),
        "wall_autograd_s": summ["wall_s"],
    })
    ctx.coverage.update(stats)
    ctx.assumptions = [
        "entries of the operators' tensors and of U, V are small integers, so float64 results of `_bilinear_derivative` are exact "
        "integers (FFT-based Toeplitz products up to 1e-6, rounded)",
        "derivatives of solve / inv_quad / logdet / root decompositions / pivoted Cholesky / sqrt_inv_matmul are NOT proved; they "
        "are compared numerically (float64, tolerances in harness/c07_predlib.py) with autograd on the dense assembly",
        "KeOpsLinearOperator is excluded (pykeops is not installed); Kernel operators only with polynomial covariance functions",
        "left_vecs / right_vecs are matrices with the same number of columns (every caller in linear_operator/functions "
        "unsqueezes vectors first)",
    ]


def replay(rp):
    torch.set_num_threads(1)
    import warnings
    warnings.filterwarnings("ignore")
    L.lo()
    if rp.get("layer") == "bilinear":
        r = observe_one(L.reshare(rp["expr"]), rp["rg_mask"], rp["U"], rp["V"])
        if "skip" in r:
            print("cannot rebuild the case:", r["skip"])
            return 0
        orc = oracle_grads(r["tree"], r["rep"], r["U"], r["V"])
        v = judge(r["rep"], r["obs"], orc, r["tree"])
        print("expression:", ob.describe(rp["expr"]), " requires_grad:", rp["rg_mask"])
        print("op._bilinear_derivative(U, V):", r["obs"] if isinstance(r["obs"], Exception) else
              [None if g is None else g.tolist() for g in r["obs"]])
        print("autograd on the dense assembly:", [None if g is None else g.tolist() for g in orc])
        print("property failure:" if v else "property holds on this case", v or "")
        return 1 if v else 0
    if rp.get("layer") == "matmul-backward":
        from linear_operator.functions._matmul import Matmul
        Lv = L.Leaves(L.reshare(rp["expr"]), rp["rg_mask"])
        op = Lv.op
        rhs = ob.tt(rp["rhs"]).requires_grad_(True)
        G = ob.tt(rp["G"])
        o = Matmul.apply(op.representation_tree(), rhs, *op.representation())
        got = torch.autograd.grad(o, rhs, grad_outputs=G)[0]
        rhs2 = ob.tt(rp["rhs"]).requires_grad_(True)
        want = torch.autograd.grad(Lv.dense().detach() @ rhs2, rhs2, grad_outputs=G)[0]
        print("expression:", ob.describe(rp["expr"]), " rhs shape:", rp["rhs"]["shape"], " grad_output shape:", rp["G"]["shape"])
        print("rhs gradient through Matmul.backward:", got.tolist())
        print("rhs gradient through the dense matrix:", want.tolist())
        bad = tuple(got.shape) != tuple(want.shape) or float((got - want).abs().max()) > 1e-6
        print("property failure" if bad else "property holds on this case")
        return 1 if bad else 0
    if rp.get("layer") == "autograd" and "expr" in rp:
        res = P.replay_case(rp)
        print("expression:", ob.describe(rp["expr"]), " entry point:", rp["fn"], rp["fn_args"].get("kind"),
              " memory_efficient:", rp["me"], " max_cholesky_size(0):", rp["chol0"])
        print("result:", json.dumps({k: res.get(k) for k in ("status", "fail", "error", "offender", "detail", "max_err", "tol")},
                                    default=str)[:1500])
        print("---- stand-alone reproduction ----")
        print(P.plain_repro(rp))
        return 1 if res["status"] == "fail" else 0
    print(json.dumps(rp, indent=1, default=str)[:3000])
    return 1
