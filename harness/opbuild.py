"""Operator expressions (OpExpr): JSON-able descriptions of linear_operator objects, with

  build(e, dtype)   -> the real LinearOperator, through the public constructors
  dense(e, dtype)   -> the dense (batched) torch tensor the constructor arguments DENOTE, assembled
                       with plain torch from the leaves (never through the operator's own code):
                       this is the independent dense oracle used for triage
  gen(rng, cls, ...) -> random expressions with small-integer data (exact in float32/float64)

An expression is a dict {"cls": <name>, ...}; tensors are {"shape": [...], "data": [ints]} (row-major).
"""
import itertools
import math

import torch


# ----------------------------------------------------------------------------------------- tensors

def T(shape, data):
    return {"shape": list(shape), "data": [int(x) for x in data]}


def rand_t(rng, shape, lo=-3, hi=3, nonzero=False):
    n = int(math.prod(shape))
    vals = []
    for _ in range(n):
        v = rng.randint(lo, hi)
        if nonzero and v == 0:
            v = 1
        vals.append(v)
    return T(shape, vals)


def tt(t, dtype=torch.float64):
    """tensor spec -> torch tensor"""
    if t.get("bool"):
        return torch.tensor(t["data"], dtype=torch.bool).reshape(t["shape"])
    if t.get("long"):
        return torch.tensor(t["data"], dtype=torch.long).reshape(t["shape"])
    return torch.tensor(t["data"], dtype=dtype).reshape(t["shape"])


def from_torch(x):
    if x.dtype == torch.bool:
        return {"shape": list(x.shape), "data": [int(v) for v in x.reshape(-1).tolist()], "bool": True}
    if x.dtype == torch.long:
        return {"shape": list(x.shape), "data": [int(v) for v in x.reshape(-1).tolist()], "long": True}
    return T(x.shape, [int(round(v)) for v in x.reshape(-1).tolist()])


# ----------------------------------------------------------------------------------------- user subclass

_USER = {}


def user_minimal_class():
    """A user subclass supplying only _matmul, _size, _transpose_nonbatch (exercises all defaults)."""
    if "cls" not in _USER:
        from linear_operator.operators import LinearOperator

        class UserMinimal(LinearOperator):
            def __init__(self, mat):
                super().__init__(mat)
                self.mat = mat

            def _matmul(self, rhs):
                return self.mat.matmul(rhs)

            def _size(self):
                return self.mat.shape

            def _transpose_nonbatch(self):
                return UserMinimal(self.mat.mT)
        _USER["cls"] = UserMinimal
    return _USER["cls"]


def lin_kernel(x1, x2, **params):
    """polynomial (linear / quadratic) covariance function: values stay integers"""
    k = x1 @ x2.mT
    if params.get("square"):
        k = k * k
    if "c" in params and params["c"] is not None:
        c = params["c"]
        k = k * c
    return k


# ----------------------------------------------------------------------------------------- build

def build(e, dtype=torch.float64):
    import linear_operator.operators as O
    c = e["cls"]
    b = lambda x: build(x, dtype)
    if c == "Dense":
        return O.DenseLinearOperator(tt(e["t"], dtype))
    if c == "Diag":
        return O.DiagLinearOperator(tt(e["d"], dtype))
    if c == "ConstantDiag":
        return O.ConstantDiagLinearOperator(tt(e["c"], dtype), diag_shape=e["n"])
    if c == "Identity":
        return O.IdentityLinearOperator(e["n"], batch_shape=torch.Size(e.get("batch", [])), dtype=dtype)
    if c == "Zero":
        return O.ZeroLinearOperator(*e["shape"], dtype=dtype)
    if c == "Toeplitz":
        return O.ToeplitzLinearOperator(tt(e["col"], dtype))
    if c == "Triangular":
        return O.TriangularLinearOperator(tt(e["t"], dtype), upper=e["upper"])
    if c == "Chol":
        return O.CholLinearOperator(O.TriangularLinearOperator(tt(e["t"], dtype), upper=e["upper"]), upper=e["upper"])
    if c == "Root":
        return O.RootLinearOperator(b(e["root"]) if isinstance(e["root"], dict) and "cls" in e["root"] else tt(e["root"], dtype))
    if c == "LowRankRoot":
        return O.LowRankRootLinearOperator(tt(e["root"], dtype))
    if c == "Kron":
        return O.KroneckerProductLinearOperator(*[b(x) for x in e["ops"]])
    if c == "KronTriangular":
        return O.KroneckerProductTriangularLinearOperator(*[b(x) for x in e["ops"]], upper=e["upper"])
    if c == "KronDiag":
        return O.KroneckerProductDiagLinearOperator(*[b(x) for x in e["ops"]])
    if c == "KronAddedDiag":
        return O.KroneckerProductAddedDiagLinearOperator(b(e["kron"]), b(e["diag"]))
    if c == "SumKron":
        return O.SumKroneckerLinearOperator(b(e["a"]), b(e["b"]))
    if c == "AddedDiag":
        return O.AddedDiagLinearOperator(b(e["base"]), b(e["diag"]))
    if c == "LowRankRootAddedDiag":
        return O.LowRankRootAddedDiagLinearOperator(b(e["root"]), b(e["diag"]))
    if c == "Sum":
        return O.SumLinearOperator(*[b(x) for x in e["ops"]])
    if c == "PsdSum":
        return O.PsdSumLinearOperator(*[b(x) for x in e["ops"]])
    if c == "Matmul":
        return O.MatmulLinearOperator(b(e["l"]), b(e["r"]))
    if c == "Mul":
        return O.MulLinearOperator(b(e["l"]), b(e["r"]))
    if c == "ConstantMul":
        return O.ConstantMulLinearOperator(b(e["base"]), tt(e["c"], dtype))
    if c == "BlockDiag":
        return O.BlockDiagLinearOperator(b(e["base"]), block_dim=e.get("block_dim", -3))
    if c == "BlockInterleaved":
        return O.BlockInterleavedLinearOperator(b(e["base"]), block_dim=e.get("block_dim", -3))
    if c == "SumBatch":
        return O.SumBatchLinearOperator(b(e["base"]), block_dim=e.get("block_dim", -3))
    if c == "BatchRepeat":
        return O.BatchRepeatLinearOperator(b(e["base"]), batch_repeat=torch.Size(e["rep"]))
    if c == "Cat":
        return O.CatLinearOperator(*[b(x) for x in e["ops"]], dim=e["dim"])
    if c == "Interpolated":
        return O.InterpolatedLinearOperator(b(e["base"]), tt(e["li"]), tt(e["lv"], dtype), tt(e["ri"]), tt(e["rv"], dtype))
    if c == "Masked":
        return O.MaskedLinearOperator(b(e["base"]), tt(e["row_mask"]), tt(e["col_mask"]))
    if c == "Permutation":
        return O.PermutationLinearOperator(tt(e["perm"]))
    if c == "TransposePermutation":
        return O.TransposePermutationLinearOperator(e["m"])
    if c == "Kernel":
        kw = {}
        if e.get("c") is not None:
            kw["c"] = tt(e["c"], dtype)
        if e.get("square"):
            kw["square"] = True
        return O.KernelLinearOperator(tt(e["x1"], dtype), tt(e["x2"], dtype), covar_func=lin_kernel, **kw)
    if c == "UserMinimal":
        return user_minimal_class()(tt(e["t"], dtype))
    raise ValueError("unknown class %s" % c)


# ----------------------------------------------------------------------------------------- dense oracle

def bkron(a, b):
    """batched Kronecker product of (..., m, n) and (..., p, q) (batches broadcast)"""
    bs = torch.broadcast_shapes(a.shape[:-2], b.shape[:-2])
    a = a.expand(*bs, *a.shape[-2:])
    b = b.expand(*bs, *b.shape[-2:])
    r = torch.einsum("...ij,...kl->...ikjl", a, b)
    return r.reshape(*bs, a.shape[-2] * b.shape[-2], a.shape[-1] * b.shape[-1])


def interp_matrix(idx, val, ncols):
    """W (..., n, ncols) with W[.., i, idx[.., i, k]] += val[.., i, k]  (duplicates add)"""
    bs = idx.shape[:-2]
    n, k = idx.shape[-2:]
    W = torch.zeros(*bs, n, ncols, dtype=val.dtype)
    for bi in itertools.product(*[range(s) for s in bs]):
        for i in range(n):
            for j in range(k):
                W[bi + (i, int(idx[bi + (i, j)]))] += val[bi + (i, j)]
    return W


def dense(e, dtype=torch.float64):
    c = e["cls"]
    d = lambda x: dense(x, dtype)
    if c in ("Dense", "UserMinimal"):
        return tt(e["t"], dtype)
    if c == "Diag":
        return torch.diag_embed(tt(e["d"], dtype))
    if c == "ConstantDiag":
        cv = tt(e["c"], dtype)
        return torch.diag_embed(cv.expand(*cv.shape[:-1], e["n"]))
    if c == "Identity":
        return torch.eye(e["n"], dtype=dtype).expand(*e.get("batch", []), e["n"], e["n"]).clone()
    if c == "Zero":
        return torch.zeros(*e["shape"], dtype=dtype)
    if c == "Toeplitz":
        col = tt(e["col"], dtype)
        n = col.shape[-1]
        idx = (torch.arange(n)[:, None] - torch.arange(n)[None, :]).abs()
        return col[..., idx]
    if c == "Triangular":
        return tt(e["t"], dtype)
    if c == "Chol":
        t = tt(e["t"], dtype)
        return t.mT @ t if e["upper"] else t @ t.mT
    if c in ("Root", "LowRankRoot"):
        r = d(e["root"]) if isinstance(e["root"], dict) and "cls" in e["root"] else tt(e["root"], dtype)
        return r @ r.mT
    if c in ("Kron", "KronTriangular", "KronDiag"):
        r = None
        for x in e["ops"]:
            r = d(x) if r is None else bkron(r, d(x))
        return r
    if c == "KronAddedDiag":
        return d(e["kron"]) + d(e["diag"])
    if c == "SumKron":
        return d(e["a"]) + d(e["b"])
    if c == "AddedDiag":
        return d(e["base"]) + d(e["diag"])
    if c == "LowRankRootAddedDiag":
        return d(e["root"]) + d(e["diag"])
    if c in ("Sum", "PsdSum"):
        r = None
        for x in e["ops"]:
            r = d(x) if r is None else r + d(x)
        return r
    if c == "Matmul":
        return d(e["l"]) @ d(e["r"])
    if c == "Mul":
        return d(e["l"]) * d(e["r"])
    if c == "ConstantMul":
        cv = tt(e["c"], dtype)
        return d(e["base"]) * cv[..., None, None]
    if c in ("BlockDiag", "BlockInterleaved", "SumBatch"):
        base = d(e["base"])
        bd = e.get("block_dim", -3)
        bd = bd if bd < 0 else bd - base.dim()
        base = torch.movedim(base, bd, -3)          # (..., k, m, n)
        k, m, n = base.shape[-3:]
        if c == "SumBatch":
            return base.sum(-3)
        out = torch.zeros(*base.shape[:-3], k * m, k * n, dtype=dtype)
        for i in range(k):
            if c == "BlockDiag":
                out[..., i * m:(i + 1) * m, i * n:(i + 1) * n] = base[..., i, :, :]
            else:
                out[..., i::k, i::k] = base[..., i, :, :]
        return out
    if c == "BatchRepeat":
        base = d(e["base"])
        rep = list(e["rep"])
        pad = len(rep) + 2 - base.dim()
        if pad > 0:
            base = base.reshape(*([1] * pad), *base.shape)
        return base.repeat(*([1] * (base.dim() - 2 - len(rep))), *rep, 1, 1)
    if c == "Cat":
        parts = [d(x) for x in e["ops"]]
        return torch.cat(parts, dim=e["dim"])
    if c == "Interpolated":
        base = d(e["base"])
        Wl = interp_matrix(tt(e["li"]), tt(e["lv"], dtype), base.shape[-2])
        Wr = interp_matrix(tt(e["ri"]), tt(e["rv"], dtype), base.shape[-1])
        return Wl @ base @ Wr.mT
    if c == "Masked":
        base = d(e["base"])
        return base[..., tt(e["row_mask"]), :][..., :, tt(e["col_mask"])]
    if c == "Permutation":
        p = tt(e["perm"])
        n = p.shape[-1]
        return torch.eye(n, dtype=dtype)[p]          # row i = e_{perm[i]}  ((P x)[i] = x[perm[i]])
    if c == "TransposePermutation":
        m = e["m"]
        n = m * (m + 1) // 2 if e.get("tri") else m * m
        P = torch.zeros(m * m, m * m, dtype=dtype)
        for i in range(m):
            for j in range(m):
                P[i * m + j, j * m + i] = 1
        return P
    if c == "Kernel":
        x1, x2 = tt(e["x1"], dtype), tt(e["x2"], dtype)
        k = x1 @ x2.mT
        if e.get("square"):
            k = k * k
        if e.get("c") is not None:
            k = k * tt(e["c"], dtype)
        return k
    raise ValueError("unknown class %s" % c)


def shape_of(e):
    return list(dense(e).shape)


# ----------------------------------------------------------------------------------------- generators

BATCHES = [[], [1], [2], [2, 1], [1, 3], [2, 3]]

LEAF = ["Dense", "Diag", "ConstantDiag", "Identity", "Zero", "Toeplitz", "Triangular", "Chol", "Root", "LowRankRoot",
        "Permutation", "Kernel", "UserMinimal"]
COMPOSITE = ["Kron", "KronTriangular", "KronDiag", "KronAddedDiag", "SumKron", "AddedDiag", "LowRankRootAddedDiag",
             "Sum", "PsdSum", "Matmul", "Mul", "ConstantMul", "BlockDiag", "BlockInterleaved", "SumBatch",
             "BatchRepeat", "Cat", "Interpolated", "Masked"]
ALL = LEAF + COMPOSITE + ["TransposePermutation"]
SQUARE_ONLY = {"Diag", "ConstantDiag", "Identity", "Toeplitz", "Triangular", "Chol", "Root", "LowRankRoot", "Permutation",
               "KronTriangular", "KronDiag", "KronAddedDiag", "SumKron", "AddedDiag", "LowRankRootAddedDiag", "PsdSum", "Mul",
               "TransposePermutation"}
PSD_CAPABLE = ["Dense", "Diag", "ConstantDiag", "Identity", "Toeplitz", "Chol", "Root", "LowRankRoot", "Kron", "KronDiag",
               "KronAddedDiag", "SumKron", "AddedDiag", "LowRankRootAddedDiag", "Sum", "PsdSum", "ConstantMul", "BlockDiag",
               "BlockInterleaved", "SumBatch", "BatchRepeat", "Mul"]


def psd_int(rng, batch, n, rank=None, shift=None):
    """integer SPD matrix  B B^T + s I  (exact)"""
    r = rank or n
    B = torch.tensor(rand_t(rng, batch + [n, r], -2, 2)["data"], dtype=torch.float64).reshape(batch + [n, r])
    s = n if shift is None else shift
    A = B @ B.mT + s * torch.eye(n, dtype=torch.float64)
    return from_torch(A)


def gen(rng, cls, batch=(), m=3, n=None, depth=1, psd=False, child=None):
    """A random expression of class `cls` with operator batch shape `batch` and matrix size m x n
    (n defaults to m; square-only classes ignore n).  depth>1 lets composite classes nest composites.
    psd=True restricts to positive-definite instances (classes in PSD_CAPABLE)."""
    batch = list(batch)
    n = m if (n is None or cls in SQUARE_ONLY or psd) else n
    sub = lambda c, **kw: gen(rng, c, **kw)

    def child_cls(square=False, pd=False):
        if child is not None and (not pd or child in PSD_CAPABLE) and (not square or True):
            return child
        pool = PSD_CAPABLE if pd else (LEAF if depth <= 1 else LEAF + COMPOSITE)
        if depth <= 1:
            pool = [c for c in pool if c in LEAF]
        return rng.choice(pool)

    if cls == "Dense":
        return {"cls": "Dense", "t": psd_int(rng, batch, m) if psd else rand_t(rng, batch + [m, n])}
    if cls == "UserMinimal":
        return {"cls": "UserMinimal", "t": psd_int(rng, batch, m) if psd else rand_t(rng, batch + [m, n])}
    if cls == "Diag":
        return {"cls": "Diag", "d": rand_t(rng, batch + [m], 1, 4) if psd else rand_t(rng, batch + [m])}
    if cls == "ConstantDiag":
        return {"cls": "ConstantDiag", "c": rand_t(rng, batch + [1], 1, 4) if psd else rand_t(rng, batch + [1], nonzero=True), "n": m}
    if cls == "Identity":
        return {"cls": "Identity", "n": m, "batch": batch}
    if cls == "Zero":
        return {"cls": "Zero", "shape": batch + [m, n]}
    if cls == "Toeplitz":
        col = rand_t(rng, batch + [m], -2, 2)
        if psd:   # diagonally dominant
            cshape = batch + [m]
            data = tt(col).reshape(-1, m)
            data[:, 0] = data[:, 1:].abs().sum(-1) * 2 + 2
            col = from_torch(data.reshape(cshape))
        return {"cls": "Toeplitz", "col": col}
    if cls in ("Triangular", "Chol"):
        up = bool(rng.getrandbits(1))
        t = tt(rand_t(rng, batch + [m, m], -2, 2))
        t = torch.triu(t) if up else torch.tril(t)
        dg = tt(rand_t(rng, batch + [m], 1, 3))
        t = t - torch.diag_embed(torch.diagonal(t, dim1=-2, dim2=-1)) + torch.diag_embed(dg)
        return {"cls": cls, "t": from_torch(t), "upper": up}
    if cls in ("Root", "LowRankRoot"):
        r = m if psd else max(1, m - 1)
        root = tt(rand_t(rng, batch + [m, r], -2, 2))
        if psd:
            root = torch.tril(root)
            root = root - torch.diag_embed(torch.diagonal(root, dim1=-2, dim2=-1)) + torch.diag_embed(tt(rand_t(rng, batch + [m], 1, 3)))
        return {"cls": cls, "root": from_torch(root)}
    if cls == "Permutation":
        bs = batch
        perms = []
        for _ in range(int(math.prod(bs)) if bs else 1):
            p = list(range(m))
            rng.shuffle(p)
            perms += p
        return {"cls": "Permutation", "perm": {"shape": bs + [m], "data": perms, "long": True}}
    if cls == "TransposePermutation":
        return {"cls": "TransposePermutation", "m": max(1, int(round(math.sqrt(m))))}
    if cls == "Kernel":
        dd = 2
        x1 = rand_t(rng, batch + [m, dd], -2, 2)
        if psd:
            # X X^T is only PSD; add nothing (callers needing PD wrap it in AddedDiag); use m<=dd for full rank
            return {"cls": "Kernel", "x1": x1, "x2": x1, "square": False, "c": None}
        return {"cls": "Kernel", "x1": x1, "x2": rand_t(rng, batch + [n, dd], -2, 2), "square": bool(rng.getrandbits(1)),
                "c": None}
    # ---- composites
    if cls in ("Kron", "KronTriangular", "KronDiag"):
        k = rng.choice([2, 2, 3]) if m >= 2 else 2
        sizes = [(2, 2)] * k if cls != "Kron" or psd else [(rng.choice([1, 2, 3]), rng.choice([1, 2, 3])) for _ in range(k)]
        if cls == "Kron" and not psd:
            sizes = [(a, b) for a, b in sizes]
        up = bool(rng.getrandbits(1))
        ops = []
        for (a, b_) in sizes:
            if cls == "KronTriangular":
                x = sub("Triangular", batch=batch, m=a)
                while x["upper"] != up:
                    x = sub("Triangular", batch=batch, m=a)
            elif cls == "KronDiag":
                x = sub("Diag", batch=batch, m=a, psd=psd)
            else:
                cc = child_cls(pd=psd)
                if psd or cc in SQUARE_ONLY:
                    x = sub(cc, batch=batch, m=a, psd=psd, depth=depth - 1)
                else:
                    x = sub(cc, batch=batch, m=a, n=b_, depth=depth - 1)
            ops.append(x)
        out = {"cls": cls, "ops": ops}
        if cls == "KronTriangular":
            out["upper"] = up
        return out
    if cls == "KronAddedDiag":
        kron = sub("Kron", batch=batch, m=m, psd=True, depth=depth, child=child if child in PSD_CAPABLE else "Dense")
        N = shape_of(kron)[-1]
        kind = rng.choice(["const", "diag"])
        diag = sub("ConstantDiag", batch=batch, m=N, psd=True) if kind == "const" else sub("Diag", batch=batch, m=N, psd=True)
        return {"cls": cls, "kron": kron, "diag": diag}
    if cls == "SumKron":
        a = {"cls": "Kron", "ops": [sub("Dense", batch=batch, m=2, psd=True), sub("Dense", batch=batch, m=2, psd=True)]}
        b_ = {"cls": "Kron", "ops": [sub("Dense", batch=batch, m=2, psd=True), sub("Dense", batch=batch, m=2, psd=True)]}
        return {"cls": cls, "a": a, "b": b_}
    if cls == "AddedDiag":
        bc = child_cls(pd=psd, square=True) if (child or psd) else rng.choice(["Dense", "Toeplitz", "Root", "Kernel"])
        if bc in ("Diag", "ConstantDiag", "Identity", "KronDiag", "Zero"):
            bc = "Dense"
        if psd and rng.random() < 0.2:
            base = {"cls": "Kernel", "x1": rand_t(rng, batch + [m, 2], -2, 2), "square": False, "c": None}
            base["x2"] = base["x1"]
        else:
            base = sub(bc, batch=batch, m=m, psd=psd, depth=depth - 1)
        N = shape_of(base)[-1]
        diag = sub(rng.choice(["Diag", "ConstantDiag"]), batch=batch, m=N, psd=True)
        return {"cls": cls, "base": base, "diag": diag}
    if cls == "LowRankRootAddedDiag":
        root = sub("LowRankRoot", batch=batch, m=m)
        diag = sub(rng.choice(["Diag", "ConstantDiag"]), batch=batch, m=m, psd=True)
        return {"cls": cls, "root": root, "diag": diag}
    if cls in ("Sum", "PsdSum"):
        k = rng.choice([2, 3])
        pd = psd or cls == "PsdSum"
        ops = []
        for _ in range(k):
            cc = child_cls(pd=pd)
            if cc in ("KronAddedDiag", "SumKron", "Kron", "KronDiag", "KronTriangular", "TransposePermutation"):
                cc = "Dense"
            x = sub(cc, batch=rng.choice([batch, batch]) , m=m, n=(m if (pd or cc in SQUARE_ONLY) else n), psd=pd, depth=depth - 1)
            ops.append(x)
        # all summands must have the same matrix shape
        shp = shape_of(ops[0])[-2:]
        ops = [x if shape_of(x)[-2:] == shp else sub("Dense", batch=batch, m=shp[0], n=shp[1], psd=pd) for x in ops]
        return {"cls": cls, "ops": ops}
    if cls == "Matmul":
        k = rng.choice([1, 2, 3])
        cl, cr = child_cls(), child_cls()
        l = sub(cl, batch=batch, m=m, n=k, depth=depth - 1)
        kk = shape_of(l)[-1]
        r = sub(cr, batch=batch, m=kk, n=n, depth=depth - 1)
        if shape_of(r)[-2] != kk:
            r = sub("Dense", batch=batch, m=kk, n=n)
        return {"cls": cls, "l": l, "r": r}
    if cls == "Mul":
        return {"cls": cls, "l": sub("Root", batch=batch, m=m, psd=psd), "r": sub("Root", batch=batch, m=m, psd=psd)}
    if cls == "ConstantMul":
        cc = child_cls(pd=psd)
        base = sub(cc, batch=batch, m=m, n=n, psd=psd, depth=depth - 1)
        cshape = rng.choice([[], batch]) if batch else []
        return {"cls": cls, "base": base, "c": rand_t(rng, cshape, 1, 3) if psd else rand_t(rng, cshape, nonzero=True)}
    if cls in ("BlockDiag", "BlockInterleaved", "SumBatch"):
        k = rng.choice([1, 2, 3])
        cc = child_cls(pd=psd)
        if cc in ("Zero",):
            cc = "Dense"
        nn = m if cls == "BlockDiag" else n
        base = sub(cc, batch=batch + [k], m=m, n=nn, psd=psd, depth=depth - 1)
        if cls == "BlockDiag" and shape_of(base)[-1] != shape_of(base)[-2]:
            base = sub("Dense", batch=batch + [k], m=m, n=m)
        return {"cls": cls, "base": base, "block_dim": -3}
    if cls == "BatchRepeat":
        cc = child_cls(pd=psd)
        base_batch = rng.choice([[], [1], batch[-1:]]) if batch else []
        base = sub(cc, batch=base_batch, m=m, n=n, psd=psd, depth=depth - 1)
        bb = shape_of(base)[:-2]
        target = batch if batch else [2]
        # rep such that repeat(base) has batch `target`
        full = [1] * (len(target) - len(bb)) + bb
        rep = [t // f if (f and t % f == 0) else t for t, f in zip(target, full)]
        return {"cls": cls, "base": base, "rep": rep}
    if cls == "Cat":
        dim = rng.choice([-1, -2] + ([0] if batch else []))
        k = rng.choice([2, 3])
        ops = []
        for _ in range(k):
            cc = child_cls()
            if cc in SQUARE_ONLY or cc in ("Kron", "Zero", "Kernel", "UserMinimal", "Matmul", "Cat"):
                cc = "Dense"
            if dim == -1:
                ops.append(sub(cc, batch=batch, m=m, n=rng.choice([1, 2, 3]), depth=depth - 1))
            elif dim == -2:
                ops.append(sub(cc, batch=batch, m=rng.choice([1, 2, 3]), n=n, depth=depth - 1))
            else:
                ops.append(sub(cc, batch=[rng.choice([1, 2])] + batch[1:], m=m, n=n, depth=depth - 1))
        ref = shape_of(ops[0])
        fixed = [ops[0]]
        for x in ops[1:]:
            sx = shape_of(x)
            dd_ = dim if dim < 0 else dim - len(ref)
            okk = len(sx) == len(ref) and all(a == b_ for i, (a, b_) in enumerate(zip(sx, ref)) if i - len(ref) != dd_)
            if not okk:
                tgt = list(ref)
                tgt[dd_] = rng.choice([1, 2])
                x = {"cls": "Dense", "t": rand_t(rng, tgt)}
            fixed.append(x)
        return {"cls": cls, "ops": fixed, "dim": dim}
    if cls == "Interpolated":
        cc = child_cls(pd=psd)
        bm = rng.choice([2, 3, 4])
        base = sub(cc, batch=batch, m=bm, n=(bm if (psd or cc in SQUARE_ONLY) else rng.choice([2, 3])), psd=psd, depth=depth - 1)
        bshape = shape_of(base)
        k = rng.choice([1, 2])
        li = {"shape": batch + [m, k], "data": [rng.randrange(bshape[-2]) for _ in range(int(math.prod(batch + [m, k])))], "long": True}
        lv = rand_t(rng, batch + [m, k], -2, 2)
        if psd:
            return {"cls": cls, "base": base, "li": li, "lv": lv, "ri": li, "rv": lv}
        ri = {"shape": batch + [n, k], "data": [rng.randrange(bshape[-1]) for _ in range(int(math.prod(batch + [n, k])))], "long": True}
        rv = rand_t(rng, batch + [n, k], -2, 2)
        return {"cls": cls, "base": base, "li": li, "lv": lv, "ri": ri, "rv": rv}
    if cls == "Masked":
        cc = child_cls()
        base = sub(cc, batch=batch, m=m + 1, n=n + 1, depth=depth - 1)
        bs = shape_of(base)
        def mask(sz, keep):
            idx = list(range(sz))
            rng.shuffle(idx)
            keep = min(keep, sz)
            ks = set(idx[:keep])
            return {"shape": [sz], "data": [1 if i in ks else 0 for i in range(sz)], "bool": True}
        return {"cls": cls, "base": base, "row_mask": mask(bs[-2], m), "col_mask": mask(bs[-1], n)}
    raise ValueError("unknown class %s" % cls)


def gen_rhs(rng, e, kind):
    """right-hand side for `e` of kind  vec | mat | batched | bcast"""
    shp = shape_of(e)
    n = shp[-1]
    batch = shp[:-2]
    if kind == "vec":
        return rand_t(rng, [n])
    if kind == "mat":
        return rand_t(rng, [n, rng.choice([1, 2, 3])])
    if kind == "batched":
        return rand_t(rng, batch + [n, rng.choice([1, 2])])
    b2 = [2] + [1] * len(batch) if batch else [2]
    if batch:
        b2 = [rng.choice([1, s]) for s in batch]
        b2 = [3] + b2 if rng.random() < 0.5 else b2
    return rand_t(rng, b2 + [n, 2])


def describe(e, depth=0):
    """short structural key: class names down the tree"""
    c = e["cls"]
    kids = []
    for k in ("ops",):
        if k in e:
            kids += [describe(x) for x in e[k]]
    for k in ("base", "l", "r", "kron", "diag", "a", "b", "root"):
        if isinstance(e.get(k), dict) and "cls" in e[k]:
            kids.append(describe(e[k]))
    return c + ("(" + ",".join(kids) + ")" if kids else "")
