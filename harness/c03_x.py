"""C03 — correspondence layers L3x / L3g: the nested class-level transcriptions of coq/C03/Model.v part 7.

  L3x  xfml (the entry formulas toeplitz_f, kron_f, blockdiag_f, ... nested exactly as the operators are) evaluated
       element-wise over index tensors (gi_elem) vs the real  op._get_indices(row, col, *batch)  of generated (nested)
       operators; leaves are dense tensors
  L3g  the class-level _getitem transcriptions for basic indices (matmul_getitem, sumbatch_getitem, sum_getitem,
       constmul_getitem, zero_getitem over dense children) vs the real  op._getitem(row, col, *batch).to_dense()
"""
import math

import torch

from . import common, opbuild as ob, c03_idx as ix, c03_lib as lib
from .common import zlit, zlist, natlist


def tlit(t):
    """opbuild tensor spec {"shape","data"} -> Coq tensor literal"""
    return "(mkT %s %s)" % (natlist(t["shape"]), zlist([int(v) for v in t["data"]]))


def tlit_torch(x):
    return "(mkT %s %s)" % (natlist(list(x.shape)), zlist([int(round(float(v))) for v in x.reshape(-1).tolist()]))


def blist(xs):
    return "[" + "; ".join(common.coq_bool(bool(x)) for x in xs) + "]"


def xop_lit(e):
    """opbuild expression -> Coq xop literal, or None when a class / option outside the modelled fragment occurs"""
    c = e["cls"]
    sub = lambda x: xop_lit(x)
    if c == "Dense":
        return "(XDense %s)" % tlit(e["t"])
    if c == "Toeplitz":
        return "(XToeplitz %s)" % tlit(e["col"])
    if c == "Diag":
        return "(XDiag %s)" % tlit(e["d"])
    if c == "Root":
        r = e["root"]
        inner = sub(r) if isinstance(r, dict) and "cls" in r else "(XDense %s)" % tlit(r)
        return None if inner is None else "(XRoot %s)" % inner
    if c in ("Kron", "Sum", "Cat"):
        kids = [sub(x) for x in e["ops"]]
        if any(k is None for k in kids) or not kids:
            return None
        if c == "Cat":
            shp = ob.shape_of(e)
            d = e["dim"] if e["dim"] >= 0 else e["dim"] + len(shp)
            return "(XCat [%s] %d%%nat)" % ("; ".join(kids), d)
        if c == "Sum":
            shapes = {tuple(ob.shape_of(x)) for x in e["ops"]}
            if len(shapes) != 1:
                return None                       # broadcasting summands: outside the modelled fragment
        if c == "Kron":
            if len({tuple(ob.shape_of(x)[:-2]) for x in e["ops"]}) != 1:
                return None
        return "(X%s [%s])" % (c, "; ".join(kids))
    if c in ("BlockDiag", "BlockInterleaved", "SumBatch"):
        if e.get("block_dim", -3) != -3:
            return None
        k = sub(e["base"])
        return None if k is None else "(X%s %s)" % (c, k)
    if c == "BatchRepeat":
        k = sub(e["base"])
        if k is None or len(e["rep"]) < len(ob.shape_of(e["base"])) - 2:
            return None
        return "(XBatchRepeat %s %s)" % (k, natlist(e["rep"]))
    if c == "Matmul":
        l, r = sub(e["l"]), sub(e["r"])
        if l is None or r is None or ob.shape_of(e["l"])[:-2] != ob.shape_of(e["r"])[:-2]:
            return None
        return "(XMatmul %s %s)" % (l, r)
    if c == "ConstantMul":
        k = sub(e["base"])
        return None if k is None else "(XConstMul %s %s)" % (tlit(e["c"]), k)
    if c == "Masked":
        k = sub(e["base"])
        return None if k is None else "(XMasked %s %s %s)" % (k, blist(e["row_mask"]["data"]), blist(e["col_mask"]["data"]))
    if c == "Interpolated":
        k = sub(e["base"])
        bs = ob.shape_of(e["base"])[:-2]
        if k is None or any(e[f]["shape"][:-2] != bs for f in ("li", "lv", "ri", "rv")):
            return None
        return "(XInterp %s %s %s %s %s)" % (k, tlit(e["li"]), tlit(e["lv"]), tlit(e["ri"]), tlit(e["rv"]))
    return None


def ts_lit(ts):
    return "[" + "; ".join("(%s, %s)" % (natlist(s), zlist(d)) for s, d in ts) + "]"


def stage_x(ctx, rng, jobs, instances):
    """instances: list of (tag, expr) of the L4 grid; those inside the modelled fragment are used"""
    stats = {"l3x_cases": 0, "l3x_instances": 0, "l3x_classes": set(), "l3x_nested": 0, "l3x_skipped_nonintegral": 0}
    cases, meta = [], []
    per_cls = {}
    limit = 3 if ctx.quick else 12
    for tag, e in instances:
        lit = xop_lit(e)
        if lit is None or len(lit) > 6000:
            continue
        cnt = per_cls.get((e["cls"], len(ob.shape_of(e))), 0)
        if cnt >= limit:
            continue
        try:
            op = ob.build(e)
        except Exception:      # noqa
            continue
        shape = list(op.shape)
        per_cls[(e["cls"], len(shape))] = cnt + 1
        stats["l3x_instances"] += 1
        stats["l3x_classes"].add(e["cls"])
        if any(isinstance(v, dict) and "cls" in v and v["cls"] != "Dense" for v in e.values()) or \
                any(x["cls"] != "Dense" for x in e.get("ops", [])):
            stats["l3x_nested"] += 1
        for variant in range(2):
            nd = len(shape)
            if variant == 0:
                L = rng.choice([1, 2, 3])
                shapes = [[L]] * nd
            else:
                p, q = rng.choice([1, 2]), rng.choice([2, 3])
                cand = [[p, 1], [1, q], [p, q], [q], [1]]
                shapes = [rng.choice(cand) for _ in range(nd)]
                shapes[-2], shapes[-1] = [p, 1], [1, q]
            ts = [(s, [rng.randrange(n) for _ in range(int(math.prod(s)))]) for s, n in zip(shapes, shape)]
            tens = [torch.tensor(d, dtype=torch.long).reshape(s) for s, d in ts]
            try:
                r = op._get_indices(tens[-2], tens[-1], *tens[:-2])
                if not lib.integral(r):
                    stats["l3x_skipped_nonintegral"] += 1
                    continue
                obs = "(Some %s)" % tlit_torch(r)
                shown = list(r.shape)
            except Exception as ex:      # noqa
                obs, shown = "None", type(ex).__name__
            cases.append("XG %s %s %s" % (lit, ts_lit(ts), obs))
            meta.append({"fn": "%s._get_indices" % ob.describe(e), "shape": shape, "index_tensors": ts, "observed": shown})
    stats["l3x_cases"] = len(cases)
    stats["l3x_classes"] = sorted(stats["l3x_classes"])
    jobs.bad("L3x", lib.mk_shards("l3x", "xgi_case", cases, "bad_xgi"),
             lambda bad, meta=meta: lib.report_lib(ctx, bad, meta, "xfml / gi_elem (class-level entry formulas, Model.v part 7)"))
    return stats


def gen_basic_index(rng, shape, eq=None):
    """batch: ints / slices; the two matrix positions: slices (positive step) — what _getitem receives for basic indices.
    eq = "eq" / "near": the column slice is a copy / a near copy of the row slice (generated for the smaller dimension)"""
    items = []
    nd = len(shape)
    shape = list(shape)
    if eq:
        shape[-2] = min(shape[-2], shape[-1])
    for d, n in enumerate(shape):
        if d < nd - 2 and rng.random() < 0.4:
            items.append(ix.I(rng.randrange(-n, n)))
        elif d >= nd - 2 and eq:
            items.append(ix.gen_slice(rng, rng.choice(["step", "step", "ab", "neg", "a", "unit", "stopn"]), n))
        else:
            items.append(ix.gen_slice(rng, rng.choice(list(ix.SLICE_KINDS)), n))
    if eq:
        items[-1] = ix.derive_col(rng, items[-2], eq, shape[-1])
    return items


def stage_g(ctx, rng, jobs):
    import linear_operator.operators as O
    reps = 12 if ctx.quick else 120
    cases, meta = [], []
    overridden = set()
    R = lambda *s: lib.rand_mat(rng, *s)
    D = O.DenseLinearOperator
    for j in range(reps):
        bs = [[], [2], [2, 2], [3]][j % 4]
        m, k, n, nb = rng.choice([1, 2, 3]), rng.choice([1, 2, 3]), rng.choice([1, 2, 3]), rng.choice([1, 2, 3])
        specs = []
        l, r = R(*bs, m, k), R(*bs, k, n)
        specs.append(("GMatmul %s %s" % (tlit_torch(l), tlit_torch(r)), O.MatmulLinearOperator(D(l), D(r)), "Matmul"))
        b = R(*bs, nb, m, n)
        specs.append(("GSumBatch %s" % tlit_torch(b), O.SumBatchLinearOperator(D(b)), "SumBatch"))
        a, b2 = R(*bs, m, n), R(*bs, m, n)
        specs.append(("GSum %s %s" % (tlit_torch(a), tlit_torch(b2)), O.SumLinearOperator(D(a), D(b2)), "Sum"))
        c = R(*bs) if bs else torch.tensor(float(rng.randint(-3, 3)), dtype=torch.float64)
        specs.append(("GConstMul %s %s" % (tlit_torch(c), tlit_torch(a)), O.ConstantMulLinearOperator(D(a), c), "ConstantMul"))
        specs.append(("GZero %s" % natlist(bs + [m, n]), O.ZeroLinearOperator(*bs, m, n, dtype=torch.float64), "Zero"))
        rt = R(*bs, m, k)
        specs.append(("GRoot %s" % tlit_torch(rt), O.RootLinearOperator(rt), "Root"))
        # classes that inherit the default LinearOperator._getitem: the model is two-stage indexing of the dense matrix
        for dop, dname in ((O.ToeplitzLinearOperator(R(*bs, m)), "Toeplitz(default)"),
                           (O.DiagLinearOperator(R(*bs, n)), "Diag(default)"),
                           (O.KroneckerProductLinearOperator(D(R(*bs, m, k)), D(R(*bs, k, n))), "Kronecker(default)")):
            dd = dop.to_dense()
            if lib.integral(dd):
                specs.append(("GDefault %s" % tlit_torch(dd), dop, dname))
            if "_getitem" in type(dop).__dict__:
                # the class no longer inherits the default _getitem: its override is still compared with the transcription
                # of the default (= two-stage indexing of the dense matrix, the right answer for any correct override)
                overridden.add(type(dop).__name__)
        for lit, op, name in specs:
            shape = list(op.shape)
            for q in range(4):
                items = gen_basic_index(rng, shape, eq=[None, None, "eq", "near"][q])
                idx = ix.to_py(items, False)
                if q >= 2:
                    try:
                        if torch.zeros(shape)[idx].numel() == 0:
                            continue
                    except Exception:      # noqa
                        continue
                try:
                    res = op._getitem(idx[-2], idx[-1], *idx[:-2])
                    res = res if torch.is_tensor(res) else res.to_dense()
                    if not lib.integral(res):
                        continue
                    obs, shown = "(Some %s)" % tlit_torch(res), list(res.shape)
                except Exception as ex:      # noqa
                    obs, shown = "None", type(ex).__name__
                cases.append("XT (%s) %s %s" % (lit, lib.items_lit(items), obs))
                meta.append({"fn": "%sLinearOperator._getitem" % name, "shape": shape, "index": ix.show(items), "observed": shown})
    jobs.bad("L3g", lib.mk_shards("l3g", "xgt_case", cases, "bad_xgt"),
             lambda bad, meta=meta: lib.report_lib(ctx, bad, meta, "class-level _getitem transcriptions (Model.v part 7)"))
    return {"l3g_cases": len(cases), "l3g_default_getitem_overridden_by": sorted(overridden)}
