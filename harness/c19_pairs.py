"""C19 — operator (+) operator cells: the FULL ordered class-pair table.

For every left operand (every constructor of opbuild.ALL, and the composite left operands that public methods produce:
add_jitter, add_diagonal, `+ Diag`, `+ ConstantDiag`, `+ Dense`, `+ Root`, `* constant`) and every right-operand class
(again every constructor of opbuild.ALL) the binary operations  +, -, elementwise *, @  (method and torch.<fn> forms),
`cat`, and the reflected tensor forms are called with a right operand of every INVALID shape class
(different matrix size: bigger / smaller, transposed rectangular, non-broadcastable batch, extra / missing dimensions,
wrong / size-1 / transposed inner dimension for @) plus valid controls.  The verdict of torch on the two DENSE operands
(assembled by opbuild.dense, never through the library) is the oracle:  torch refuses  =>  the library must raise.

Nothing here knows which class-specific override (`__add__`, `_mul_matrix`, `matmul`, ...) a pair reaches: the table is
enumerated blindly, so that a guard weakened in any one of them is met by some cell.
"""
import random

SQ_DERIVED = ("jitter", "add_diagonal", "plus_diag", "plus_cdiag", "plus_dense", "plus_root", "times_const")
RECT_DERIVED = ("plus_dense", "times_const")


class SplitRng:
    """structure from a fixed stream (the grid of cells does not depend on the seed), values from the seed"""

    def __init__(self, struct, val):
        self.s, self.v = struct, val

    def randint(self, a, b):
        return self.v.randint(a, b)

    def choice(self, seq):
        return self.s.choice(seq)

    def random(self):
        return self.s.random()

    def getrandbits(self, k):
        return self.s.getrandbits(k)

    def shuffle(self, x):
        return self.s.shuffle(x)

    def randrange(self, *a):
        return self.s.randrange(*a)


# ------------------------------------------------------------------------------------------ right operands

_RHS_CACHE = {}


def rhs_expr(cls, B, p, q, seed):
    """an expression of constructor class `cls` denoting a (B, p, q) matrix, or None when the class has no such instance"""
    key = (cls, tuple(B), p, q, seed)
    if key not in _RHS_CACHE:
        try:
            _RHS_CACHE[key] = _rhs_expr(cls, list(B), p, q, seed)
        except Exception:
            _RHS_CACHE[key] = None
    return _RHS_CACHE[key]


def _rhs_expr(cls, B, p, q, seed):
    from . import opbuild as ob
    if p < 1 or q < 1:
        return None
    if cls in ob.SQUARE_ONLY and p != q:
        return None
    tag = "rhs|%s|%s|%d|%d" % (cls, B, p, q)
    rng = SplitRng(random.Random("C19-rstruct-" + tag), random.Random("%d-%s" % (seed, tag)))
    want = B + [p, q]

    def g(c, b=None, m=p, n=None, psd=False):
        return ob.gen(rng, c, batch=B if b is None else b, m=m, n=(m if n is None else n), psd=psd, child="Dense")
    e = None
    if cls == "Kron":
        e = {"cls": "Kron", "ops": [g("Dense", n=q), g("Dense", m=1)]}
    elif cls == "KronTriangular":
        a = g("Triangular")
        b_ = g("Triangular", m=1)
        b_["upper"] = a["upper"]
        e = {"cls": cls, "ops": [a, b_], "upper": a["upper"]}
    elif cls == "KronDiag":
        e = {"cls": cls, "ops": [g("Diag"), g("Diag", m=1)]}
    elif cls == "KronAddedDiag":
        kron = {"cls": "Kron", "ops": [g("Dense", psd=True), g("Dense", m=1, psd=True)]}
        e = {"cls": cls, "kron": kron, "diag": g("ConstantDiag", psd=True)}
    elif cls == "SumKron":
        e = {"cls": cls, "a": {"cls": "Kron", "ops": [g("Dense", psd=True), g("Dense", m=1, psd=True)]},
             "b": {"cls": "Kron", "ops": [g("Dense", psd=True), g("Dense", m=1, psd=True)]}}
    elif cls == "TransposePermutation":
        k = int(round(p ** 0.5))
        if B or k * k != p:
            return None
        e = {"cls": cls, "m": k}
    elif cls == "BlockDiag":
        if p != q:
            return None
        e = {"cls": cls, "base": g("Dense", b=B + [1]), "block_dim": -3}
    elif cls == "BlockInterleaved":
        e = {"cls": cls, "base": g("Dense", b=B + [1], n=q), "block_dim": -3}
    elif cls == "SumBatch":
        e = {"cls": cls, "base": g("Dense", b=B + [2], n=q), "block_dim": -3}
    elif cls == "BatchRepeat":
        if not B:
            return None
        e = {"cls": cls, "base": g("Dense", b=[1] * len(B), n=q), "rep": list(B)}
    elif cls == "Cat":
        if p >= 2:
            e = {"cls": cls, "ops": [g("Dense", m=1, n=q), g("Dense", m=p - 1, n=q)], "dim": -2}
        elif q >= 2:
            e = {"cls": cls, "ops": [g("Dense", m=p, n=1), g("Dense", m=p, n=q - 1)], "dim": -1}
        else:
            return None
    elif cls == "Matmul":
        e = {"cls": cls, "l": g("Dense", n=2), "r": g("Dense", m=2, n=q)}
    else:
        e = ob.gen(rng, cls, batch=B, m=p, n=q, psd=(cls == "PsdSum"), child="Dense" if cls in ob.COMPOSITE else None)
    if ob.shape_of(e) != want:
        return None
    return e


# ------------------------------------------------------------------------------------------ composite left operands

def derive_arg(name, sh, rng):
    """the (JSON-able) argument of a derivation of a left operand of shape sh"""
    B, m, n = sh[:-2], sh[-2], sh[-1]

    def t(shape, lo=1, hi=3):
        k = 1
        for s in shape:
            k *= s
        return {"shape": list(shape), "data": [rng.randint(lo, hi) for _ in range(k)]}
    if name in ("add_diagonal", "plus_diag"):
        return t(B + [n])
    if name == "plus_cdiag":
        return t(B + [1])
    if name == "plus_dense":
        return t(B + [m, n])
    if name == "plus_root":
        return t(B + [n, 1])
    return None


def derive(name, op, D, arg):
    """(composite operator built by a public method of `op`, its dense value assembled with plain torch)"""
    import torch
    from . import opbuild as ob
    from linear_operator.operators import (ConstantDiagLinearOperator, DenseLinearOperator, DiagLinearOperator,
                                           RootLinearOperator)
    X = ob.tt(arg) if arg is not None else None
    n = D.shape[-1]
    eye = torch.eye(n, dtype=D.dtype)
    if name == "jitter":
        return op.add_jitter(0.5), D + 0.5 * eye
    if name == "add_diagonal":
        return op.add_diagonal(X), D + torch.diag_embed(X)
    if name == "plus_diag":
        return op + DiagLinearOperator(X), D + torch.diag_embed(X)
    if name == "plus_cdiag":
        return op + ConstantDiagLinearOperator(X, diag_shape=n), D + X.unsqueeze(-1) * eye
    if name == "plus_dense":
        return op + DenseLinearOperator(X), D + X
    if name == "plus_root":
        return op + RootLinearOperator(X), D + X @ X.mT
    if name == "times_const":
        return op * 2.0, D * 2.0
    raise ValueError(name)


def signature(op, depth=2):
    """runtime structure of an operator: class names of the operator and of its operator arguments (two levels)"""
    name = type(op).__name__
    if depth == 0:
        return name
    kids = [signature(a, depth - 1) for a in getattr(op, "_args", ()) if hasattr(a, "_args") and hasattr(a, "to_dense")]
    return name + ("(" + ",".join(kids) + ")" if kids else "")


# ------------------------------------------------------------------------------------------ shape classes

def elementwise_rhs_shapes(B, m, n):
    """(shape class, right-operand shape) for  A(B, m, n) (+|-|*) R ;  torch's verdict on the dense pair is the oracle"""
    out = [("bigger", B + [m + 1, n + 1])]
    if min(m, n) >= 3:
        out.append(("smaller", B + [m - 1, n - 1]))
    if m != n:
        out.append(("transposed", B + [n, m]))
    out.append(("extra_dim_bigger", [2] + B + [m + 1, n + 1]))
    if B:
        out.append(("missing_dim_bigger", B[1:] + [m + 1, n + 1]))
    if B and B[0] != 1:
        out.append(("bad_batch", [B[0] + 3] + B[1:] + [m, n]))
    out.append(("ok_same", B + [m, n]))
    out.append(("ok_missing_batch", B[1:] + [m, n]) if B else ("ok_extra_batch", [2, m, n]))
    return out


def matmul_rhs_shapes(B, m, n):
    """A(B, m, n) @ R(.., k, p)"""
    out = [("wrong_inner", B + [n + 1, n + 1])]
    if n != 1:
        out.append(("size1_inner", B + [1, 1]))
    if n >= 3:
        out.append(("smaller_inner", B + [n - 1, n - 1]))
    if m != n:
        out.append(("transposed_inner", B + [m, n]))
    out.append(("wrong_inner_rect", B + [n + 1, 2]))
    if B and B[0] != 1:
        out.append(("bad_batch", [B[0] + 3] + B[1:] + [n, n]))
    out.append(("extra_batch_wrong_inner", [2] + B + [n + 1, n + 1]))
    out.append(("ok_square", B + [n, n]))
    out.append(("ok_rect", B + [n, 2]))
    return out


def cat_rhs_shapes(B, m, n):
    return [("mismatch", -2, B + [2, n + 1]), ("mismatch", -1, B + [m + 1, 2]), ("mismatch_square", -2, B + [n + 1, n + 1]),
            ("ok", -2, B + [n, n]) if m == n else ("ok", -2, B + [2, n]), ("ok", -1, B + [m, m])]


# which shape classes each operation gets, per tier / kind of left operand.  `+` always gets every class (every
# class-specific __add__ override has its own guard); `-` is the base-class `self + other.mul(-1)` and `*` / `@` pass the
# base-class guard before any class-specific code except in the overrides, which the direct left operands cover in full.
ELEMENTWISE_KINDS = {
    "full": {"add_op": None, "sub_op": None, "mul_op": None, "torch": ("bigger", "bad_batch", "ok_same")},
    "quick": {"add_op": None, "sub_op": ("bigger", "smaller", "bad_batch", "transposed", "ok_same"),
              "mul_op": ("bigger", "smaller", "bad_batch", "transposed", "ok_same"), "torch": ("bigger",)},
    "derived": {"add_op": ("bigger", "smaller", "bad_batch", "extra_dim_bigger", "ok_same"),
                "sub_op": ("bigger", "bad_batch", "ok_same"), "mul_op": ("bigger", "ok_same"), "torch": ()},
}
MATMUL_KINDS = {
    "full": {"matmul_op": None, "torch": ("wrong_inner", "ok_square")},
    "quick": {"matmul_op": ("wrong_inner", "size1_inner", "transposed_inner", "bad_batch", "extra_batch_wrong_inner",
                            "ok_square"), "torch": ("wrong_inner",)},
    "derived": {"matmul_op": ("wrong_inner", "ok_square"), "torch": ()},
}
BIN_OPS = ("add_op", "sub_op", "mul_op")


def pair_cases(sh, seed, rhs_classes, level="full"):
    """declarative cases: dict(op, kind, arg={"rhs": expr, "rhs_cls": constructor class}); level = full | quick | derived"""
    B, m, n = sh[:-2], sh[-2], sh[-1]
    ek, mk = ELEMENTWISE_KINDS[level], MATMUL_KINDS[level]

    def wanted(table, o, kind):
        return table[o] is None or kind in table[o]
    cs = []
    for rc in rhs_classes:
        for kind, s in elementwise_rhs_shapes(B, m, n):
            e = rhs_expr(rc, s[:-2], s[-2], s[-1], seed)
            if e is None:
                continue
            for o in BIN_OPS:
                if wanted(ek, o, kind):
                    cs.append({"op": o, "kind": kind, "arg": {"rhs": e, "rhs_cls": rc}})
            if kind in ek["torch"] and (level == "full" or not B):
                for o in ("torch_add", "torch_sub", "torch_mul"):
                    cs.append({"op": o, "kind": kind, "arg": {"rhs": e, "rhs_cls": rc}})
        for kind, s in matmul_rhs_shapes(B, m, n):
            e = rhs_expr(rc, s[:-2], s[-2], s[-1], seed)
            if e is None:
                continue
            if wanted(mk, "matmul_op", kind):
                cs.append({"op": "matmul_op", "kind": kind, "arg": {"rhs": e, "rhs_cls": rc}})
            if kind in mk["torch"] and (level == "full" or not B):
                cs.append({"op": "torch_matmul", "kind": kind, "arg": {"rhs": e, "rhs_cls": rc}})
        if level != "derived" and not B:
            for k_, (kind, dim, s) in enumerate(cat_rhs_shapes(B, m, n)):
                e = rhs_expr(rc, s[:-2], s[-2], s[-1], seed)
                if e is None:
                    continue
                for pos in ((0, 1) if level == "full" else (k_ % 2,)):
                    cs.append({"op": "cat_op", "kind": "%s_dim%d_pos%d" % (kind, dim, pos),
                               "arg": {"rhs": e, "rhs_cls": rc, "dim": dim, "pos": pos}})
    return cs


def reflected_cases(sh, rng):
    """tensor (+) operator through __radd__ / __rsub__ / __rmul__ / __rmatmul__ and torch.<fn>(tensor, operator);
    add_low_rank with a tensor factor"""
    B, m, n = sh[:-2], sh[-2], sh[-1]

    def t(shape):
        k = 1
        for s in shape:
            k *= s
        return {"shape": list(shape), "data": [rng.randint(1, 3) for _ in range(k)]}
    cs = []
    el = [("wrong_col", B + [m, n + 1]), ("wrong_row", B + [m + 1, n]), ("extra_dim_wrong", [2, m + 1, n + 1]), ("ok_same", B + [m, n]),
          ("ok_extra_batch", [2] + B + [m, n])]
    if B and B[0] != 1:
        el.append(("bad_batch", [B[0] + 3] + B[1:] + [m, n]))
    for kind, s in el:
        x = t(s)
        for o in ("radd", "rsub", "rmul", "torch_add_t", "torch_sub_t", "torch_mul_t", "torch_add_rt", "torch_sub_rt", "torch_mul_rt"):
            cs.append({"op": o, "kind": kind, "arg": x})
    mm = [("wrong_inner", [2, m + 1]), ("ok", [2, m])]
    if m != 1:
        mm.append(("size1_inner", [2, 1]))
    if B and B[0] != 1:
        mm.append(("bad_batch", [B[0] + 3] + B[1:] + [2, m]))
    for kind, s in mm:
        x = t(s)
        for o in ("rmatmul_dunder", "torch_matmul_rt"):
            cs.append({"op": o, "kind": kind, "arg": x})
    if m == n:
        lr = [("wrong_rows", B + [n + 1, 1]), ("wrong_rows_2", B + [n + 1, 2]), ("ok", B + [n, 1])]
        if B and B[0] != 1:
            lr.append(("bad_batch", [B[0] + 3] + B[1:] + [n, 1]))
        for kind, s in lr:
            cs.append({"op": "add_low_rank", "kind": kind, "arg": t(s)})
    return cs


# ------------------------------------------------------------------------------------------ execution

_DENSE_CACHE = {}


def _dense_of(e):
    """dense value of a right-operand expression (cached per expression object: they are shared between cases)"""
    from . import opbuild as ob
    k = id(e)
    hit = _DENSE_CACHE.get(k)
    if hit is None or hit[0] is not e:
        hit = (e, ob.dense(e))
        _DENSE_CACHE[k] = hit
    return hit[1]


def attempt_shape(f):
    """verdict of a call by the shape its result ADVERTISES (no dense evaluation): a lazily constructed operator whose
    .shape cannot be read counts as raising; one that advertises a shape is a returned result (the stated convention)"""
    try:
        r = f()
        if isinstance(r, tuple):
            r = r[0]
        return ("ok", [int(x) for x in r.shape])
    except Exception as ex:                      # noqa: any exception is "raises"
        return ("raise", (type(ex).__name__ + ": " + str(ex))[:90])

def execute_pair(op, D, case, attempt):
    """-> (impl verdict, torch verdict, (runtime class of the right operand, the right operand))"""
    import torch
    from . import opbuild as ob
    from linear_operator.operators import cat as lo_cat
    o, arg = case["op"], case["arg"]
    if "rhs" in arg:
        R = ob.build(arg["rhs"])
        DR = _dense_of(arg["rhs"])
        rcls = (type(R).__name__, R, [int(x) for x in DR.shape])
        if o == "add_op":
            return attempt(lambda: op + R), attempt(lambda: D + DR), rcls
        if o == "sub_op":
            return attempt(lambda: op - R), attempt(lambda: D - DR), rcls
        if o == "mul_op":
            return attempt(lambda: op * R), attempt(lambda: D * DR), rcls
        if o == "matmul_op":
            return attempt(lambda: op @ R), attempt(lambda: D @ DR), rcls
        if o == "torch_add":
            return attempt(lambda: torch.add(op, R)), attempt(lambda: D + DR), rcls
        if o == "torch_sub":
            return attempt(lambda: torch.sub(op, R)), attempt(lambda: D - DR), rcls
        if o == "torch_mul":
            return attempt(lambda: torch.mul(op, R)), attempt(lambda: D * DR), rcls
        if o == "torch_matmul":
            return attempt(lambda: torch.matmul(op, R)), attempt(lambda: D @ DR), rcls
        if o == "cat_op":
            ins, dd = [R], [DR]
            ins.insert(arg["pos"], op)
            dd.insert(arg["pos"], D)
            return attempt(lambda: lo_cat(ins, dim=arg["dim"])), attempt(lambda: torch.cat(dd, dim=arg["dim"])), rcls
        raise ValueError(o)
    X = ob.tt(arg)
    if o == "radd":
        return attempt(lambda: X + op), attempt(lambda: X + D), ("Tensor", None, None)
    if o == "rsub":
        return attempt(lambda: X - op), attempt(lambda: X - D), ("Tensor", None, None)
    if o == "rmul":
        return attempt(lambda: X * op), attempt(lambda: X * D), ("Tensor", None, None)
    if o == "rmatmul_dunder":
        return attempt(lambda: X @ op), attempt(lambda: X @ D), ("Tensor", None, None)
    if o == "torch_add_t":
        return attempt(lambda: torch.add(op, X)), attempt(lambda: D + X), ("Tensor", None, None)
    if o == "torch_sub_t":
        return attempt(lambda: torch.sub(op, X)), attempt(lambda: D - X), ("Tensor", None, None)
    if o == "torch_mul_t":
        return attempt(lambda: torch.mul(op, X)), attempt(lambda: D * X), ("Tensor", None, None)
    if o == "torch_add_rt":
        return attempt(lambda: torch.add(X, op)), attempt(lambda: X + D), ("Tensor", None, None)
    if o == "torch_sub_rt":
        return attempt(lambda: torch.sub(X, op)), attempt(lambda: X - D), ("Tensor", None, None)
    if o == "torch_mul_rt":
        return attempt(lambda: torch.mul(X, op)), attempt(lambda: X * D), ("Tensor", None, None)
    if o == "torch_matmul_rt":
        return attempt(lambda: torch.matmul(X, op)), attempt(lambda: X @ D), ("Tensor", None, None)
    if o == "add_low_rank":
        return attempt(lambda: op.add_low_rank(X)), attempt(lambda: D + X @ X.mT), ("Tensor", None, None)
    raise ValueError(o)


PAIR_OPS = {"add_op", "sub_op", "mul_op", "matmul_op", "torch_add", "torch_sub", "torch_mul", "torch_matmul", "cat_op",
            "radd", "rsub", "rmul", "rmatmul_dunder", "torch_add_t", "torch_sub_t", "torch_mul_t", "torch_add_rt",
            "torch_sub_rt", "torch_mul_rt", "torch_matmul_rt", "add_low_rank"}
