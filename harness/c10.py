"""C10 — pivoted Cholesky under-approximates greedily; its preconditioner is exact.

proof    : coq/C10/Property.v (theorems over coq/C10/Model.v, any real closed field, all n / ranks / batches)
tie      : correspondence — the same Gallina terms run on binary64 (coq/C10/Check.v) against
           op.pivoted_cholesky(rank, error_tol, return_pivots=True) and (K + D)._preconditioner()
search   : the property predicates (harness/c10_gen.py) evaluated directly on what the implementation returns
"""
import json
import os
import random
import warnings

from . import common
from . import c10_gen as G
from . import c10_perm as P

PROP = "C10"
TOL_L = 1e-9        # factor entries, relative to the largest entry of the member's factor
TOL_PRE = 1e-8      # closure / operator / logdet (model: modified Gram-Schmidt, implementation: Householder QR)
SHARD = 250


def regenerate():
    os.makedirs(os.path.join(common.COQ, PROP, "gen"), exist_ok=True)


def _torch():
    import torch
    torch.set_num_threads(1)
    return torch


# ------------------------------------------------------------------------------------------------
# literals

def fl(x):
    return common.flit(x)


def lst(items):
    return "[:: " + "; ".join(items) + "]" if items else "[::]"


def vec(v):
    return lst([fl(x) for x in v])


def mat(M):
    return lst([vec(r) for r in M])


def nats(v):
    return lst(["%d" % int(x) for x in v])


def st_lit(mx, mn, tol):
    return "(MkSettings %d %d %s)" % (mx, mn, fl(tol))


DEFAULT_ST = (15, 2000, 1e-3)


# ------------------------------------------------------------------------------------------------
# case generation (the grid is enumerated deterministically; the seed only picks values)

BATCHES = [(), (1,), (2,), (3,), (2, 2)]


def nbatch(bs):
    k = 1
    for b in bs:
        k *= b
    return k


def make_members(rng, fam, n, nb, differ):
    """nb members of family fam; with `differ`, later members are symmetric permutations / fresh draws
    so that the members need different pivots."""
    Ks, metas = [], []
    for b in range(nb):
        K, meta = G.FAMILIES[fam](rng, n)
        Ks.append(K)
        metas.append(meta)
    return Ks, metas


BASELINE_INT_LITERALS = {0, 1, 2}      # integer literals of linear_operator/functions/_pivoted_cholesky.py on the pinned tree
BIG_SIZES = [12, 17, 33]


def scan_source():
    """Integer literals and modulo / floor-division tests in the module of PivotedCholesky.forward (common.REPO).
    A literal that is not in the baseline is a candidate for a period / threshold in the loop: the size family is
    widened beyond it (c + 2, 2 c + 1, 3 c + 1) so that the loop runs past it at least twice."""
    import ast
    path = os.path.join(common.REPO, "linear_operator", "functions", "_pivoted_cholesky.py")
    out = {"file": "linear_operator/functions/_pivoted_cholesky.py", "int_literals": [], "modulo_or_floordiv": 0, "new_literals": [], "extra_sizes": []}
    try:
        tree = ast.parse(open(path).read())
    except Exception as ex:
        out["error"] = str(ex)[:200]
        return out
    lits = set()
    for node in ast.walk(tree):
        if isinstance(node, ast.Constant) and isinstance(node.value, int) and not isinstance(node.value, bool):
            lits.add(node.value)
        if isinstance(node, (ast.BinOp, ast.AugAssign)) and isinstance(node.op, (ast.Mod, ast.FloorDiv)):
            out["modulo_or_floordiv"] += 1
    out["int_literals"] = sorted(lits)
    new = sorted(c for c in lits if c not in BASELINE_INT_LITERALS)
    out["new_literals"] = new
    extra = set()
    for c in new:
        if 2 <= c <= 40:
            extra.update({c + 2, 2 * c + 1, 3 * c + 1})
    if out["modulo_or_floordiv"] and not extra:
        extra.update({40, 65})
    out["extra_sizes"] = sorted(x for x in extra if x <= 130 and x not in BIG_SIZES)
    return out


def prior_tol_for(tol):
    """history on ONE operator object: the tolerance in force during an earlier, otherwise identical call —
    far on the other side of the one the observed call runs under"""
    return 0.5 if tol < 1e-2 else 1e-10


def pc_grid(ctx):
    rng = random.Random(ctx.seed * 7919 + 17)
    sizes = {"full": [1, 2, 3, 4, 5, 6, 8], "lowrank": [2, 3, 4, 6, 7], "lowrank_mixed": [3, 5], "tied_kernel": [2, 3, 5, 6, 8],
             "persym": [2, 4, 5, 6], "blocksym": [2, 4, 6, 8], "diag": [1, 2, 3, 5, 7], "toeplitz": [2, 3, 5, 6],
             "scaled": [2, 3, 4, 6], "geometric": [4, 6, 8]}
    if not ctx.quick:
        for f in sizes:
            sizes[f] = sizes[f] + [9, 10, 12]
    tols = [None, 1e-1, 1e-8]
    st_tols = [1e-3, 1e-2, 1e-6]
    cases = []
    cnt = 0
    reps = 1 if ctx.quick else 4
    for rep in range(reps):
        for fam in G.FAMILIES:
            for n in sizes[fam]:
                for bi, bs in enumerate(BATCHES):
                    if fam == "lowrank_mixed" and bs not in ((2,), (3,)):
                        continue
                    classes = G.CLASSES_FOR[fam]
                    for ci, cls in enumerate(classes):
                        # Dense unbatched: every rank 1..n+1 (and 0: raises); otherwise a rotating subset
                        if cls == "Dense" and bs == () and n <= 6:
                            ranks = list(range(0, n + 2))
                        elif cls == "Dense":
                            ranks = sorted({1 + (cnt % (n + 1)), n, n + 1, max(1, n // 2)})
                        else:
                            ranks = sorted({1 + (cnt % (n + 1)), 1 + ((cnt + 2) % (n + 1)), n})
                        if bs in ((1,), (2, 2)) and cls != "Dense" and ctx.quick and (cnt % 2 == 0):
                            cnt += 1
                            continue
                        for rank in ranks:
                            etol = tols[cnt % 3]
                            st_tol = st_tols[(cnt // 3) % 3] if etol is None else 1e-3
                            c = {"kind": "pc", "fam": fam, "n": n, "batch": list(bs), "cls": cls,
                                 "rank": rank, "etol": etol, "st_tol": st_tol, "vseed": rng.randrange(1 << 30)}
                            if etol is None and cnt % 2 == 0:
                                c["prior_tol"] = prior_tol_for(st_tol)
                            cases.append(c)
                            cnt += 1
    # guard sweep: loose tolerances, where the 1-norm of the residual diagonal relative to the largest ORIGINAL diagonal
    # entry decides the stopping iteration (other norms / normalisations / stale values stop somewhere else)
    for fam in ("full", "toeplitz", "tied_kernel", "lowrank", "scaled"):
        for n in ((4, 5, 6, 8) if ctx.quick else (4, 5, 6, 8, 10, 12)):
            for bs in ((), (2,), (3,)):
                for etol in (0.5, 0.25, 0.1, 0.05):
                    use_setting = cnt % 4 == 3
                    c = {"kind": "pc", "fam": fam, "n": n, "batch": list(bs), "cls": "Dense", "rank": n,
                         "etol": None if use_setting else etol, "st_tol": etol if use_setting else 1e-3,
                         "vseed": rng.randrange(1 << 30), "sweep": True}
                    if use_setting:
                        c["prior_tol"] = prior_tol_for(etol)
                    if bs and cnt % 2 == 0:
                        c["member_scale"] = True       # member b lives on the scale 2^(-7 b): largest diagonal entries differ 128x
                    cases.append(c)
                    cnt += 1
    # tolerances below float32 machine epsilon (1.19e-7) supplied through the SETTINGS context (error_tol=None) or
    # explicitly, on float64 operators (the process default dtype stays float32), on matrices whose relative residual
    # trace decays geometrically and crosses 1.19e-7 well before full rank
    for n in ((8, 10, 12) if ctx.quick else (8, 10, 12, 14)):
        for bs in ((), (2,), (3,)):
            for t in (1e-8, 1e-10, 1e-6, 3e-8):
                for via_setting in (True, False):
                    c = {"kind": "pc", "fam": "geometric", "n": n, "batch": list(bs), "cls": ["Dense", "Sum"][cnt % 2], "rank": n,
                         "etol": None if via_setting else t, "st_tol": t if via_setting else 1e-3, "vseed": rng.randrange(1 << 30), "subeps": True}
                    if via_setting and cnt % 3 == 0:
                        c["prior_tol"] = prior_tol_for(t)
                    cases.append(c)
                    cnt += 1
    # sizes and ranks beyond any small constant of the loop (direct predicates only: exactness, PSD, vanishing rows,
    # pivot-is-argmax, guard), widened by whatever integer literal the source scan finds new in the module
    scan = scan_source()
    for n in BIG_SIZES + scan["extra_sizes"]:
        for fam in ("full", "toeplitz", "tied_kernel", "scaled", "persym"):
            for bs in ((), (2,)):
                if ctx.quick and n > 40 and (bs or fam in ("scaled", "persym")):
                    continue
                for rank in sorted({n, max(9, (2 * n) // 3), n + 1}):
                    use_setting = cnt % 2 == 0
                    cases.append({"kind": "pc", "fam": fam, "n": n, "batch": list(bs), "cls": "Dense", "rank": rank,
                                  "etol": None if use_setting else 1e-8, "st_tol": 1e-6 if use_setting else 1e-3,
                                  "vseed": rng.randrange(1 << 30), "big": True})
                    cnt += 1
    return cases


def materialise_pc(case):
    """draw the member matrices of a pc case from its value seed"""
    rng = random.Random(case["vseed"])
    nb = nbatch(case["batch"])
    Ks, metas = make_members(rng, case["fam"], case["n"], nb, True)
    if case.get("member_scale"):
        Ks = [K * (2.0 ** (-7 * b)) for b, K in enumerate(Ks)]
    return Ks, metas


def run_pc(case, Ks, metas):
    """run the implementation; returns observation dict"""
    torch = _torch()
    from linear_operator import settings
    op = G.build_op(case["cls"], Ks, metas, tuple(case["batch"]), case["fam"])
    if op is None:
        return None
    n = case["n"]
    if case.get("prior_tol") is not None:
        # an earlier identical call on the same operator object under another tolerance must not influence this one
        with settings.preconditioner_tolerance(case["prior_tol"]), warnings.catch_warnings():
            warnings.simplefilter("ignore")
            try:
                op.pivoted_cholesky(case["rank"], error_tol=case["etol"], return_pivots=True)
            except Exception:
                pass
    with settings.preconditioner_tolerance(case["st_tol"]), warnings.catch_warnings():
        warnings.simplefilter("ignore")
        try:
            L, p = op.pivoted_cholesky(case["rank"], error_tol=case["etol"], return_pivots=True)
        except IndexError as ex:
            return {"raised": "IndexError"}
        except Exception as ex:  # anything else is reported by the caller
            return {"raised": type(ex).__name__, "msg": str(ex)[:300]}
    r = L.shape[-1]
    exp_shape = tuple(case["batch"]) + (n, r)
    return {"raised": None, "r": r, "shape_ok": tuple(L.shape) == exp_shape and tuple(p.shape) == tuple(case["batch"]) + (n,),
            "L": L.reshape(-1, n, r), "perm": p.reshape(-1, n), "dtype_ok": L.dtype == torch.float64 and p.dtype == torch.long}


def pc_case_lit(case, Ks, obs):
    n = case["n"]
    if obs["raised"] == "IndexError":
        o = "None"
    else:
        o = "(Some (%d, %s))" % (obs["r"], lst(["(%s, %s)" % (mat(obs["L"][b].tolist()), nats(obs["perm"][b].tolist()))
                                                 for b in range(len(Ks))]))
    return "CasePC %s %d %d %s %s %s %s" % (
        st_lit(DEFAULT_ST[0], DEFAULT_ST[1], case["st_tol"]), n, case["rank"],
        "None" if case["etol"] is None else "(Some %s)" % fl(case["etol"]),
        lst([mat(K.tolist()) for K in Ks]), fl(TOL_L), o)


def pc_key(case, what):
    return {"api": "pivoted_cholesky", "cls": case["cls"], "fam": case["fam"], "batched": len(case["batch"]) > 0, "fail": what}


def pc_direct(case, Ks, obs):
    """property predicates on the implementation's outputs -> list of (what, message)"""
    n = case["n"]
    kmax = min(case["rank"], n)
    if obs["raised"] is not None:
        if obs["raised"] == "IndexError" and kmax == 0:
            return [], {}
        return [("raises", "pivoted_cholesky raised %s %s" % (obs["raised"], obs.get("msg", "")))], {}
    if kmax == 0:
        return [("raises", "pivoted_cholesky with rank 0 returned instead of raising")], {}
    fails = []
    if not obs["shape_ok"]:
        fails.append(("shape", "result shapes do not match batch_shape + (n, r) / batch_shape + (n,)"))
    if not obs["dtype_ok"]:
        fails.append(("dtype", "result dtypes are not (float64, int64)"))
    tol = case["etol"] if case["etol"] is not None else case["st_tol"]
    info_all = {"min_gap": float("inf"), "ties": 0, "near_tie": 0}
    r = obs["r"]
    Ls = [obs["L"][b] for b in range(len(Ks))]
    perms = [obs["perm"][b].tolist() for b in range(len(Ks))]
    for b, K in enumerate(Ks):
        f, info = G.check_pc_member(K, Ls[b], perms[b], r)
        fails += [(code, "member %d: %s" % (b, x)) for code, x in f]
        info_all["min_gap"] = min(info_all["min_gap"], info["min_gap"])
        info_all["ties"] += info["ties"]
        info_all["near_tie"] += len(info.get("near_tie", []))
    if not fails:
        fails += [("guard", x) for x in G.check_pc_guard(Ks, Ls, perms, r, case["rank"], tol)]
    return fails, info_all


def pc_fragile(case, Ks, obs, info):
    """True when the comparison of pivots / the stopping iteration between two binary64 evaluations
    with different summation orders is not meaningful (a non-exact near tie, or an error within
    rounding of the tolerance); such draws are replaced (deterministically) by the next value seed."""
    if obs["raised"] is not None:
        return False
    if info.get("near_tie"):
        return True
    if info.get("min_gap", 1.0) < 1e-7:
        return True
    r0 = obs["r"]
    if any(G.rounding_dependent_tie(K, obs["L"][b], obs["perm"][b].tolist(), r0) for b, K in enumerate(Ks)):
        return True
    tol = case["etol"] if case["etol"] is not None else case["st_tol"]
    r = obs["r"]
    for m in range(1, r + 1):
        if m >= case["n"]:
            break
        e = max(G.residual_error(K, obs["L"][b][:, :m], obs["perm"][b].tolist(), m) for b, K in enumerate(Ks))
        if abs(e - tol) <= 1e-6 * tol + 1e-13:
            return True
    return False


# ------------------------------------------------------------------------------------------------
# preconditioner cases

DKINDS = ["const_op", "const_vec", "nonconst", "const_members_differ", "mixed", "bcast_nonconst", "bcast_const"]
BOUNDARY_KINDS = ["exact_vec", "near_ulp", "near_1e-7", "near_1e-5", "near_1e-3", "tiny_1e-9", "tiny_1e-7", "tiny_const", "mixed_near"]
ROUTES = ["AddedDiag(K,D)", "AddedDiag(D,K)", "K+D", "add_diagonal", "add_jitter"]


def size_history_for(a, n, cnt):
    """earlier calls of _preconditioner() on the SAME AddedDiag object under other max_preconditioner_size values
    before the observed call under `a`: none / (b) / (a, b) / (b, a, b) — i.e. histories a | b,a | a,b,a | b,a,b,a"""
    if a == 0 or cnt % 2 == 0:
        return None
    others = [x for x in (1, 2, 3, n, n - 1) if x != min(a, n) and x >= 1]
    if not others:
        return None
    b = others[(cnt // 2) % len(others)]
    return [[b], [a, b], [b, a, b]][(cnt // 2) % 3]


def pre_grid(ctx):
    rng = random.Random(ctx.seed * 104729 + 5)
    fams = ["full", "lowrank", "tied_kernel", "scaled", "toeplitz", "blocksym", "geometric"]
    sizes = [2, 3, 5, 6] if ctx.quick else [2, 3, 4, 5, 6, 8, 10]
    cases = []
    cnt = 0
    reps = 1 if ctx.quick else 3
    for rep in range(reps):
        for fam in fams:
            for n in sizes:
                for bs in BATCHES:
                    for dk in DKINDS:
                        if bs == () and dk in ("const_members_differ", "mixed", "bcast_nonconst", "bcast_const"):
                            continue
                        if ctx.quick and bs in ((1,), (2, 2)) and cnt % 3 != 0:
                            cnt += 1
                            continue
                        mx = [1, 2, 3, n, 15, 0, n + 1][cnt % 7]
                        mn = [1, n, 1, n + 1, 1, 2000, 1, n][cnt % 8]
                        tol = [1e-3, 1e-1, 1e-8][cnt % 3]
                        route = ROUTES[cnt % len(ROUTES)]
                        if route == "add_jitter" and dk != "const_op":
                            route = "AddedDiag(K,D)"
                        classes = G.CLASSES_FOR[fam]
                        cls = classes[cnt % len(classes)]
                        if cls == "AddedDiagK":
                            cls = "Dense"
                        cases.append({"kind": "pre", "fam": fam, "n": n, "batch": list(bs), "cls": cls, "dkind": dk,
                                      "max_size": mx, "min_size": mn, "tol": tol, "route": route, "twice": cnt % 4 == 1,
                                      "prior_tol": prior_tol_for(tol) if cnt % 3 == 2 else None,
                                      "size_history": size_history_for(mx, n, cnt),
                                      "vseed": rng.randrange(1 << 30)})
                        cnt += 1
    # decision boundary of the constant-diagonal test (torch.equal: EXACT equality with the first entry, per member,
    # on the whole batch): exactly constant / constant up to 1 ulp, 1e-7, 1e-5, 1e-3 relative / tiny magnitudes with a
    # large relative spread / tiny exactly constant / batches mixing the kinds; K of order 1 and K of order 2^-27
    for fam in ("full", "lowrank", "toeplitz"):
        for n in ((3, 5, 6) if ctx.quick else (3, 4, 5, 6, 8)):
            for bs in ((), (2,), (3,)):
                for dk in BOUNDARY_KINDS:
                    if dk == "mixed_near" and not bs:
                        continue
                    cases.append({"kind": "pre", "fam": fam, "n": n, "batch": list(bs), "cls": "Dense", "dkind": dk,
                                  "max_size": [1, 2, n, 3, n - 1][cnt % 5], "min_size": 1, "tol": [1e-3, 1e-1, 1e-8][cnt % 3],
                                  "route": ["AddedDiag(K,D)", "K+D", "AddedDiag(D,K)"][cnt % 3], "twice": cnt % 4 == 1,
                                  "prior_tol": None, "k_scale": dk.startswith("tiny") and cnt % 2 == 0,
                                  "size_history": size_history_for([1, 2, n, 3, n - 1][cnt % 5], n, cnt + 1),
                                  "vseed": rng.randrange(1 << 30)})
                    cnt += 1
    # special cells
    for n in (2, 3):
        cases.append({"kind": "pre", "fam": "indefinite", "n": n, "batch": [], "cls": "Dense", "dkind": "const_op",
                      "max_size": 15, "min_size": 1, "tol": 1e-3, "route": "AddedDiag(K,D)", "twice": False, "vseed": n})
    for dk in ("ubK_bD_nonconst", "ubK_bD_const"):
        cases.append({"kind": "pre", "fam": "full", "n": 3, "batch": [], "cls": "Dense", "dkind": dk,
                      "max_size": 2, "min_size": 1, "tol": 1e-3, "route": "AddedDiag(K,D)", "twice": False, "vseed": 11})
    return cases


def _dy_pos(rng):
    return rng.randint(1, 16) / 8


def materialise_pre(case):
    torch = _torch()
    rng = random.Random(case["vseed"])
    n = case["n"]
    nb = nbatch(case["batch"])
    if case["fam"] == "indefinite":
        K = torch.ones(n, n, dtype=G.DT) * 2.0 + torch.eye(n, dtype=G.DT) * (-1.0)
        Ks, metas = [K], [{}]
    else:
        Ks, metas = make_members(rng, case["fam"], n, nb, True)
    if case.get("k_scale"):
        Ks = [K * (2.0 ** -27) for K in Ks]
    dk = case["dkind"]
    bs = tuple(case["batch"])
    if dk in BOUNDARY_KINDS:
        rows = [boundary_row(rng, dk, n, b) for b in range(nb)]
        raw = torch.tensor(rows, dtype=G.DT).reshape(*bs, n)
        return Ks, metas, ("diag", raw), [raw.reshape(-1, n)[b].tolist() for b in range(nb)]
    # D as (raw tensor handed to the constructor, is ConstantDiag?, per-member diagonals)
    if dk == "const_op":
        c = _dy_pos(rng)
        raw = torch.tensor([c], dtype=G.DT)
        Ds = [[c] * n for _ in range(nb)]
        return Ks, metas, ("constdiag", raw), Ds
    if dk == "const_vec":
        c = _dy_pos(rng)
        raw = torch.full((n,), c, dtype=G.DT)
        return Ks, metas, ("diag", raw), [[c] * n for _ in range(nb)]
    if dk == "nonconst":
        rows = [[_dy_pos(rng) for _ in range(n)] for _ in range(nb)]
        for r_ in rows:
            if n > 1 and len(set(r_)) == 1:
                r_[-1] = r_[0] + 0.125
        raw = torch.tensor(rows, dtype=G.DT).reshape(*bs, n)
        return Ks, metas, ("diag", raw), rows
    if dk == "const_members_differ":
        cs = [0.125 * (b + 1) + _dy_pos(rng) for b in range(nb)]
        raw = torch.tensor(cs, dtype=G.DT).reshape(*bs, 1)
        return Ks, metas, ("constdiag", raw), [[c] * n for c in cs]
    if dk == "mixed":
        rows = [[_dy_pos(rng)] * n for _ in range(nb)]
        if n > 1:
            rows[-1] = [_dy_pos(rng) for _ in range(n)]
            if len(set(rows[-1])) == 1:
                rows[-1][0] += 0.125
        raw = torch.tensor(rows, dtype=G.DT).reshape(*bs, n)
        return Ks, metas, ("diag", raw), rows
    if dk == "bcast_nonconst":
        row = [_dy_pos(rng) for _ in range(n)]
        if n > 1 and len(set(row)) == 1:
            row[0] += 0.125
        raw = torch.tensor(row, dtype=G.DT)                     # unbatched D, batched K
        return Ks, metas, ("diag", raw), [row[:] for _ in range(nb)]
    if dk == "bcast_const":
        c = _dy_pos(rng)
        raw = torch.tensor([c], dtype=G.DT).reshape(*([1] * len(bs)), 1)   # singleton-batched constant
        return Ks, metas, ("constdiag", raw), [[c] * n for _ in range(nb)]
    if dk in ("ubK_bD_nonconst", "ubK_bD_const"):
        if dk == "ubK_bD_nonconst":
            rows = [[_dy_pos(rng) + 0.125 * i for i in range(n)] for _ in range(2)]
            raw = torch.tensor(rows, dtype=G.DT)
            return Ks * 2, metas * 2, ("diag", raw), rows
        cs = [0.5, 0.75]
        raw = torch.tensor(cs, dtype=G.DT).reshape(2, 1)
        return Ks * 2, metas * 2, ("constdiag", raw), [[c] * n for c in cs]
    raise ValueError(dk)


def boundary_row(rng, dk, n, b):
    """one member's diagonal around the constant / non-constant decision boundary"""
    c = _dy_pos(rng)
    if dk == "mixed_near":
        dk = ["exact_vec", "near_1e-5", "near_1e-3", "near_ulp"][(b + rng.randrange(2)) % 4] if b else "exact_vec"
    if dk == "exact_vec":
        return [c] * n
    if dk == "tiny_const":
        return [3e-9] * n
    if dk == "near_ulp":
        row = [c] * n
        row[rng.randrange(n)] = c * (1.0 + 2.0 ** -52) if rng.randrange(2) else c * (1.0 - 2.0 ** -53)
        return row
    if dk.startswith("near_"):
        rel = float(dk[5:])
        row = [c * (1.0 + rel * rng.uniform(-1.0, 1.0)) for _ in range(n)]
        j = rng.randrange(1, n) if n > 1 else 0
        row[j] = row[0] * (1.0 + rel * (0.9 if rng.randrange(2) else -0.9))      # at least one entry a full step away
        return row
    if dk.startswith("tiny_"):
        base = float(dk[5:])
        row = [base * (1.0 + 9.0 * rng.random()) for _ in range(n)]            # spread of up to 900 %
        if n > 1 and max(row) < 3 * min(row):
            row[-1] = 5 * min(row)
        return row
    raise ValueError(dk)


def run_pre(case, Ks, metas, Dspec, Ds):
    torch = _torch()
    import linear_operator.operators as O
    from linear_operator import settings
    n = case["n"]
    bs = tuple(case["batch"])
    if case["dkind"].startswith("ubK_bD"):
        Kop = G.build_op(case["cls"], Ks[:1], metas[:1], (), case["fam"])
    else:
        Kop = G.build_op(case["cls"], Ks, metas, bs, case["fam"] if case["fam"] != "indefinite" else "full")
    if Kop is None:
        return None
    kind, raw = Dspec
    Dop = O.ConstantDiagLinearOperator(raw.clone(), n) if kind == "constdiag" else O.DiagLinearOperator(raw.clone())
    if case.get("prior_tol") is not None and case["max_size"] > 0:
        # history: the same K object was factorised before (by another K + D) under another tolerance
        with settings.max_preconditioner_size(case["max_size"]), settings.min_preconditioning_size(1), \
                settings.preconditioner_tolerance(case["prior_tol"]), warnings.catch_warnings():
            warnings.simplefilter("ignore")
            try:
                O.AddedDiagLinearOperator(Kop, O.DiagLinearOperator(torch.ones(n, dtype=G.DT)))._preconditioner()
            except Exception:
                pass
    route = case["route"]
    with warnings.catch_warnings():
        warnings.simplefilter("ignore")
        try:
            if route == "AddedDiag(K,D)":
                ad = O.AddedDiagLinearOperator(Kop, Dop)
            elif route == "AddedDiag(D,K)":
                ad = O.AddedDiagLinearOperator(Dop, Kop)
            elif route == "K+D":
                ad = Kop + Dop
            elif route == "add_diagonal":
                ad = Kop.add_diagonal(raw.clone())
            else:
                ad = Kop.add_jitter(float(raw.reshape(-1)[0]))
            if type(ad) is not O.AddedDiagLinearOperator:
                ad = O.AddedDiagLinearOperator(Kop, Dop)
            with settings.max_preconditioner_size(case["max_size"]), settings.min_preconditioning_size(case["min_size"]), \
                    settings.preconditioner_tolerance(case["tol"]):
                for sz in case.get("size_history") or []:
                    # history on this object: every cached component must afterwards belong to the size in force
                    with settings.max_preconditioner_size(sz):
                        ad._preconditioner()
                cl, Pop, ld = ad._preconditioner()
                if case["twice"]:
                    cl, Pop, ld = ad._preconditioner()
                # fall-backs around it: LinearOperator._solve_preconditioner hands out the same closure (or None:
                # the beta feature default_preconditioner is off); a preconditioner_override wins over every setting
                I = torch.eye(n, dtype=G.DT)
                sp = ad._solve_preconditioner()
                sentinel = (object(), object(), object())
                ad_ov = O.AddedDiagLinearOperator(Kop, Dop, preconditioner_override=lambda self_: sentinel)
                extra = {"const_flag": getattr(ad, "_constant_diag", None),
                         "override_ok": ad_ov._preconditioner() is sentinel,
                         "solve_ok": (sp is None) if cl is None else (sp is not None and torch.equal(sp(I), cl(I))),
                         "base_none": tuple(Kop._preconditioner()) == (None, None, None) if type(Kop) is not O.AddedDiagLinearOperator else True}
                if cl is None:
                    return dict(extra, raised=None, none=True, all_none=Pop is None and ld is None)
                clI = cl(I)
                Pd = Pop.to_dense()
                full = tuple(ad.batch_shape)
                ok_shape = tuple(clI.shape[-2:]) == (n, n) and tuple(Pd.shape) == full + (n, n) and tuple(ld.shape) == full
                clI = clI.expand(*full, n, n)
                return dict(extra, raised=None, none=False, shape_ok=ok_shape, clI=clI.reshape(-1, n, n), P=Pd.reshape(-1, n, n),
                            ld=ld.reshape(-1), batch=list(full))
        except Exception as ex:
            return {"raised": type(ex).__name__, "msg": str(ex)[:300]}


def pre_case_lit(case, Ks, Ds, obs):
    if obs["none"]:
        o = "None"
    else:
        o = "(Some %s)" % lst(["(%s, %s, %s)" % (mat(obs["clI"][b].tolist()), mat(obs["P"][b].tolist()), fl(obs["ld"][b].item()))
                                 for b in range(len(Ks))])
    # the model runs modified Gram-Schmidt, the implementation Householder QR: both lose accuracy with the conditioning
    # max|K| / min d of the Woodbury form; the per-case tolerance follows it (1e-8 for the well-conditioned bulk)
    wood = max(float(K.abs().max()) / min(d) for K, d in zip(Ks, Ds)) if Ks and all(min(d) > 0 for d in Ds) else 1.0
    tol = max(TOL_PRE, 1e-13 * wood)
    cf = obs.get("const_flag")
    return "CasePre %s %d %s %s %s %s %s" % (st_lit(case["max_size"], case["min_size"], case["tol"]), case["n"],
                                             lst([mat(K.tolist()) for K in Ks]), lst([vec(d) for d in Ds]), fl(tol),
                                             "None" if cf is None or obs["none"] else ("(Some true)" if cf else "(Some false)"), o)


def pre_key(case, what):
    return {"api": "_preconditioner", "cls": case["cls"], "dkind": case["dkind"], "batched": len(case["batch"]) > 0,
            "d_batch_exceeds_k": case["dkind"].startswith("ubK_bD"), "fail": what}


def pre_direct(case, Ks, Ds, obs):
    torch = _torch()
    n = case["n"]
    if obs["raised"] is not None:
        return [("raises", "_preconditioner raised %s: %s" % (obs["raised"], obs.get("msg", "")))]
    pre_fails = []
    if not obs["solve_ok"]:
        pre_fails.append(("solve_routing", "_solve_preconditioner() does not hand out the closure of _preconditioner() (or is not None when there is none)"))
    if not obs["override_ok"]:
        pre_fails.append(("override", "preconditioner_override is not returned by _preconditioner()"))
    if not obs["base_none"]:
        pre_fails.append(("base", "LinearOperator._preconditioner() of the base operator is not (None, None, None)"))
    if pre_fails:
        return pre_fails
    expect_none = case["max_size"] == 0 or n < case["min_size"]
    ref = None
    if not expect_none:
        ref = G.ref_pivchol([K.tolist() for K in Ks], case["max_size"], case["tol"])
        if any(any(x != x for row in L for x in row) for L, _ in ref[1]):
            expect_none = True          # NaN fall-back
    if obs["none"]:
        if not expect_none:
            return [("none", "no preconditioner returned although max_preconditioner_size > 0, n >= min_preconditioning_size and the factor is finite")]
        if not obs["all_none"]:
            return [("none", "closure is None but operator / logdet are not")]
        return []
    if expect_none:
        return [("none", "a preconditioner was returned although the settings / NaN fall-back ask for none")]
    fails = []
    if not obs["shape_ok"]:
        fails.append(("shape", "shapes of closure(I) / operator / logdet do not match the batch shape"))
    for b, K in enumerate(Ks):
        Lref = torch.tensor(ref[1][b][0], dtype=G.DT).reshape(n, ref[0])
        f = G.check_precond_member(K, torch.tensor(Ds[b], dtype=G.DT), Lref, obs["clI"][b], obs["P"][b], obs["ld"][b].item())
        fails += [(code, "member %d: %s" % (b, x)) for code, x in f]
    if fails and obs["shape_ok"] and case["fam"] != "indefinite":
        # The reference breaks exact ties towards the first maximum.  The property only asks for SOME greedy pivoted
        # Cholesky factor: if the library's own factor (fresh operator, same settings) is a valid one (all C10 predicates)
        # and the preconditioner is exact for it, this is a tie-rule difference, left to the model correspondence.
        alt = pre_direct_with_library_factor(case, Ks, Ds, obs)
        if alt is not None and not alt:
            return []
    return fails


def pre_fragile(case, Ks, metas, obs):
    """the factor inside the preconditioner is a pivoted Cholesky run of its own: the same robustness filter as for the
    pivoted-Cholesky cases (near ties, rounding-dependent ties, error within rounding of the tolerance), evaluated on the
    library's factor of a fresh operator under the same settings"""
    if obs.get("raised") is not None or obs.get("none") or case["fam"] == "indefinite" or case["dkind"].startswith("ubK_bD"):
        return False
    from linear_operator import settings
    n = case["n"]
    try:
        Kop = G.build_op(case["cls"], Ks, metas, tuple(case["batch"]), case["fam"])
        with settings.preconditioner_tolerance(case["tol"]), warnings.catch_warnings():
            warnings.simplefilter("ignore")
            L, p = Kop.pivoted_cholesky(case["max_size"], return_pivots=True)
        r = L.shape[-1]
        pobs = {"raised": None, "r": r, "shape_ok": True, "dtype_ok": True, "L": L.reshape(-1, n, r), "perm": p.reshape(-1, n)}
        pcase = {"n": n, "rank": case["max_size"], "etol": None, "st_tol": case["tol"]}
        fails, info = pc_direct(pcase, Ks, pobs)
        if fails:
            return False                   # a wrong factor is for the predicates, not for the filter
        return pc_fragile(pcase, Ks, pobs, info)
    except Exception:
        return False


def pre_direct_with_library_factor(case, Ks, Ds, obs):
    torch = _torch()
    from linear_operator import settings
    n = case["n"]
    try:
        _, metas = materialise_pre(case)[:2]
        Kop = G.build_op(case["cls"], Ks if not case["dkind"].startswith("ubK_bD") else Ks[:1], metas if not case["dkind"].startswith("ubK_bD") else metas[:1],
                         tuple(case["batch"]), case["fam"])
        with settings.preconditioner_tolerance(case["tol"]), warnings.catch_warnings():
            warnings.simplefilter("ignore")
            L, p = Kop.pivoted_cholesky(case["max_size"], return_pivots=True)
        r = L.shape[-1]
        Ls = L.reshape(-1, n, r)
        perms = p.reshape(-1, n).tolist()
        if len(Ls) == 1 and len(Ks) > 1:
            Ls, perms = [Ls[0]] * len(Ks), perms * len(Ks)
        fails = []
        for b, K in enumerate(Ks):
            f, _ = G.check_pc_member(K, Ls[b], perms[b], r)
            fails += f
        fails += [("guard", x) for x in G.check_pc_guard(Ks, list(Ls), perms, r, case["max_size"], case["tol"])]
        for b, K in enumerate(Ks):
            fails += G.check_precond_member(K, torch.tensor(Ds[b], dtype=G.DT), Ls[b], obs["clI"][b], obs["P"][b], obs["ld"][b].item())
        return fails
    except Exception:
        return None


# ------------------------------------------------------------------------------------------------

def parse_seq_nat(out):
    """'= [:: 1; 2]\n : seq nat' (ssreflect notation) -> [1, 2]; None if the output has another form"""
    import re
    m = re.search(r"=\s*\[::\s*(.*?)\]\s*:\s*seq nat", out, re.S)
    if not m:
        return None
    body = m.group(1).strip()
    return [int(x.strip()) for x in body.split(";")] if body else []


def run_shards(ctx, shards, timeout=900, workers=3):
    """like common.run_shards, with at most `workers` concurrent coqc processes"""
    from concurrent.futures import ThreadPoolExecutor
    paths = []
    for name, src in shards:
        p = os.path.join(ctx.gen, "cases_%s.v" % name)
        with open(p, "w") as f:
            f.write(src)
        paths.append((name, p))
    res = {}
    with ThreadPoolExecutor(max_workers=workers) as ex:
        for name, r in ex.map(lambda np: (np[0], common.coqc_file(ctx.prop, np[1], timeout=timeout)), paths):
            res[name] = r
    for name, p in paths:
        for ext in (".vo", ".vok", ".vos", ".glob"):
            try:
                os.remove(p[:-2] + ext)
            except OSError:
                pass
        try:
            os.remove(os.path.join(os.path.dirname(p), "." + os.path.basename(p)[:-2] + ".aux"))
        except OSError:
            pass
    return res


def shard_src(lits):
    return ("From Coq Require Import PrimFloat.\nFrom mathcomp Require Import ssreflect ssrbool ssrnat seq.\n"
            "Require Import C10.Model C10.Check.\n"
            "Definition cases : seq case := [::\n %s].\nEval vm_compute in (bad_cases cases 0).\n" % ";\n ".join(lits))


def jsonable(case, Ks, Ds=None):
    d = dict(case)
    if Ks is not None:
        d["K"] = [K.tolist() for K in Ks]
    if Ds is not None:
        d["D"] = Ds
    return d


def collect(ctx, direct_only=False):
    """Generate, run the implementation, evaluate the direct predicates.  Returns (records, stats);
    a record = (case, Ks, Ds, obs, literal)."""
    stats = {"pc": 0, "pre": 0, "redrawn": 0, "skipped_class": 0, "direct_failures": 0, "ties": 0, "early_stops": 0,
             "members_differ": 0, "raised_ok": 0, "none_ok": 0, "const_branch": 0, "nonconst_branch": 0,
             "perm": 0, "perm_members": 0, "backward": 0, "big_direct": 0, "size_histories": 0}
    big_sigs = set()
    stats["_big_sigs"] = big_sigs
    recs = []
    reported = set()

    def report(case, replay, key):
        sig = json.dumps(key, sort_keys=True)
        if sig in reported:
            return
        reported.add(sig)
        stats["direct_failures"] += 1
        ctx.violation(replay, key=key)

    for case in pc_grid(ctx):
        obs = None
        if case.get("big"):
            Ks, metas = materialise_pc(case)
            obs = run_pc(case, Ks, metas)
            stats["pc"] += 1
            fails, info = pc_direct(case, Ks, obs)
            if fails:
                what, msg = fails[0]
                report(case, {"kind": "pivoted-cholesky-property", "case": jsonable(case, Ks), "what": [m for _, m in fails][:4],
                              "observed": {"r": obs.get("r"), "perm": obs["perm"].tolist() if obs.get("perm") is not None else None, "raised": obs["raised"]}},
                       pc_key(case, what))
            else:
                stats["big_direct"] += 1
                if not obs["raised"]:
                    big_sigs.add(("big", case["fam"], case["n"], tuple(case["batch"]), obs["r"], json.dumps(obs["perm"].tolist())))
            continue
        for attempt in range(6):
            Ks, metas = materialise_pc(case)
            obs = run_pc(case, Ks, metas)
            if obs is None:
                break
            fails, info = pc_direct(case, Ks, obs)
            if fails:
                break
            if not pc_fragile(case, Ks, obs, info):
                break
            stats["redrawn"] += 1
            case = dict(case, vseed=case["vseed"] * 31 + 7 + attempt)
        if obs is None:
            stats["skipped_class"] += 1
            continue
        stats["pc"] += 1
        if fails:
            what, msg = fails[0]
            report(case, {"kind": "pivoted-cholesky-property", "case": jsonable(case, Ks), "what": [m for _, m in fails][:4],
                          "observed": {"r": obs.get("r"), "perm": obs["perm"].tolist() if obs.get("perm") is not None else None,
                                       "L": obs["L"].tolist() if obs.get("L") is not None else None, "raised": obs["raised"]}},
                   pc_key(case, what))
            if obs.get("raised") in (None, "IndexError") and not direct_only:
                recs.append((dict(case, direct_failed=True), Ks, None, obs, pc_case_lit(case, Ks, obs)))
            continue
        if pc_fragile(case, Ks, obs, info):
            continue                       # could not find a robust draw: not compared against the model
        if obs["raised"]:
            stats["raised_ok"] += 1
        else:
            stats["ties"] += 1 if info["ties"] else 0
            stats["early_stops"] += 1 if obs["r"] < min(case["rank"], case["n"]) else 0
            if len(Ks) > 1 and len({tuple(p) for p in obs["perm"].tolist()}) > 1:
                stats["members_differ"] += 1
        recs.append((case, Ks, None, obs, None if direct_only else pc_case_lit(case, Ks, obs)))

    for case in pre_grid(ctx):
        fragile = False
        for attempt in range(6):
            Ks, metas, Dspec, Ds = materialise_pre(case)
            obs = run_pre(case, Ks, metas, Dspec, Ds)
            if obs is None:
                break
            fails = pre_direct(case, Ks, Ds, obs)
            fragile = (not fails) and pre_fragile(case, Ks, metas, obs)
            if fails or not fragile:
                break
            stats["redrawn"] += 1
            case = dict(case, vseed=case["vseed"] * 31 + 11 + attempt)
        if obs is None:
            stats["skipped_class"] += 1
            continue
        stats["pre"] += 1
        if fragile:
            continue                       # no robust draw found: not compared against the model
        if fails:
            what, msg = fails[0]
            report(case, {"kind": "preconditioner-property", "case": jsonable(case, Ks, Ds), "what": [m for _, m in fails][:4],
                          "observed": {"raised": obs["raised"], "msg": obs.get("msg")}},
                   pre_key(case, what))
            if obs.get("raised") is None and not direct_only:
                recs.append((dict(case, direct_failed=True), Ks, Ds, obs, pre_case_lit(case, Ks, Ds, obs)))
            continue
        if obs["none"]:
            stats["none_ok"] += 1
        else:
            const = all(len(set(d)) == 1 for d in Ds)
            stats["const_branch" if const else "nonconst_branch"] += 1
            stats["size_histories"] += 1 if case.get("size_history") else 0
        recs.append((case, Ks, Ds, obs, None if direct_only else pre_case_lit(case, Ks, Ds, obs)))

    # linear_operator/utils/permutation.py: one record per batch member
    for case in P.perm_grid(ctx):
        pm = P.materialise_perm(case)
        obs = P.run_perm(case, pm)
        stats["perm"] += 1
        fails = P.perm_direct(case, pm, obs)
        if fails:
            what, msg = fails[0]
            rp = dict(case)
            rp.update({k: (v if k not in ("Ms", "metas") else None) for k, v in pm.items()})
            if "Ms" in pm:
                rp["Ms"] = [M.tolist() for M in pm["Ms"]]
            report(case, {"kind": "permutation-property", "case": rp, "what": [m for _, m in fails][:4],
                          "observed": {k: v for k, v in obs.items() if k in ("raised", "msg", "res", "shape")}}, P.perm_key(case, what))
            continue
        if not direct_only:
            for b, lit in enumerate(P.perm_lits(case, pm, obs, fl, nats)):
                stats["perm_members"] += 1
                recs.append((dict(case, member=b), None, None, obs, lit))

    # PivotedCholesky.backward: direct predicate only (gradient against plain-torch autograd)
    for case in P.bw_grid(ctx):
        Ks, W = P.materialise_bw(case)
        obs = P.run_bw(case, Ks, W)
        stats["backward"] += 1
        fails = P.bw_direct(case, Ks, W, obs)
        if fails:
            what, msg = fails[0]
            report(case, {"kind": "backward-property", "case": dict(jsonable(case, Ks), W=W), "what": [m for _, m in fails][:4],
                          "observed": {"raised": obs["raised"], "msg": obs.get("msg"), "perm": obs.get("perm")}}, P.bw_key(case, what))
    return recs, stats


def run(ctx):
    _torch()
    regenerate()

    def on_fail(info):
        # a proof no longer checks: search the implementation with the direct predicates at thorough width
        before = ctx.violations + len(ctx.known_hit)
        tier = ctx.tier
        ctx.tier = "thorough"
        try:
            collect(ctx, direct_only=True)
        finally:
            ctx.tier = tier
        return ctx.violations + len(ctx.known_hit) > before

    ok = common.proof_stage(ctx, on_fail)
    recs, stats = collect(ctx)
    mism = []
    also_direct = 0
    if ok:
        shards = []
        for i in range(0, len(recs), SHARD):
            shards.append(("c10_%d" % (i // SHARD), shard_src([r[4] for r in recs[i:i + SHARD]])))
        res = run_shards(ctx, shards)
        for si, (name, _) in enumerate(shards):
            rc, out = res[name]
            bad = parse_seq_nat(out) if rc == 0 else None
            if bad is None:
                ctx.violation({"kind": "shard-failed", "shard": name, "out": out[-600:]}, no_input=True)
                continue
            mism += [si * SHARD + b for b in bad]
        seen = set()
        for m in mism:
            case, Ks, Ds, obs, _ = recs[m]
            if case.get("direct_failed"):
                also_direct += 1          # already reported with its concrete failing input
                continue
            # the direct predicates passed for this case (otherwise it would not be in recs): the
            # implementation satisfies the property here, so the disagreement is model vs implementation
            key = {"pc": pc_key, "pre": pre_key}.get(case["kind"], P.perm_key)(case, "model")
            sig = json.dumps(key, sort_keys=True)
            if sig in seen:
                continue
            seen.add(sig)
            ctx.violation({"kind": "model-implementation-disagreement", "case": jsonable(case, Ks, Ds),
                           "observed": {k: (v.tolist() if hasattr(v, "tolist") else v) for k, v in obs.items()},
                           "correspondence": "coq/C10/Check.v check_case (model on binary64 vs implementation)"}, no_input=True)
    big_sigs = stats.pop("_big_sigs", set())
    distinct = set(big_sigs)
    for case, Ks, Ds, obs, _ in recs:
        if case.get("direct_failed"):
            continue
        if case["kind"] == "pc":
            if obs["raised"] or case["n"] < 2:
                continue
            sig = ("pc", case["fam"], case["n"], tuple(case["batch"]), case["cls"], obs["r"], json.dumps(obs["perm"].tolist()))
        elif case["kind"] == "pre":
            if obs["none"]:
                continue
            sig = ("pre", case["fam"], case["n"], tuple(case["batch"]), case["cls"], case["dkind"], case["max_size"], case["tol"], case["route"])
        elif case["kind"] == "perm":
            if case["left"] == "none" and case["right"] == "none":
                continue
            sig = ("perm", case["nr"], case["nc"], tuple(case["batch"]), case["left"], case["right"], case["src"], case["pbatch"])
        else:
            if case["n"] < 2:
                continue
            sig = ("inv", case["n"], tuple(case["batch"]))
        distinct.add(sig)
    samples = []
    main_recs = [r for r in recs if r[0]["kind"] in ("pc", "pre")]
    for case, Ks, Ds, obs, _ in (main_recs[len(main_recs) // 5], main_recs[-7] if len(main_recs) > 7 else main_recs[-1]):
        s = {k: case[k] for k in case}
        s["K"] = [K.tolist() for K in Ks]
        if case["kind"] == "pc":
            s["observed"] = {"r": obs.get("r"), "perm": obs["perm"].tolist() if not obs["raised"] else None}
        else:
            s["D"] = Ds
            s["observed"] = {"none": obs["none"], "logdet": None if obs["none"] else obs["ld"].tolist()}
        samples.append(s)
    ctx.coverage.update({
        "trusted_base": common.COQ_TRUSTED + [
            "PrimFloat (binary64) evaluation of the model by vm_compute in the correspondence shards; fln (Check.v) as the logarithm on binary64",
            "modelled, not verified: torch primitives gather/scatter_/max/norm/sum/sqrt/cat/eye/matmul/log by their mathematical meaning; "
            "torch.linalg.qr by its specification (Q R = M, Q^T Q = I, R upper triangular) in the theorems and by modified Gram-Schmidt in the executions; "
            "operator row extraction / _approx_diagonal by the dense matrix (re-checked on 11 operator classes by the correspondence)",
            "exact-arithmetic theorems (any real closed field); rounding is covered only by the 1e-9 / 1e-8 comparison tolerances",
            "correspondence harness harness/c10.py, harness/c10_gen.py (generators, operator builders, literal writer, comparators coq/C10/Check.v)"],
        "source_scan": scan_source(),
        "evaluations": len(recs) + stats["backward"] + stats["big_direct"], "distinct_nontrivial": len(distinct),
        "rule": "pivoted-Cholesky cases: distinct by (family, n, batch shape, operator class, returned rank, returned permutations), non-trivial = n >= 2 and no exception; "
                "preconditioner cases: distinct by (family, n, batch shape, class, kind of D, max size, tolerance, construction route), non-trivial = a preconditioner was returned; "
                "apply_permutation members: distinct by (shape, batch shape, kinds of left/right, source class, how the permutation is batched), non-trivial = at least one side given; "
                "inverse_permutation: distinct by (n, batch shape), n >= 2; big direct-only cells: distinct by (family, n, batch shape, returned rank, permutations); "
                "backward-gradient cases are counted in evaluations only",
        "mismatches": len(mism), "mismatches_on_cases_failing_the_direct_predicates": also_direct, "counters": stats,
        "samples": samples,
    })
    ctx.assumptions = [
        "inputs are symmetric and every pivot met is positive (theorems); the generated matrices are PSD with dyadic entries so that all operator classes denote bit-identical dense matrices",
        "torch.linalg.qr satisfies its specification; torch.max returns the first maximal index on CPU",
        "float64 on CPU; draws whose pivot choice / stopping iteration hinges on a non-exact near tie (relative gap < 1e-7) are redrawn",
    ]


def replay(rp):
    torch = _torch()
    case = rp.get("case")
    if not case:
        print("replay file names a broken obligation / shard, not an input:", json.dumps(rp)[:600])
        return 1
    if case["kind"] in ("perm", "inv"):
        pm = P.materialise_perm(case)
        obs = P.run_perm(case, pm)
        fails = P.perm_direct(case, pm, obs)
        print("case:", {k: case[k] for k in case if k in ("kind", "nr", "nc", "n", "batch", "left", "right", "src", "pbatch", "vseed")})
        print("observed:", {k: v for k, v in obs.items() if k in ("raised", "msg", "res", "shape")})
        for f in fails:
            print("property failure:", f[1])
        if not fails:
            print("property holds on this case")
        return 1 if fails else 0
    if case["kind"] == "bw":
        Ks, W = P.materialise_bw(case)
        obs = P.run_bw(case, Ks, W)
        fails = P.bw_direct(case, Ks, W, obs)
        print("case:", {k: case[k] for k in case if k not in ("K", "W")})
        print("observed:", {"raised": obs["raised"], "msg": obs.get("msg"), "perm": obs.get("perm")})
        for f in fails:
            print("property failure:", f[1])
        if not fails:
            print("property holds on this case")
        return 1 if fails else 0
    Ks = [torch.tensor(K, dtype=G.DT) for K in case["K"]]
    if case["kind"] == "pc":
        _, metas = materialise_pc(case)
        obs = run_pc(case, Ks, metas) if case["cls"] == "Dense" else run_pc(case, *materialise_pc(case))
        fails, info = pc_direct(case, Ks, obs)
        print("case:", {k: case[k] for k in case if k != "K"})
        print("observed:", {"raised": obs["raised"], "r": obs.get("r"), "perm": obs["perm"].tolist() if obs.get("perm") is not None else None})
    else:
        Ks2, metas, Dspec, Ds = materialise_pre(case)
        obs = run_pre(case, Ks2, metas, Dspec, Ds)
        fails = pre_direct(case, Ks2, Ds, obs)
        print("case:", {k: case[k] for k in case if k not in ("K", "D")})
        print("observed:", {k: (v.tolist() if hasattr(v, "tolist") else v) for k, v in obs.items() if k in ("raised", "msg", "none", "ld")})
    for f in fails:
        print("property failure:", f[1])
    if not fails:
        print("property holds on this case")
    return 1 if fails else 0
